//! C39 — Peer tracker counts match peer states.
//!
//! Runs random event histories against the real `lumina_node::peer_tracker::PeerTracker`
//! (through the cfg-guarded `verif::Tracker` wrapper) and prints, after every event, the
//! return value, the emitted node events, the published `PeerTrackerInfo`, the raw protect
//! counter and a canonical dump of every tracked peer.
use std::time::Duration;

use libp2p::PeerId;
use libp2p::ping;
use libp2p::swarm::ConnectionId;
use lumina_node::verif::peer_tracker::Tracker;
use verif_harness::*;

const N_PEERS: usize = 8;
/// number of distinct peer ids the harness can name (S10: the size-threshold phases go up to 2049 peers)
const N_IDS: usize = 2112;

struct C39 {
    tracker: Tracker,
    ids: Vec<PeerId>,
    idx: std::collections::HashMap<PeerId, usize>,
}

impl C39 {
    fn new() -> Self {
        let ids: Vec<PeerId> = (0..N_IDS).map(|_| PeerId::random()).collect();
        let idx = ids.iter().enumerate().map(|(i, id)| (*id, i)).collect();
        C39 { tracker: Tracker::new(), ids, idx }
    }
    fn peer(&self, line: &str) -> PeerId {
        let p = arg_u64(line, "p").expect("p") as usize;
        self.ids[p % self.ids.len()]
    }
    fn idx(&self, id: &PeerId) -> usize {
        *self.idx.get(id).expect("known peer")
    }
    fn dump(&mut self, ret: Option<bool>) -> String {
        let ev: Vec<String> = self
            .tracker
            .drain_events()
            .into_iter()
            .map(|(c, id, t)| format!("{}{}{}", if c { "C" } else { "D" }, self.idx(&id), if t { "T" } else { "t" }))
            .collect();
        let r = match ret {
            None => "-",
            Some(true) => "t",
            Some(false) => "f",
        };
        format!("ret={r} ev={} {}", join_or_dash("+", &ev), self.state())
    }
    fn state(&self) -> String {
        let i = self.tracker.info();
        let mut prot = self.tracker.protect_counter();
        prot.sort();
        let prot: Vec<String> = prot.iter().map(|(k, v)| format!("{k}:{v}")).collect();
        let mut peers = self.tracker.peers();
        peers.sort_by_key(|p| self.idx(&p.id));
        let peers: Vec<String> = peers
            .iter()
            .map(|p| {
                let mut conns: Vec<(usize, Option<u128>)> = p
                    .connections
                    .iter()
                    .map(|(c, ping)| (conn_num(c), ping.map(|d| d.as_millis())))
                    .collect();
                conns.sort();
                let conns: Vec<String> = conns.iter().map(|(c, p)| format!("{c}.{}", opt(p))).collect();
                let mut tags = p.protected.clone();
                tags.sort();
                let tags: Vec<String> = tags.iter().map(|t| t.to_string()).collect();
                let disc = match p.disconnected_for {
                    None => "c".to_string(),
                    Some(d) => d.as_secs().to_string(),
                };
                format!(
                    "{}/{}/{}/{}{}/{}/{}/{}",
                    self.idx(&p.id),
                    join_or_dash("+", &conns),
                    join_or_dash("+", &tags),
                    if p.trusted { "T" } else { "t" },
                    if p.archival { "A" } else { "a" },
                    p.node_kind,
                    opt(&p.best_ping.map(|d| d.as_millis())),
                    disc
                )
            })
            .collect();
        format!(
            "info={},{},{},{} prot={} peers={}",
            i.num_connected_peers,
            i.num_connected_trusted_peers,
            i.num_connected_full_nodes,
            i.num_connected_archival_nodes,
            join_or_dash("+", &prot),
            join_or_dash("|", &peers)
        )
    }
}

fn opt<T: ToString>(o: &Option<T>) -> String {
    match o {
        None => "x".into(),
        Some(v) => v.to_string(),
    }
}

fn join_or_dash(sep: &str, l: &[String]) -> String {
    if l.is_empty() { "-".into() } else { l.join(sep) }
}

/// `ConnectionId` only exposes its number through `Display`/`Debug`
fn conn_num(c: &ConnectionId) -> usize {
    let s = format!("{c}");
    s.trim_matches(|ch: char| !ch.is_ascii_digit()).parse().expect("connection id number")
}

const AGENTS: &[&str] = &[
    "lumina/celestia/0.14.0",
    "celestia-node/celestia/bridge/v0.24.1/fb95d45",
    "celestia-node/celestia/full/v0.24.1/fb95d45",
    "celestia-node/celestia/light/v0.24.1/fb95d45",
    "celestia-node/celestia/ant/v1",
    "celestia-node/full",
    "celestia-node/celestia",
    "celestia-node",
    "celestia-node//full",
    "probelab-node/celestia/ant/v0.1.0",
    "lumina",
    "@",
    "/lumina/x",
    "full/celestia-node/full",
    "celestia-node/x/bridge",
];

impl Prop for C39 {
    fn id(&self) -> &'static str {
        "C39"
    }
    fn rule(&self) -> &'static str {
        "Random event histories (connect, disconnect, trust, protect/unprotect, archival, agent version, ping, \
         add_peer_id, gc, passage of time, protected_len queries) over up to 8 peers x 3 connections each and \
         tags 0..3 (plus rare foreign connection ids / large tags), 30..120 events per history, histories \
         separated by `reset`; phases biased towards connecting, disconnecting, protecting and expiring. \
         Size-threshold phases (S10, tags big/.. and thr/..): histories that connect n peers one by one (quick n = 9, 17, 33, \
         65, 129, 513; thorough also 8, 10, 11, 16, 32, 64, 128, 257, 512, 1025), most of them protected with one shared tag, \
         run random events over all n and tear them down in batches with expiry and gc (every count 1..n is passed; \
         the largest history of a tier is torn down only partially); one peer with k simultaneous connections and \
         pings on them, and one peer with k protection tags / k counter entries (quick k = 8, 9, 16, 17, 32, 33, 64, 65, 129; \
         thorough also 7, 15, 31, 63, 127, 128, 513, 1025); gc ages 119/120/121 s. \
         Non-trivial = an event at position >= 6 of its history (the tracker holds several peers by then); \
         distinct = distinct (event, full observed tracker state) lines."
    }
    fn gen_ops(&mut self, rng: &mut Rng, tier: Tier, out: &mut Emitter) {
        let histories = if tier == Tier::Thorough { 1500 } else { 60 };
        for h in 0..histories {
            let len = rng.usize(30, 120);
            let npeers = if h % 5 == 0 { rng.usize(1, 3) } else { N_PEERS };
            // a phase biases the op mix so that the tracker fills up, empties, and expires
            let mut phase = rng.below(4);
            for i in 0..len {
                if rng.chance(1, 15) {
                    phase = rng.below(4);
                }
                let p = rng.usize(0, npeers - 1);
                let k = rng.usize(0, 2);
                let c = if rng.chance(1, 25) { rng.usize(0, 3 * N_PEERS - 1) } else { p * 3 + k };
                let tag = if rng.chance(1, 30) { *rng.pick(&[4u64, 7, 4294967295]) } else { rng.below(4) };
                let nt = i >= 6;
                let w = rng.below(100);
                let (line, tagname): (String, &str) = match phase {
                    // connect-heavy
                    0 if w < 35 => (format!("conn p={p} c={c}"), "conn"),
                    // disconnect-heavy
                    1 if w < 35 => (format!("disc p={p} c={c}"), "disc"),
                    // protect-heavy
                    2 if w < 20 => (format!("protect p={p} tag={tag}"), "protect"),
                    2 if w < 35 => (format!("unprotect p={p} tag={tag}"), "unprotect"),
                    // expiry-heavy
                    3 if w < 12 => (format!("advance secs={}", *rng.pick(&[1u64, 30, 59, 60, 61, 119, 120, 121, 200])), "advance"),
                    3 if w < 30 => ("gc".to_string(), "gc"),
                    3 if w < 35 => (format!("disc p={p} c={c}"), "disc"),
                    _ => match rng.below(100) {
                        0..=17 => (format!("conn p={p} c={c}"), "conn"),
                        18..=31 => (format!("disc p={p} c={c}"), "disc"),
                        32..=39 => (format!("trust p={p} v={}", rng.below(2)), "trust"),
                        40..=49 => (format!("protect p={p} tag={tag}"), "protect"),
                        50..=59 => (format!("unprotect p={p} tag={tag}"), "unprotect"),
                        60..=65 => (format!("archival p={p}"), "archival"),
                        66..=75 => (format!("agent p={p} s={}", rng.pick(AGENTS)), "agent"),
                        76..=80 => {
                            let ms = if rng.chance(1, 5) { "fail".to_string() } else { rng.range(1, 500).to_string() };
                            (format!("ping p={p} c={c} ms={ms}"), "ping")
                        }
                        81..=84 => (format!("add_peer p={p}"), "add_peer"),
                        85..=91 => ("gc".to_string(), "gc"),
                        92..=95 => (format!("advance secs={}", *rng.pick(&[1u64, 60, 119, 120, 121, 500])), "advance"),
                        _ => (format!("plen tag={tag}"), "plen"),
                    },
                };
                out.op(line, tagname, nt);
            }
            out.op("reset", "reset", false);
        }
        // ---- S10 size-threshold stress: appended phases (each history ends with its own `reset`) ----
        // (a) many PEERS: the tracker is filled to n connected peers one by one (so every count 1..n,
        //     in particular 8/9, 16/17, 32/33, 64/65, 128/129, 512/513, is passed on the way up and down)
        let peer_sizes: &[usize] = if tier == Tier::Thorough {
            &[8, 9, 10, 11, 16, 17, 32, 33, 64, 65, 128, 129, 257, 512, 513, 1025]
        } else {
            &[9, 17, 33, 65, 129, 513]
        };
        for &n in peer_sizes {
            // the largest histories (quick: 513 peers, thorough: 1025) are torn down only partially: the Lean spec
            // driver is quadratic in the number of tracked peers per op and is the bottleneck; the way down is
            // covered up to 129 (quick) / 513 (thorough) peers
            big_peers_history(rng, out, n, n <= 129 || (tier == Tier::Thorough && n <= 513));
        }
        // (b) many CONNECTIONS of one peer, (c) many protection TAGS of one peer / many counter entries
        let ks: &[usize] = if tier == Tier::Thorough {
            &[7, 8, 9, 15, 16, 17, 31, 32, 33, 63, 64, 65, 127, 128, 129, 513, 1025]
        } else {
            &[8, 9, 16, 17, 32, 33, 64, 65, 129]
        };
        for &k in ks {
            many_conns_history(rng, out, k);
            many_tags_history(rng, out, k);
        }
    }
    fn run(&mut self, line: &str) -> String {
        match opname(line) {
            "reset" => {
                self.tracker = Tracker::new();
                "ok".into()
            }
            "add_peer" => {
                let id = self.peer(line);
                let r = self.tracker.add_peer_id(&id);
                self.dump(Some(r))
            }
            "trust" => {
                let id = self.peer(line);
                self.tracker.set_trusted(&id, arg_u64(line, "v").expect("v") != 0);
                self.dump(None)
            }
            "protect" => {
                let id = self.peer(line);
                let r = self.tracker.protect(&id, arg_u64(line, "tag").expect("tag") as u32);
                self.dump(Some(r))
            }
            "unprotect" => {
                let id = self.peer(line);
                let r = self.tracker.unprotect(&id, arg_u64(line, "tag").expect("tag") as u32);
                self.dump(Some(r))
            }
            "conn" => {
                let id = self.peer(line);
                let c = ConnectionId::new_unchecked(arg_u64(line, "c").expect("c") as usize);
                self.tracker.add_connection(&id, c);
                self.dump(None)
            }
            "disc" => {
                let id = self.peer(line);
                let c = ConnectionId::new_unchecked(arg_u64(line, "c").expect("c") as usize);
                self.tracker.remove_connection(&id, c);
                self.dump(None)
            }
            "agent" => {
                let id = self.peer(line);
                let s = arg(line, "s").expect("s");
                self.tracker.on_agent_version(&id, if s == "@" { "" } else { s });
                self.dump(None)
            }
            "ping" => {
                let id = self.peer(line);
                let c = ConnectionId::new_unchecked(arg_u64(line, "c").expect("c") as usize);
                let result = match arg(line, "ms").expect("ms").parse::<u64>() {
                    Ok(ms) => Ok(Duration::from_millis(ms)),
                    Err(_) => Err(ping::Failure::Timeout),
                };
                self.tracker.on_ping_event(&ping::Event { peer: id, connection: c, result });
                self.dump(None)
            }
            "archival" => {
                let id = self.peer(line);
                self.tracker.mark_as_archival(&id);
                self.dump(None)
            }
            "gc" => {
                self.tracker.gc();
                self.dump(None)
            }
            "advance" => {
                self.tracker.advance_time(Duration::from_secs(arg_u64(line, "secs").expect("secs")));
                self.dump(None)
            }
            "plen" => {
                let n = self.tracker.protected_len(arg_u64(line, "tag").expect("tag") as u32);
                format!("n={n} {}", self.state())
            }
            _ => "bad-op".into(),
        }
    }
    fn result_tag(&self, _line: &str, result: &str) -> Option<String> {
        // histogram by number of connected peers
        let info = arg(result, "info")?;
        let n: usize = info.split(',').next()?.parse().ok()?;
        // S10: sizes above 8 are bucketed at the thresholds 8/9, 16/17, 32/33, ... so the histogram stays small
        Some(match n {
            0..=8 => format!("connected={n}"),
            9..=16 => "connected=9..16".into(),
            17..=32 => "connected=17..32".into(),
            33..=64 => "connected=33..64".into(),
            65..=128 => "connected=65..128".into(),
            129..=512 => "connected=129..512".into(),
            513..=1024 => "connected=513..1024".into(),
            _ => "connected>=1025".into(),
        })
    }
}

/// S10 (a): n peers connected one by one (random order), decorated (trusted / full / archival / protected
/// with a SHARED tag, so `protected_len` reaches large counts), a short random middle part over all n peers,
/// then everything is unprotected, disconnected and collected in batches.  The generator keeps a shadow of
/// connections and tags so that no disconnected peer stays tracked for long (its age is printed in whole
/// seconds of real + advanced time; a long-lived disconnected peer could tick over during a slow run).
fn big_peers_history(rng: &mut Rng, out: &mut Emitter, n: usize, full_teardown: bool) {
    use std::collections::BTreeSet;
    let mut conns: Vec<BTreeSet<usize>> = vec![BTreeSet::new(); n + 2];
    let mut tags: Vec<BTreeSet<u64>> = vec![BTreeSet::new(); n + 2];
    let cid = |p: usize, k: usize| 10_000 + p * 4 + k;
    let mut order: Vec<usize> = (0..n).collect();
    rng.shuffle(&mut order);
    for (i, &p) in order.iter().enumerate() {
        let nt = i >= 6;
        out.op(format!("conn p={p} c={}", cid(p, 0)), "big/conn", nt);
        conns[p].insert(cid(p, 0));
        match rng.below(8) {
            0 => out.op(format!("trust p={p} v=1"), "big/trust", nt),
            1 => out.op(format!("agent p={p} s={}", rng.pick(&AGENTS[..4])), "big/agent", nt),
            2 => out.op(format!("archival p={p}"), "big/archival", nt),
            3 => {
                out.op(format!("conn p={p} c={}", cid(p, 1)), "big/conn", nt);
                conns[p].insert(cid(p, 1));
            }
            _ => {}
        }
        // most peers share tag 0, so the per-tag counter grows with the number of peers
        if !rng.chance(1, 5) {
            let t = if rng.chance(1, 6) { rng.below(4) } else { 0 };
            out.op(format!("protect p={p} tag={t}"), "big/protect", nt);
            tags[p].insert(t);
        }
    }
    for t in 0..4 {
        out.op(format!("plen tag={t}"), "big/plen", true);
    }
    out.op("gc", "big/gc", true);
    // middle: random events over all n peers (and the two untracked ids n, n+1)
    for _ in 0..rng.usize(30, 50) {
        let p = rng.usize(0, n + 1);
        let k = rng.usize(0, 2);
        let c = cid(p, k);
        let t = rng.below(4);
        match rng.below(12) {
            0 | 1 => {
                out.op(format!("conn p={p} c={c}"), "big/conn", true);
                conns[p].insert(c);
            }
            2 | 3 => {
                out.op(format!("disc p={p} c={c}"), "big/disc", true);
                conns[p].remove(&c);
            }
            4 => out.op(format!("trust p={p} v={}", rng.below(2)), "big/trust", true),
            5 => {
                out.op(format!("protect p={p} tag={t}"), "big/protect", true);
                tags[p].insert(t);
            }
            6 => {
                out.op(format!("unprotect p={p} tag={t}"), "big/unprotect", true);
                tags[p].remove(&t);
            }
            7 => out.op(format!("agent p={p} s={}", rng.pick(AGENTS)), "big/agent", true),
            8 => out.op(format!("ping p={p} c={c} ms={}", rng.range(1, 500)), "big/ping", true),
            9 => out.op(format!("plen tag={t}"), "big/plen", true),
            10 => out.op("gc", "big/gc", true),
            _ => out.op(format!("archival p={p}"), "big/archival", true),
        }
    }
    // disconnected-but-protected peers are released, then everything disconnected expires
    for p in 0..n + 2 {
        if conns[p].is_empty() {
            for t in std::mem::take(&mut tags[p]) {
                out.op(format!("unprotect p={p} tag={t}"), "big/unprotect", true);
            }
        }
    }
    out.op("advance secs=121", "big/advance", true);
    out.op("gc", "big/gc", true);
    // teardown in batches of 32 peers: unprotect, disconnect, let them expire, collect
    rng.shuffle(&mut order);
    for (i, &p) in order.iter().enumerate() {
        if !full_teardown && i >= 70 {
            break;
        }
        for t in std::mem::take(&mut tags[p]) {
            out.op(format!("unprotect p={p} tag={t}"), "big/unprotect", true);
        }
        for c in std::mem::take(&mut conns[p]) {
            out.op(format!("disc p={p} c={c}"), "big/disc", true);
        }
        if i % 32 == 31 || i + 1 == n {
            out.op(format!("advance secs={}", *rng.pick(&[119u64, 120, 121, 121, 121])), "big/advance", true);
            out.op("gc", "big/gc", true);
            out.op("advance secs=2", "big/advance", true);
            out.op("gc", "big/gc", true);
        }
    }
    out.op("reset", &format!("big/done-peers={n}"), false);
}

/// S10 (b): one peer with k simultaneous connections (and a second one with k-1), pings on all of them
/// (best ping = minimum over k), then all but the last connection are closed, then the last
fn many_conns_history(rng: &mut Rng, out: &mut Emitter, k: usize) {
    let mut cs: Vec<usize> = (0..k).map(|j| 20_000 + j).collect();
    rng.shuffle(&mut cs);
    out.op("trust p=0 v=1", "thr/conns-trust", false);
    out.op("conn p=2 c=5", "thr/conns-conn", false);
    for (i, &c) in cs.iter().enumerate() {
        out.op(format!("conn p=0 c={c}"), "thr/conns-conn", i >= 6);
        if i + 1 < k {
            out.op(format!("conn p=1 c={}", c + 5000), "thr/conns-conn", i >= 6);
        }
        if rng.chance(1, 2) {
            let ms = if rng.chance(1, 6) { "fail".to_string() } else { rng.range(1, 900).to_string() };
            out.op(format!("ping p=0 c={c} ms={ms}"), "thr/conns-ping", i >= 6);
        }
    }
    out.op("agent p=0 s=celestia-node/celestia/bridge/v0.24.1/fb95d45", "thr/conns-agent", true);
    out.op("gc", "thr/conns-gc", true);
    rng.shuffle(&mut cs);
    for &c in &cs {
        if rng.chance(1, 3) {
            out.op(format!("ping p=0 c={c} ms={}", rng.range(1, 900)), "thr/conns-ping", true);
        }
        out.op(format!("disc p=0 c={c}"), "thr/conns-disc", true);
        out.op(format!("disc p=1 c={}", c + 5000), "thr/conns-disc", true);
    }
    out.op("advance secs=121", "thr/conns-advance", true);
    out.op("gc", "thr/conns-gc", true);
    out.op("reset", &format!("thr/done-conns={k}"), false);
}

/// S10 (c): one peer protected with k distinct tags (the protect counter holds k entries), a second peer
/// with the first k-1 of them, `protected_len` of every tag, then everything is unprotected again
fn many_tags_history(rng: &mut Rng, out: &mut Emitter, k: usize) {
    let mut ts: Vec<u64> = (0..k as u64).map(|j| if j % 5 == 4 { 4_000_000_000 + j } else { 100 + j }).collect();
    rng.shuffle(&mut ts);
    out.op("conn p=0 c=1", "thr/tags-conn", false);
    out.op("conn p=1 c=2", "thr/tags-conn", false);
    for (i, &t) in ts.iter().enumerate() {
        out.op(format!("protect p=0 tag={t}"), "thr/tags-protect", i >= 6);
        if i + 1 < k {
            out.op(format!("protect p=1 tag={t}"), "thr/tags-protect", i >= 6);
        }
    }
    // peer 1 is disconnected only for a few ops (its age is printed in whole seconds): expired but protected
    out.op("disc p=1 c=2", "thr/tags-disc", true);
    out.op("advance secs=500", "thr/tags-advance", true);
    out.op("gc", "thr/tags-gc", true);
    for &t in ts.iter().take(12) {
        out.op(format!("plen tag={t}"), "thr/tags-plen", true);
    }
    out.op("conn p=1 c=3", "thr/tags-conn", true);
    rng.shuffle(&mut ts);
    for (i, &t) in ts.iter().enumerate() {
        out.op(format!("unprotect p=0 tag={t}"), "thr/tags-unprotect", true);
        out.op(format!("unprotect p=1 tag={t}"), "thr/tags-unprotect", true);
        if i % 16 == 3 {
            out.op("gc", "thr/tags-gc", true);
        }
    }
    out.op("disc p=1 c=3", "thr/tags-disc", true);
    out.op("disc p=0 c=1", "thr/tags-disc", true);
    out.op("advance secs=121", "thr/tags-advance", true);
    out.op("gc", "thr/tags-gc", true);
    out.op("reset", &format!("thr/done-tags={k}"), false);
}

fn main() {
    main_for(C39::new());
}

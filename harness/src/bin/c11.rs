//! C11 — Blob share encoding round-trips and is sized correctly.
use celestia_types::nmt::Namespace;
use celestia_types::state::{AccAddress, AddressTrait};
use celestia_types::{AppVersion, Blob, Share};
use verif_harness::*;

struct C11;

fn err_kind(e: &celestia_types::Error) -> String {
    use celestia_types::Error::*;
    match e {
        UnsupportedShareVersion(v) => format!("UnsupportedShareVersion({v})"),
        SignerNotSupported => "SignerNotSupported".into(),
        MissingSigner => "MissingSigner".into(),
        MaxShareVersionExceeded(v) => format!("MaxShareVersionExceeded({v})"),
        ShareSequenceLenExceeded(_) => "ShareSequenceLenExceeded".into(),
        InvalidShareSize(n) => format!("InvalidShareSize({n})"),
        MissingShares => "MissingShares".into(),
        ExpectedShareWithSequenceStart => "ExpectedShareWithSequenceStart".into(),
        UnexpectedReservedNamespace => "UnexpectedReservedNamespace".into(),
        BlobSharesMetadataMismatch(_) => "BlobSharesMetadataMismatch".into(),
        UnexpectedSequenceStart => "UnexpectedSequenceStart".into(),
        InvalidNamespaceSize => "InvalidNamespaceSize".into(),
        InvalidNamespaceV0 => "InvalidNamespaceV0".into(),
        InvalidNamespaceV255 => "InvalidNamespaceV255".into(),
        UnsupportedNamespaceVersion(n) => format!("UnsupportedNamespaceVersion({n})"),
        other => format!("Other({})", other.to_string().replace(' ', "_")),
    }
}

fn show_blob(b: &Blob) -> String {
    format!(
        "{}:{}:{}",
        hx(b.namespace.as_bytes()),
        hx(&b.data),
        b.signer.as_ref().map(|s| hx(s.as_bytes())).unwrap_or("-".into())
    )
}

fn user_ns(rng: &mut Rng) -> Vec<u8> {
    let mut b = vec![0u8; 29];
    let n = rng.usize(1, 10);
    for i in 0..n {
        b[28 - i] = rng.byte();
    }
    b[27] |= 1; // above MAX_PRIMARY_RESERVED
    b
}

fn parse_shares(s: &str) -> Option<Vec<Share>> {
    if s == "-" {
        return Some(vec![]);
    }
    s.split(',')
        .map(|t| {
            let (k, h) = t.split_at(1);
            let b = hex::decode(h).ok()?;
            match k {
                "d" => Share::from_raw(&b).ok(),
                "p" => Share::parity(&b).ok(),
                _ => None,
            }
        })
        .collect()
}

fn show_shares(l: &[Share]) -> String {
    if l.is_empty() {
        "-".into()
    } else {
        l.iter()
            .map(|s| format!("{}{}", if s.is_parity() { "p" } else { "d" }, hex::encode(s.data())))
            .collect::<Vec<_>>()
            .join(",")
    }
}

fn raw_share(ns: &[u8], info: u8, rest: &[u8]) -> Share {
    let mut b = ns.to_vec();
    b.push(info);
    b.extend_from_slice(rest);
    b.resize(512, 0);
    Share::from_raw(&b).unwrap()
}

/// a share of a reserved namespace (or a parity share): skipped by `reconstruct_all`
fn reserved_share(rng: &mut Rng) -> Share {
    match rng.below(5) {
        0 => raw_share(Namespace::PAY_FOR_BLOB.as_bytes(), 1, &rng.bytes(100)), // compact share, sequence start
        1 => raw_share(Namespace::TRANSACTION.as_bytes(), 0, &rng.bytes(100)),
        2 => raw_share(Namespace::PRIMARY_RESERVED_PADDING.as_bytes(), 0, &[]),
        3 => raw_share(Namespace::TAIL_PADDING.as_bytes(), 1, &[]),
        _ => Share::parity(&rng.bytes(512)).unwrap(),
    }
}

const FIRST: usize = 478;
const CONT: usize = 482;
const SIGNER: usize = 20;

fn boundary_lengths() -> Vec<usize> {
    let mut v = vec![1, 2];
    for k in 0..9 {
        for base in [FIRST, FIRST - SIGNER] {
            let b = base + k * CONT;
            for d in [-1i64, 0, 1] {
                let l = b as i64 + d;
                if l >= 1 && l <= 4200 {
                    v.push(l as usize);
                }
            }
        }
    }
    v.push(4096);
    v.sort();
    v.dedup();
    v
}

impl Prop for C11 {
    fn id(&self) -> &'static str {
        "C11"
    }
    fn rule(&self) -> &'static str {
        "blob: Blob::new -> to_shares -> shares_len -> reconstruct for every boundary data length around the first/continuation \
         share capacities with and without signer (457..479 + 482k, ±1), random lengths 1..4096 (thorough: every length 1..4096 both \
         ways), random user namespaces, 20-byte signers, app versions 1..7 (signer with app < 3 must fail), plus out-of-scope \
         inputs (empty data, reserved namespace); recon: honest share lists with 10 mutation classes (share dropped, sequence \
         start flipped, namespace/version of a continuation changed, parity/reserved first share, truncated list, extra shares); \
         rall: 1..4 blobs concatenated, reserved-namespace and parity shares inserted at random positions (also inside a blob), \
         namespace padding between blobs; S10 size-threshold stress (tags big/…): blobs of exactly 15,16,17,31,32,33,63,64,65,127,128,129,255,256,257,511,512,513 \
         shares (thorough: also 1023..1025, 2047..2049, 4097; exact fill / one byte short / short last share, alternating signer) each \
         with one mutated reconstruction, and reconstruct_all over 9 / 17 / 33 / 65 (thorough ..257) blobs. Non-trivial = every case; distinct = distinct (op, result) lines."
    }
    fn gen_ops(&mut self, rng: &mut Rng, tier: Tier, out: &mut Emitter) {
        let lens: Vec<usize> = if tier == Tier::Thorough { (1..=4096).collect() } else { boundary_lengths() };
        for &len in &lens {
            for with_signer in [false, true] {
                let ns = user_ns(rng);
                let data = rng.bytes(len);
                let signer = if with_signer { hx(&rng.bytes(20)) } else { "-".into() };
                let app = if with_signer { rng.range(3, 7) } else { rng.range(1, 7) };
                out.op(
                    format!("blob ns={} data={} signer={signer} app={app}", hx(&ns), hx(&data)),
                    if with_signer { "blob/boundary-signer" } else { "blob/boundary" },
                    true,
                );
            }
        }
        let rounds = if tier == Tier::Thorough { 600 } else { 40 };
        // S10 size-threshold stress: blobs of 15..129 shares (thorough: up to 4097 shares) — before, no blob had more
        // than 9 shares.  The Lean driver is the bottleneck (~5 ms per share in `model`, ~10 ms in `spec`), so the quick
        // tier stops at 513 shares and every large blob gets ONE mutated reconstruction instead of three.
        let big_counts: Vec<usize> = if tier == Tier::Thorough {
            vec![15, 16, 17, 31, 32, 33, 63, 64, 65, 127, 128, 129, 255, 256, 257, 511, 512, 513, 1023, 1024, 1025, 2047, 2048, 2049, 4097]
        } else {
            vec![15, 16, 17, 31, 32, 33, 63, 64, 65, 127, 128, 129, 255, 256, 257, 511, 512, 513]
        };
        for r in 0..rounds + big_counts.len() {
            let big = if r >= rounds { big_counts[r - rounds] } else { 0 };
            let ns = user_ns(rng);
            let with_signer = if big > 0 { r % 2 == 1 } else { rng.bool() };
            let len = if big > 0 {
                // exactly `big` shares: exact fill / one byte short / a short last share
                let slack = [0, 1, rng.usize(2, 481)][r % 3];
                (if with_signer { FIRST - SIGNER } else { FIRST }) + (big - 1) * CONT - slack
            } else {
                match rng.below(6) {
                    0 => rng.usize(1, 30),
                    1 => rng.usize(400, 520),
                    _ => rng.usize(1, 4096),
                }
            };
            let data = rng.bytes(len);
            let signer_b = rng.bytes(20);
            let signer = if with_signer { hx(&signer_b) } else { "-".into() };
            let app = if big > 0 && with_signer { rng.range(3, 7) } else { rng.range(1, 7) };
            let tag = if big > 0 { format!("big/blob-{big}-shares") } else { "blob/random".to_string() };
            out.op(format!("blob ns={} data={} signer={signer} app={app}", hx(&ns), hx(&data)), &tag, true);

            // adversarial reconstruct on the honest shares
            let app_ok = AppVersion::latest();
            let acc = if with_signer { Some(AccAddress::try_from(&signer_b[..]).unwrap()) } else { None };
            let blob = Blob::new(Namespace::from_raw(&ns).unwrap(), data.clone(), acc, app_ok).unwrap();
            let shares = blob.to_shares().unwrap();
            if big > 0 {
                assert_eq!(shares.len(), big);
            }
            for _ in 0..(if big > 0 { 1 } else { 3 }) {
                let mut l = shares.clone();
                let tag = match rng.below(11) {
                    0 => {
                        l.pop();
                        "recon/last-dropped"
                    }
                    1 => {
                        l.remove(0);
                        "recon/first-dropped"
                    }
                    2 if l.len() >= 2 => {
                        let i = rng.usize(1, l.len() - 1);
                        let mut b = l[i].data().to_vec();
                        b[29] |= 1;
                        l[i] = Share::from_raw(&b).unwrap();
                        "recon/continuation-marked-start"
                    }
                    3 if l.len() >= 2 => {
                        let i = rng.usize(1, l.len() - 1);
                        let mut b = l[i].data().to_vec();
                        b[28] ^= 1;
                        l[i] = Share::from_raw(&b).unwrap();
                        "recon/continuation-namespace-changed"
                    }
                    4 if l.len() >= 2 => {
                        let i = rng.usize(1, l.len() - 1);
                        let mut b = l[i].data().to_vec();
                        b[29] ^= 2;
                        l[i] = Share::from_raw(&b).unwrap();
                        "recon/continuation-version-changed"
                    }
                    5 => {
                        l.insert(0, reserved_share(rng));
                        "recon/reserved-or-parity-first"
                    }
                    6 => {
                        let mut b = l[0].data().to_vec();
                        b[29] ^= 2; // share version of the first share 0<->1
                        l[0] = Share::from_raw(&b).unwrap();
                        "recon/first-version-flipped"
                    }
                    7 => {
                        let mut b = l[0].data().to_vec();
                        b[29] = 5; // version 2, sequence start
                        l[0] = Share::from_raw(&b).unwrap();
                        "recon/first-version-2"
                    }
                    8 => {
                        // claimed length changed
                        let mut b = l[0].data().to_vec();
                        let nl = (*rng.pick(&[0u32, 1, len as u32 + 1, len as u32 + 482, len.saturating_sub(1) as u32])).to_be_bytes();
                        b[30..34].copy_from_slice(&nl);
                        l[0] = Share::from_raw(&b).unwrap();
                        "recon/sequence-length-changed"
                    }
                    9 => {
                        l.extend(shares.iter().cloned());
                        "recon/extra-shares"
                    }
                    _ => "recon/honest",
                };
                let tag = if big > 0 { format!("big/{tag}") } else { tag.to_string() };
                out.op(format!("recon shares={} app={}", show_shares(&l), rng.range(1, 7)), &tag, true);
            }
        }
        // reconstruct_all
        let rounds = if tier == Tier::Thorough { 300 } else { 60 };
        // S10: plus share lists of 9 / 17 / 33 / 65 (thorough also 8 / 16 / 32 / 64 / 129 / 257) small blobs
        let big_nblobs: Vec<usize> = if tier == Tier::Thorough { vec![8, 9, 16, 17, 32, 33, 64, 65, 129, 257] } else { vec![9, 17, 33, 65] };
        for r in 0..rounds + big_nblobs.len() {
            let big = if r >= rounds { big_nblobs[r - rounds] } else { 0 };
            let nblobs = if big > 0 { big } else { rng.usize(1, 4) };
            let mut nss: Vec<Vec<u8>> = (0..nblobs).map(|_| user_ns(rng)).collect();
            nss.sort();
            let mut all: Vec<Share> = vec![];
            let mut expect = vec![];
            let mut any_signer = false;
            for ns in &nss {
                let len = match rng.below(4) {
                    0 => rng.usize(1, 20),
                    1 => rng.usize(450, 500),
                    _ => rng.usize(1, if big > 0 { 700 } else { 1500 }),
                };
                let data = rng.bytes(len);
                let acc = if rng.bool() { Some(AccAddress::try_from(&rng.bytes(20)[..]).unwrap()) } else { None };
                any_signer |= acc.is_some();
                let blob = Blob::new(Namespace::from_raw(ns).unwrap(), data, acc, AppVersion::latest()).unwrap();
                let mut shares = blob.to_shares().unwrap();
                // reserved / parity shares anywhere, also inside the blob
                let ins = rng.usize(0, 3);
                for _ in 0..ins {
                    let pos = rng.usize(0, shares.len());
                    shares.insert(pos, reserved_share(rng));
                }
                all.extend(shares);
                // namespace padding after the blob
                for _ in 0..rng.usize(0, 2) {
                    all.push(raw_share(ns, 0, &[]));
                }
                expect.push(show_blob(&blob));
            }
            for _ in 0..rng.usize(0, 2) {
                all.push(reserved_share(rng));
            }
            // every app version that supports the blobs (share version 1 needs app >= 3)
            let app = if any_signer { rng.range(3, 7) } else { rng.range(1, 7) };
            out.op(
                format!("rall shares={} app={} expect={}", show_shares(&all), app, expect.join(";")),
                if big > 0 { "big/rall-many-blobs" } else { "rall/interleaved" },
                true,
            );
        }
        // out of scope but compared: empty data, reserved namespace, signer with old app version
        for _ in 0..6 {
            out.op(format!("blob ns={} data=- signer=- app=2", hx(&user_ns(rng))), "blob/empty-data", true);
            out.op(
                format!("blob ns={} data={} signer=- app=3", hx(Namespace::PAY_FOR_BLOB.as_bytes()), hx(&rng.bytes(10))),
                "blob/reserved-ns",
                true,
            );
            out.op(
                format!("blob ns={} data={} signer={} app={}", hx(&user_ns(rng)), hx(&rng.bytes(10)), hx(&rng.bytes(20)), rng.range(1, 2)),
                "blob/signer-old-app",
                true,
            );
        }
    }

    fn run(&mut self, line: &str) -> String {
        match opname(line) {
            "reset" => "ok".into(),
            "blob" => {
                let (Some(ns), Some(data), Some(signer), Some(app)) =
                    (arg_hex(line, "ns"), arg_hex(line, "data"), arg(line, "signer"), arg_u64(line, "app"))
                else {
                    return "bad-op".into();
                };
                let (Ok(ns), Some(app)) = (Namespace::from_raw(&ns), AppVersion::from_u64(app)) else { return "bad-op".into() };
                let signer = if signer == "-" {
                    None
                } else {
                    let Some(Ok(a)) = unhx(signer).map(|b| AccAddress::try_from(&b[..])) else { return "bad-op".into() };
                    Some(a)
                };
                let blob = match Blob::new(ns, data, signer, app) {
                    Ok(b) => b,
                    Err(e) => return format!("err {}", err_kind(&e)),
                };
                let shares = match blob.to_shares() {
                    Ok(s) => s,
                    Err(e) => return format!("err {}", err_kind(&e)),
                };
                let mut it = shares.iter();
                let (back, bver) = match Blob::reconstruct(&mut it, app) {
                    Ok(b) => {
                        let v = b.share_version.to_string();
                        if it.len() != 0 {
                            ("err:leftover".to_string(), v)
                        } else if b != blob {
                            // same (ns, data, signer, version) but commitment or index differs
                            (format!("{}:differs", show_blob(&b)), v)
                        } else {
                            (show_blob(&b), v)
                        }
                    }
                    Err(e) => (format!("err:{}", err_kind(&e)), "-".to_string()),
                };
                let raw: Vec<Vec<u8>> = shares.iter().map(|s| s.to_vec()).collect();
                format!("ok n={} shares={} shares_len={} back={back} bver={bver}", shares.len(), hxl(&raw), blob.shares_len())
            }
            "recon" => {
                let (Some(shares), Some(app)) = (arg(line, "shares").and_then(parse_shares), arg_u64(line, "app")) else {
                    return "bad-op".into();
                };
                let Some(app) = AppVersion::from_u64(app) else { return "bad-op".into() };
                let mut it = shares.iter();
                match Blob::reconstruct(&mut it, app) {
                    Ok(b) => format!("ok blob={} ver={} used={}", show_blob(&b), b.share_version, shares.len() - it.len()),
                    Err(e) => format!("err {}", err_kind(&e)),
                }
            }
            "rall" => {
                let (Some(shares), Some(app)) = (arg(line, "shares").and_then(parse_shares), arg_u64(line, "app")) else {
                    return "bad-op".into();
                };
                let Some(app) = AppVersion::from_u64(app) else { return "bad-op".into() };
                match Blob::reconstruct_all(&shares, app) {
                    Ok(bs) => format!(
                        "ok blobs={}",
                        if bs.is_empty() { "-".into() } else { bs.iter().map(show_blob).collect::<Vec<_>>().join(";") }
                    ),
                    Err(e) => format!("err {}", err_kind(&e)),
                }
            }
            _ => "bad-op".into(),
        }
    }
}

fn main() {
    main_for(C11);
}

//! C16 — Decoding network input never panics.
//!
//! Every op hands one peer-controlled, post-`prost` raw structure to the real decoder and (where the
//! node does so) to the real `verify`/`validate` against the current DAH.  The canonical result is the
//! outcome CLASS: `ok`, `err-decode`, `err-verify` (or plain `err`), and `panic` (from the framework's
//! `catch_unwind`).  The model predicts exactly these classes.
#[path = "../d_common.rs"]
mod d_common;
#[path = "../consensus_e.rs"]
mod consensus_e;

use celestia_proto::proof::pb::Proof as RawProof;
use celestia_proto::share::eds::byzantine::pb::{BadEncoding as RawBefp, Share as RawBefpShare};
use celestia_proto::shwap::{Row as RawRow, RowNamespaceData as RawRnd, Share as RawShare};
use celestia_types::fraud_proof::{BadEncodingFraudProof, FraudProof};
use celestia_types::namespace_data::{NamespaceData, NamespaceDataId};
use celestia_types::nmt::{NS_SIZE, Namespace, NamespaceProof, NamespacedHash, NamespacedHashExt};
use celestia_types::row::{Row, RowId};
use celestia_types::row_namespace_data::{RowNamespaceData, RowNamespaceDataId};
use celestia_types::sample::{RawSample, Sample, SampleId};
use celestia_types::test_utils::ExtendedHeaderGenerator;
use celestia_types::{AxisType, DataAvailabilityHeader, ExtendedDataSquare, ExtendedHeader};
use d_common::*;
use prost::Message;
use verif_harness::*;

struct C16 {
    dah: Option<DataAvailabilityHeader>,
    header: Option<ExtendedHeader>,
    /// what leopard made of the buffers of the last `row` / `befp` op (recomputed by every `run`, handed to the
    /// model as the `obs=` word: the codec is a parameter of the model)
    last_obs: Option<String>,
}

// ---------------------------------------------------------------------------------------------
// line formats

/// `start=.. end=.. nodes=.. leaf=.. ign=..` of a wire proof (start/end printed as u64 bit patterns of the i64)
fn raw_proof_fields(p: &RawProof) -> String {
    format!(
        "start={} end={} nodes={} leaf={} ign={}",
        p.start as u64,
        p.end as u64,
        hxl(&p.nodes),
        hx(&p.leaf_hash),
        p.is_max_namespace_ignored as u8
    )
}

fn raw_proof_from(line: &str) -> Option<RawProof> {
    Some(RawProof {
        start: arg_u64(line, "start")? as i64,
        end: arg_u64(line, "end")? as i64,
        nodes: unhxl(arg(line, "nodes")?)?,
        leaf_hash: arg_hex(line, "leaf")?,
        is_max_namespace_ignored: arg_u64(line, "ign")? == 1,
    })
}

/// `/`-separated: hasproof/start/end/nodes/leaf/ign
fn raw_proof_slash(p: &Option<RawProof>) -> String {
    match p {
        None => "0/0/0/-/-/0".into(),
        Some(p) => format!(
            "1/{}/{}/{}/{}/{}",
            p.start as u64,
            p.end as u64,
            hxl(&p.nodes),
            hx(&p.leaf_hash),
            p.is_max_namespace_ignored as u8
        ),
    }
}

fn raw_proof_unslash(f: &[&str]) -> Option<Option<RawProof>> {
    if f.len() != 6 {
        return None;
    }
    if f[0] == "0" {
        return Some(None);
    }
    Some(Some(RawProof {
        start: f[1].parse::<u64>().ok()? as i64,
        end: f[2].parse::<u64>().ok()? as i64,
        nodes: unhxl(f[3])?,
        leaf_hash: unhx(f[4])?,
        is_max_namespace_ignored: f[5] == "1",
    }))
}

fn all_args<'a>(line: &'a str, key: &str) -> Vec<&'a str> {
    line.split(' ')
        .filter_map(|w| {
            let (k, v) = w.split_once('=')?;
            (k == key).then_some(v)
        })
        .collect()
}

fn rnd_word(r: &RawRnd) -> String {
    let sh: Vec<Vec<u8>> = r.shares.iter().map(|s| s.data.clone()).collect();
    format!("rw={}/{}", hxl(&sh), raw_proof_slash(&r.proof))
}

fn rnd_unword(w: &str) -> Option<RawRnd> {
    let f: Vec<&str> = w.split('/').collect();
    if f.len() != 7 {
        return None;
    }
    let shares = unhxl(f[0])?.into_iter().map(|data| RawShare { data }).collect();
    Some(RawRnd { shares, proof: raw_proof_unslash(&f[1..])? })
}

fn befp_word(s: &RawBefpShare) -> String {
    format!("sh={}/{}/{}", hx(&s.data), raw_proof_slash(&s.proof), s.proof_axis as u32)
}

fn befp_unword(w: &str) -> Option<RawBefpShare> {
    let f: Vec<&str> = w.split('/').collect();
    if f.len() != 8 {
        return None;
    }
    Some(RawBefpShare { data: unhx(f[0])?, proof: raw_proof_unslash(&f[1..7])?, proof_axis: f[7].parse::<u32>().ok()? as i32 })
}

fn cls<T, E>(r: Result<T, E>) -> &'static str {
    if r.is_ok() { "ok" } else { "err" }
}

fn two_stage<T>(dec: celestia_types::Result<T>, ver: impl FnOnce(&T) -> celestia_types::Result<()>) -> String {
    match dec {
        Err(_) => "err-decode".into(),
        Ok(v) => match ver(&v) {
            Ok(()) => "ok".into(),
            Err(_) => "err-verify".into(),
        },
    }
}

// ---------------------------------------------------------------------------------------------
// the codec as an oracle for the model (`ext=` / `rec=` words): what leopard returns on exactly the
// buffers lumina hands to it.  `-` = leopard returned an error (or panicked).

fn oracle_row(side_left: bool, halves: &[Vec<u8>]) -> String {
    let k = halves.len();
    let h = halves.to_vec();
    let r = std::panic::catch_unwind(move || {
        if side_left {
            let mut shares = h;
            shares.resize(k * 2, vec![0u8; 512]);
            leopard_codec::encode(&mut shares, k).ok().map(|_| shares)
        } else {
            let mut shares: Vec<Vec<u8>> = std::iter::repeat_n(vec![], k).chain(h).collect();
            leopard_codec::reconstruct(&mut shares, k).ok().map(|_| shares)
        }
    });
    match r {
        Ok(Some(s)) => hxl(&s),
        _ => "-".into(),
    }
}

fn oracle_befp(shares: &[Vec<u8>], k: usize) -> String {
    let s0 = shares.to_vec();
    let r = std::panic::catch_unwind(move || {
        let mut s = s0;
        if leopard_codec::reconstruct(&mut s, k).is_err() {
            return None;
        }
        if leopard_codec::encode(&mut s, k).is_err() {
            return None;
        }
        Some(s)
    });
    match r {
        Ok(Some(s)) => hxl(&s),
        _ => "-".into(),
    }
}

// ---------------------------------------------------------------------------------------------
// generator helpers

fn roots(v: &[NamespacedHash]) -> Vec<Vec<u8>> {
    v.iter().map(nh).collect()
}

fn dah_op(dah: &DataAvailabilityHeader) -> String {
    format!("dah rows={} cols={}", hxl(&roots(dah.row_roots())), hxl(&roots(dah.column_roots())))
}

fn set(line: &str, key: &str, val: &str) -> String {
    line.split(' ')
        .map(|w| match w.split_once('=') {
            Some((k, _)) if k == key => format!("{key}={val}"),
            _ => w.to_string(),
        })
        .collect::<Vec<_>>()
        .join(" ")
}

/// structured mutations of a wire proof; returns (proof, tag)
fn mutate_proof(rng: &mut Rng, p: &RawProof) -> (RawProof, &'static str) {
    let mut q = p.clone();
    let n = q.nodes.len();
    match rng.below(18) {
        0 => {
            // huge sibling list
            let node = if n > 0 { q.nodes[0].clone() } else { random_node(rng) };
            let cnt = *rng.pick(&[63usize, 64, 65, 70, 128]);
            q.nodes = (0..cnt).map(|_| node.clone()).collect();
            (q, "siblings-huge")
        }
        1 => {
            q.nodes.clear();
            (q, "siblings-none")
        }
        2 if n > 0 => {
            q.nodes.pop();
            (q, "siblings-drop-last")
        }
        3 if n > 0 => {
            q.nodes.remove(0);
            (q, "siblings-drop-first")
        }
        4 => {
            q.nodes.push(random_node(rng));
            (q, "siblings-extra")
        }
        5 if n > 0 => {
            let i = rng.usize(0, n - 1);
            q.nodes[i] = random_node(rng);
            (q, "sibling-random")
        }
        6 if n > 0 => {
            let i = rng.usize(0, n - 1);
            q.nodes[i] = unordered_node(rng);
            (q, "sibling-min-gt-max")
        }
        7 if n > 1 => {
            q.nodes.reverse();
            (q, "siblings-reversed")
        }
        8 if n > 0 => {
            let i = rng.usize(0, n - 1);
            q.nodes[i].pop();
            (q, "sibling-short")
        }
        9 => {
            q.start = *rng.pick(&[0i64, 1, 3, 7, 255, 65535, 0x7fff_ffff, 0xffff_ffff, -1, i64::MAX, i64::MIN, 1 << 32]);
            q.end = q.start.wrapping_add(rng.below(3) as i64);
            (q, "range-extreme")
        }
        10 => {
            q.start += 1;
            q.end += 1;
            (q, "range-shift")
        }
        11 => {
            q.end = q.start;
            (q, "range-empty")
        }
        12 => {
            q.end += rng.range(1, 3) as i64;
            (q, "range-longer")
        }
        13 => {
            q.leaf_hash = if n > 0 { q.nodes[0].clone() } else { random_node(rng) };
            (q, "leaf-hash-set")
        }
        14 => {
            q.leaf_hash = unordered_node(rng);
            (q, "leaf-hash-min-gt-max")
        }
        15 => {
            q.is_max_namespace_ignored = !q.is_max_namespace_ignored;
            (q, "ign-flipped")
        }
        16 => {
            // start with many one-bits and few siblings: popcount(start) > siblings
            q.start = *rng.pick(&[3i64, 7, 15, 0xff, 0xffff, 0x7fff_ffff]);
            q.end = q.start + 1;
            q.nodes.truncate(rng.usize(0, 1));
            (q, "popcount-gt-siblings")
        }
        _ => {
            if n > 0 {
                let i = rng.usize(0, n - 1);
                let j = rng.usize(0, q.nodes[i].len() - 1);
                q.nodes[i][j] ^= 1 << rng.below(8);
            }
            (q, "sibling-bitflip")
        }
    }
}

impl C16 {
    fn gen_square(&mut self, rng: &mut Rng, w: usize, per: usize, out: &mut Emitter) {
        let (eds, nss) = gen_eds(rng, w);
        let dah = DataAvailabilityHeader::from_eds(&eds);
        out.op(dah_op(&dah), &format!("dah/w{w}"), true);
        let w16 = w as u16;

        // --- samples ---------------------------------------------------------------------------
        for _ in 0..per {
            let r = rng.below(w as u64) as u16;
            let c = rng.below(w as u64) as u16;
            let ax = if rng.bool() { AxisType::Row } else { AxisType::Col };
            let s = Sample::new(r, c, ax, &eds).unwrap();
            let raw = RawSample::from(s);
            let pf = raw.proof.clone().unwrap();
            let base = format!(
                "sample r={r} c={c} axis={} share={} hasproof=1 {}",
                raw.proof_type as u32,
                hx(&raw.share.as_ref().unwrap().data),
                raw_proof_fields(&pf)
            );
            out.op(base.clone(), "sample/honest", true);
            out.op(format!("proof {}", raw_proof_fields(&pf)), "proof/honest", true);
            for _ in 0..4 {
                let (q, tag) = mutate_proof(rng, &pf);
                let l = format!(
                    "sample r={r} c={c} axis={} share={} hasproof=1 {}",
                    raw.proof_type as u32,
                    hx(&raw.share.as_ref().unwrap().data),
                    raw_proof_fields(&q)
                );
                out.op(l, &format!("sample/{tag}"), true);
                out.op(format!("proof {}", raw_proof_fields(&q)), &format!("proof/{tag}"), true);
            }
            out.op(set(&base, "share", "none"), "sample/no-share", true);
            out.op(set(&base, "hasproof", "0"), "sample/no-proof", true);
            out.op(set(&base, "axis", &rng.range(2, 9).to_string()), "sample/bad-axis", true);
            out.op(set(&base, "axis", &(u32::MAX).to_string()), "sample/bad-axis", true);
            let mut sh = raw.share.as_ref().unwrap().data.clone();
            sh.truncate(rng.usize(0, 511));
            out.op(set(&base, "share", &hx(&sh)), "sample/short-share", true);
            let mut sh = raw.share.as_ref().unwrap().data.clone();
            sh[0] = rng.range(1, 254) as u8;
            out.op(set(&base, "share", &hx(&sh)), "sample/bad-ns-version", true);
            out.op(set(&set(&base, "r", &rng.below(65536).to_string()), "c", &rng.below(65536).to_string()), "sample/other-coords", true);
        }

        // --- rows ------------------------------------------------------------------------------
        for _ in 0..per.div_ceil(2) {
            let idx = rng.below(w as u64) as u16;
            let row = Row::new(idx, &eds).unwrap();
            let raw = RawRow::from(row.clone());
            let left: Vec<Vec<u8>> = raw.shares_half.iter().map(|s| s.data.clone()).collect();
            let right: Vec<Vec<u8>> = row.shares[w / 2..].iter().map(|s| s.to_vec()).collect();
            let mut emit = |idx: u64, side: u32, halves: &[Vec<u8>], tag: &str| {
                out.op(format!("row idx={idx} side={side} halves={}", hxl(halves)), tag, true);
            };
            emit(idx as u64, 0, &left, "row/honest-left");
            emit(idx as u64, 1, &right, "row/honest-right");
            emit(idx as u64, 0, &[], "row/empty-half-left");
            emit(idx as u64, 1, &[], "row/empty-half-right");
            emit(idx as u64, rng.range(2, 7) as u32, &left, "row/unknown-side");
            emit(((idx + 1) % w16) as u64, 0, &left, "row/other-index");
            emit(rng.range(w as u64, 65535), 0, &left, "row/index-out-of-range");
            let mut h = left.clone();
            h.pop();
            emit(idx as u64, 0, &h, "row/one-share-less");
            let mut h = left.clone();
            h.push(left[0].clone());
            emit(idx as u64, 0, &h, "row/one-share-more");
            let mut h = left.clone();
            let i = rng.usize(0, h.len() - 1);
            h[i].truncate(rng.usize(0, 511));
            emit(idx as u64, 0, &h, "row/mismatched-lengths");
            let mut h = right.clone();
            let i = rng.usize(0, h.len() - 1);
            h[i].clear();
            emit(idx as u64, 1, &h, "row/right-missing-share");
            let h: Vec<Vec<u8>> = left.iter().map(|s| s[..448].to_vec()).collect();
            emit(idx as u64, 0, &h, "row/all-448");
            let h: Vec<Vec<u8>> = right.iter().map(|s| s[..448].to_vec()).collect();
            emit(idx as u64, 1, &h, "row/all-448");
            let h: Vec<Vec<u8>> = right.iter().map(|s| s[..100].to_vec()).collect();
            emit(idx as u64, 1, &h, "row/all-100");
            let h: Vec<Vec<u8>> = vec![vec![]; left.len()];
            emit(idx as u64, 0, &h, "row/all-empty-shares");
            emit(idx as u64, 1, &h, "row/all-empty-shares");
            let mut h = left.clone();
            let i = rng.usize(0, h.len() - 1);
            let j = rng.usize(0, 511);
            h[i][j] ^= 1 << rng.below(8);
            emit(idx as u64, 0, &h, "row/bitflip");
            let mut h = right.clone();
            let i = rng.usize(0, h.len() - 1);
            let j = rng.usize(0, 511);
            h[i][j] ^= 1 << rng.below(8);
            emit(idx as u64, 1, &h, "row/bitflip");
            let mut h = left.clone();
            h.reverse();
            emit(idx as u64, 0, &h, "row/reversed");
            if rng.chance(1, 8) {
                let h: Vec<Vec<u8>> = (0..129).map(|_| left[0].clone()).collect();
                emit(idx as u64, 0, &h, "row/129-shares");
                emit(idx as u64, 1, &h, "row/129-shares");
            }
        }

        // --- row namespace data / namespace data -------------------------------------------------
        let mut query: Vec<Namespace> = nss.clone();
        for _ in 0..3 {
            query.push(user_ns(rng));
        }
        query.push(Namespace::PARITY_SHARE);
        query.push(Namespace::TAIL_PADDING);
        for ns in query.iter().take(per.max(4)) {
            let Ok(rows) = eds.get_namespace_data(*ns, &dah, HEIGHT) else { continue };
            let raws: Vec<(u16, RawRnd)> = rows.iter().map(|(id, r)| (id.row_index(), RawRnd::from(r.clone()))).collect();
            let nd_line = |rs: &[RawRnd]| {
                let mut l = format!("nd ns={}", hx(ns.as_bytes()));
                for r in rs {
                    l.push(' ');
                    l.push_str(&rnd_word(r));
                }
                l
            };
            let all: Vec<RawRnd> = raws.iter().map(|(_, r)| r.clone()).collect();
            out.op(nd_line(&all), "nd/honest", true);
            if !all.is_empty() {
                let mut v = all.clone();
                v.pop();
                out.op(nd_line(&v), "nd/row-dropped", true);
                let mut v = all.clone();
                v.push(all[0].clone());
                out.op(nd_line(&v), "nd/row-added", true);
                let mut v = all.clone();
                v.reverse();
                out.op(nd_line(&v), "nd/rows-reversed", true);
                let mut v = all.clone();
                let i = rng.usize(0, v.len() - 1);
                if let Some(p) = &v[i].proof {
                    let (q, _) = mutate_proof(rng, p);
                    v[i].proof = Some(q);
                }
                out.op(nd_line(&v), "nd/proof-mutated", true);
            }
            for (row, raw) in raws.iter().take(3) {
                let rnd_line = |row: u64, r: &RawRnd| {
                    let sh: Vec<Vec<u8>> = r.shares.iter().map(|s| s.data.clone()).collect();
                    let hp = r.proof.is_some() as u8;
                    let pf = r.proof.clone().unwrap_or_default();
                    format!("rnd row={row} ns={} shares={} hasproof={hp} {}", hx(ns.as_bytes()), hxl(&sh), raw_proof_fields(&pf))
                };
                out.op(rnd_line(*row as u64, raw), "rnd/honest", true);
                let pf = raw.proof.clone().unwrap();
                for _ in 0..6 {
                    let (q, tag) = mutate_proof(rng, &pf);
                    let mut r2 = raw.clone();
                    r2.proof = Some(q);
                    out.op(rnd_line(*row as u64, &r2), &format!("rnd/{tag}"), true);
                }
                let mut r2 = raw.clone();
                r2.proof = None;
                out.op(rnd_line(*row as u64, &r2), "rnd/no-proof", true);
                let mut r2 = raw.clone();
                r2.shares.pop();
                out.op(rnd_line(*row as u64, &r2), "rnd/share-dropped", true);
                let mut r2 = raw.clone();
                r2.shares.clear();
                out.op(rnd_line(*row as u64, &r2), "rnd/no-shares", true);
                let mut r2 = raw.clone();
                if let Some(s) = r2.shares.first_mut() {
                    s.data.truncate(100);
                }
                out.op(rnd_line(*row as u64, &r2), "rnd/short-share", true);
                let mut r2 = raw.clone();
                let other = eds.share(rng.below(w as u64 / 2) as u16, rng.below(w as u64 / 2) as u16).unwrap();
                r2.shares.push(RawShare { data: other.to_vec() });
                out.op(rnd_line(*row as u64, &r2), "rnd/foreign-share-added", true);
                out.op(rnd_line(((*row + 1) % w16) as u64, raw), "rnd/other-row", true);
                out.op(rnd_line(rng.range(w as u64, 65535), raw), "rnd/row-out-of-range", true);
                // absence proof with the start index pointing past the provided siblings
                let mut r2 = raw.clone();
                r2.shares.clear();
                let mut q = pf.clone();
                q.leaf_hash = random_node(rng);
                q.start = *rng.pick(&[3i64, 7, 15, 255]);
                q.end = q.start + 1;
                q.nodes.truncate(1);
                r2.proof = Some(q);
                out.op(rnd_line(*row as u64, &r2), "rnd/absence-popcount-gt-siblings", true);
            }
        }

        // --- bad encoding fraud proofs ---------------------------------------------------------
        for round in 0..per.div_ceil(3) {
            // corrupt more than half of one axis of a copy of the square (deterministically)
            let axis = if rng.bool() { AxisType::Row } else { AxisType::Col };
            let aidx = rng.below(w as u64) as u16;
            let mut raw_sq: Vec<Vec<u8>> = eds.data_square().iter().map(|s| s.to_vec()).collect();
            let corrupt = round % 2 == 0;
            if corrupt {
                let mut pos: Vec<usize> = (0..w).collect();
                rng.shuffle(&mut pos);
                for &i in pos.iter().take(w / 2 + 1) {
                    let (r, c) = match axis {
                        AxisType::Row => (aidx as usize, i),
                        AxisType::Col => (i, aidx as usize),
                    };
                    let s = &mut raw_sq[r * w + c];
                    // data shares keep their namespace; parity shares are trashed completely, so that the data
                    // reconstructed from them does not even start with a valid namespace
                    let from = if r < w / 2 && c < w / 2 { 64 } else { 0 };
                    let rnd = rng.bytes(512 - from);
                    s[from..].copy_from_slice(&rnd);
                }
            }
            let Ok(ceds) = ExtendedDataSquare::new(raw_sq, "Leopard".into(), app()) else { continue };
            let cdah = DataAvailabilityHeader::from_eds(&ceds);
            out.op(dah_op(&cdah), &format!("dah/w{w}-befp"), true);
            let mut shares: Vec<RawBefpShare> = vec![];
            for i in 0..w16 {
                let paxis = if rng.bool() { AxisType::Row } else { AxisType::Col };
                let (mut nmt, idx) = match (axis, paxis) {
                    (AxisType::Row, AxisType::Row) => (ceds.row_nmt(aidx).unwrap(), i),
                    (AxisType::Row, AxisType::Col) => (ceds.column_nmt(i).unwrap(), aidx),
                    (AxisType::Col, AxisType::Row) => (ceds.row_nmt(i).unwrap(), aidx),
                    (AxisType::Col, AxisType::Col) => (ceds.column_nmt(aidx).unwrap(), i),
                };
                let (share, proof) = nmt.get_index_with_proof(idx as usize);
                let ns = if aidx < w16 / 2 && i < w16 / 2 { Namespace::from_raw(&share[..NS_SIZE]).unwrap() } else { Namespace::PARITY_SHARE };
                let proof: NamespaceProof = NmtNamespaceProof::PresenceProof { proof, ignore_max_ns: true }.into();
                let mut data = ns.as_bytes().to_vec();
                data.extend_from_slice(&share);
                shares.push(RawBefpShare { data, proof: Some(proof.into()), proof_axis: paxis as i32 });
            }
            let befp_line = |hh: u64, height: u64, hash: &[u8], index: u64, ax: u32, shs: &[RawBefpShare]| {
                let mut l = format!("befp hh={hh} height={height} hash={} index={index} axis={ax}", hx(hash));
                for s in shs {
                    l.push(' ');
                    l.push_str(&befp_word(s));
                }
                l
            };
            let hash = rng.bytes(32);
            let ax = axis as u32;
            let tagp = if corrupt { "corrupt" } else { "honest-square" };
            out.op(befp_line(HEIGHT, HEIGHT, &hash, aidx as u64, ax, &shares), &format!("befp/{tagp}/all-shares"), true);
            // only k shares (random subset), the rest absent
            let mut v = shares.clone();
            let mut pos: Vec<usize> = (0..w).collect();
            rng.shuffle(&mut pos);
            for &i in pos.iter().take(w / 2) {
                v[i] = RawBefpShare::default();
            }
            out.op(befp_line(HEIGHT, HEIGHT, &hash, aidx as u64, ax, &v), &format!("befp/{tagp}/k-shares"), true);
            // only the parity half present
            let mut v = shares.clone();
            for s in v.iter_mut().take(w / 2) {
                *s = RawBefpShare::default();
            }
            out.op(befp_line(HEIGHT, HEIGHT, &hash, aidx as u64, ax, &v), &format!("befp/{tagp}/parity-half"), true);
            // too few
            let mut v = shares.clone();
            for &i in pos.iter().take(w / 2 + 1) {
                v[i] = RawBefpShare::default();
            }
            out.op(befp_line(HEIGHT, HEIGHT, &hash, aidx as u64, ax, &v), &format!("befp/{tagp}/too-few"), true);
            // two positions swapped (a parity share at an ODS position when it crosses the middle)
            let mut v = shares.clone();
            v.swap(0, w - 1);
            out.op(befp_line(HEIGHT, HEIGHT, &hash, aidx as u64, ax, &v), &format!("befp/{tagp}/swapped-ods-parity"), true);
            let mut v = shares.clone();
            v.swap(w / 2, w / 2 + 1 - (w == 2) as usize * 1);
            out.op(befp_line(HEIGHT, HEIGHT, &hash, aidx as u64, ax, &v), &format!("befp/{tagp}/swapped-parity"), true);
            // wrong heights / index / axis / hash / lengths
            out.op(befp_line(HEIGHT + 1, HEIGHT, &hash, aidx as u64, ax, &shares), "befp/height-mismatch", true);
            out.op(befp_line(HEIGHT, u64::MAX, &hash, aidx as u64, ax, &shares), "befp/height-too-large", true);
            out.op(befp_line(HEIGHT, 0, &hash, aidx as u64, ax, &shares), "befp/height-zero", true);
            out.op(befp_line(HEIGHT, HEIGHT, &hash[..20], aidx as u64, ax, &shares), "befp/hash-20-bytes", true);
            out.op(befp_line(HEIGHT, HEIGHT, &[], aidx as u64, ax, &shares), "befp/hash-empty", true);
            out.op(befp_line(HEIGHT, HEIGHT, &hash, w as u64, ax, &shares), "befp/index-eq-width", true);
            out.op(befp_line(HEIGHT, HEIGHT, &hash, 65536, ax, &shares), "befp/index-65536", true);
            out.op(befp_line(HEIGHT, HEIGHT, &hash, u32::MAX as u64, ax, &shares), "befp/index-max", true);
            out.op(befp_line(HEIGHT, HEIGHT, &hash, aidx as u64, 1 - ax, &shares), "befp/other-axis", true);
            out.op(befp_line(HEIGHT, HEIGHT, &hash, aidx as u64, rng.range(2, 9) as u32, &shares), "befp/bad-axis", true);
            let mut v = shares.clone();
            v.pop();
            out.op(befp_line(HEIGHT, HEIGHT, &hash, aidx as u64, ax, &v), "befp/one-share-less", true);
            let mut v = shares.clone();
            v.push(shares[0].clone());
            out.op(befp_line(HEIGHT, HEIGHT, &hash, aidx as u64, ax, &v), "befp/one-share-more", true);
            out.op(befp_line(HEIGHT, HEIGHT, &hash, aidx as u64, ax, &[]), "befp/no-shares", true);
            // per-share mutations
            for _ in 0..4 {
                let mut v = shares.clone();
                let i = rng.usize(0, w - 1);
                let tag: String = match rng.below(6) {
                    0 => {
                        v[i].data.truncate(rng.usize(0, 540));
                        "share-short-leaf".into()
                    }
                    1 => {
                        v[i].data[0] = rng.range(1, 254) as u8;
                        "share-bad-ns-version".into()
                    }
                    2 => {
                        v[i].proof_axis = rng.range(2, 9) as i32;
                        "share-bad-proof-axis".into()
                    }
                    3 => {
                        v[i].proof_axis = 1 - v[i].proof_axis;
                        "share-other-proof-axis".into()
                    }
                    4 => {
                        let j = rng.usize(NS_SIZE, 540);
                        v[i].data[j] ^= 1 << rng.below(8);
                        "share-bitflip".into()
                    }
                    _ => {
                        let (q, t) = mutate_proof(rng, v[i].proof.as_ref().unwrap());
                        v[i].proof = Some(q);
                        format!("share-proof-{t}")
                    }
                };
                out.op(befp_line(HEIGHT, HEIGHT, &hash, aidx as u64, ax, &v), &format!("befp/{tag}"), true);
            }
            // restore the honest DAH for the following ops
            out.op(dah_op(&dah), &format!("dah/w{w}"), true);
        }

        // DAH shape abuse (the DAH is not peer input here, but the decoders must cope with any stored DAH)
        let rows = roots(dah.row_roots());
        let cols = roots(dah.column_roots());
        out.op(format!("dah rows={} cols={}", hxl(&rows[..w - 1]), hxl(&cols)), "dah/rows-ne-cols", true);
        let s = Sample::new(0, 0, AxisType::Row, &eds).unwrap();
        let raw = RawSample::from(s);
        out.op(
            format!("sample r=0 c=0 axis=0 share={} hasproof=1 {}", hx(&raw.share.as_ref().unwrap().data), raw_proof_fields(raw.proof.as_ref().unwrap())),
            "sample/dah-rows-ne-cols",
            true,
        );
        out.op(format!("sample r={} c=0 axis=0 share={} hasproof=1 {}", w - 1, hx(&raw.share.as_ref().unwrap().data), raw_proof_fields(raw.proof.as_ref().unwrap())), "sample/dah-rows-ne-cols", true);
    }

    fn gen_framing(&mut self, rng: &mut Rng, n: usize, out: &mut Emitter) {
        use celestia_proto::p2p::pb::{HeaderRequest, HeaderResponse, header_request::Data};
        for _ in 0..n {
            let req = HeaderRequest {
                amount: *rng.pick(&[0u64, 1, 2, 64, 512, u64::MAX]),
                data: match rng.below(3) {
                    0 => None,
                    1 => Some(Data::Origin(*rng.pick(&[0u64, 1, 100, u64::MAX]))),
                    _ => {
                        let n = *rng.pick(&[0usize, 1, 32, 33]);
                        Some(Data::Hash(rng.bytes(n)))
                    }
                },
            };
            let bytes = req.encode_length_delimited_to_vec();
            out.op(format!("hxreq bytes={}", hx(&bytes)), "hxreq/honest", true);
            for _ in 0..6 {
                let (b, tag) = mutate_bytes(rng, &bytes);
                out.op(format!("hxreq bytes={}", hx(&b)), &format!("hxreq/{tag}"), true);
            }
            let mut buf = vec![];
            let k = rng.usize(1, 4);
            for _ in 0..k {
                let blen = rng.usize(0, 200);
                let resp = HeaderResponse { body: rng.bytes(blen), status_code: *rng.pick(&[0i32, 1, 2, 3, -1, i32::MAX, i32::MIN]) };
                resp.encode_length_delimited(&mut buf).unwrap();
            }
            out.op(format!("hxresp bytes={}", hx(&buf)), "hxresp/honest", true);
            for _ in 0..8 {
                let (b, tag) = mutate_bytes(rng, &buf);
                out.op(format!("hxresp bytes={}", hx(&b)), &format!("hxresp/{tag}"), true);
            }
        }
        // varint edge cases of the length delimiter
        for b in [
            vec![],
            vec![0x00],
            vec![0x80],
            vec![0xff; 9],
            vec![0xff; 10],
            vec![0xff, 0xff, 0xff, 0xff, 0xff, 0xff, 0xff, 0xff, 0xff, 0x01],
            vec![0xff, 0xff, 0xff, 0xff, 0xff, 0xff, 0xff, 0xff, 0xff, 0x02],
            vec![0xff, 0xff, 0xff, 0xff, 0x0f],
            vec![0x05, 0x08, 0x01],
            vec![0x02, 0x08, 0x01, 0xff],
        ] {
            out.op(format!("hxreq bytes={}", hx(&b)), "hxreq/delimiter-edge", true);
            out.op(format!("hxresp bytes={}", hx(&b)), "hxresp/delimiter-edge", true);
        }
    }
}

impl C16 {
    /// ShrEx/Sub notifications and ShrEx EDS responses
    fn gen_shrex(&mut self, rng: &mut Rng, n: usize, out: &mut Emitter) {
        use celestia_proto::share::p2p::shrex::sub::RecentEdsNotification;
        let empty = lumina_node::verif::p2p::shrex::pool_tracker::empty_eds_data_hash();
        let emit = |out: &mut Emitter, height: u64, hash: &[u8], tag: &str| {
            out.op(format!("edsn height={height} hash={} empty={}", hx(hash), hx(&empty)), tag, true);
        };
        for _ in 0..n {
            let h = rng.bytes(32);
            let height = *rng.pick(&[1u64, 2, 1000, u64::MAX]);
            emit(out, height, &h, "edsn/honest");
            // byte-level mutations of the honest encoding, re-read with prost (trusted) into the raw structure
            let bytes = RecentEdsNotification { height, data_hash: h.clone() }.encode_to_vec();
            for _ in 0..4 {
                let (b, tag) = mutate_bytes(rng, &bytes);
                if let Ok(raw) = RecentEdsNotification::decode(&b[..]) {
                    emit(out, raw.height, &raw.data_hash, &format!("edsn/bytes-{tag}"));
                }
            }
        }
        emit(out, 0, &rng.bytes(32), "edsn/zero-height");
        emit(out, 5, &[0u8; 32], "edsn/zero-hash");
        emit(out, 5, &[], "edsn/empty-hash");
        emit(out, 5, &[0u8; 7], "edsn/short-zero-hash");
        emit(out, 5, &rng.bytes(31), "edsn/31-bytes");
        emit(out, 5, &rng.bytes(33), "edsn/33-bytes");
        emit(out, 5, &empty.clone(), "edsn/empty-block-hash");
        // EDS responses: honest ODS of small squares against their DAH, then length abuse
        for w in [2usize, 4, 8] {
            let (eds, _) = gen_eds(rng, w);
            let dah = DataAvailabilityHeader::from_eds(&eds);
            out.op(dah_op(&dah), &format!("dah/w{w}-edsresp"), true);
            let mut ods: Vec<Vec<u8>> = vec![];
            for r in 0..w / 2 {
                for c in 0..w / 2 {
                    ods.push(eds.share(r as u16, c as u16).unwrap().to_vec());
                }
            }
            let line = |sh: &[Vec<u8>], tail: &[u8]| format!("edsresp data={} tail={}", hxl(sh), hx(tail));
            out.op(line(&ods, &[]), "edsresp/honest", true);
            out.op(line(&[], &[]), "edsresp/empty", true);
            out.op(line(&ods, &[0]), "edsresp/one-byte-more", true);
            out.op(line(&ods[..ods.len() - 1], &ods[ods.len() - 1][..511]), "edsresp/one-byte-less", true);
            out.op(line(&ods[..ods.len() - 1], &[]), "edsresp/one-share-less", true);
            let mut v = ods.clone();
            v.push(ods[0].clone());
            out.op(line(&v, &[]), "edsresp/one-share-more", true);
            let mut v = ods.clone();
            v.reverse();
            out.op(line(&v, &[]), "edsresp/reversed", true);
            let mut v = ods.clone();
            let i = rng.usize(0, v.len() - 1);
            let j = rng.usize(0, 511);
            v[i][j] ^= 1 << rng.below(8);
            out.op(line(&v, &[]), "edsresp/bitflip", true);
            let gl = rng_len(rng);
            out.op(line(&[], &rng.bytes(gl)), "edsresp/garbage", true);
        }
        // 129 x 129 zero shares: more shards per row than leopard supports
        out.op(format!("edsresp data={} tail=-", hxl(&vec![vec![0u8; 512]; 129 * 129])), "edsresp/129x129", true);
    }

    /// extended headers: honest encodings (deterministic keys), mutated at byte level
    fn gen_headers(&mut self, rng: &mut Rng, n: usize, out: &mut Emitter) {
        use consensus_e::*;
        use tendermint_proto::Protobuf;
        for _ in 0..n {
            let nparties = rng.usize(1, 4);
            let parties: Vec<Party> = (0..nparties).map(|_| {
                let p = rng.range(1, 1000);
                new_party(rng, p)
            }).collect();
            let (ordered, set) = set_of_parties(&parties);
            let hw = *rng.pick(&[2usize, 4]);
            let (eds, _) = gen_eds(rng, hw);
            let dah = DataAvailabilityHeader::from_eds(&eds);
            let height = rng.range(1, 1_000_000);
            let lbi = if height == 1 { None } else { some_block_id(rng) };
            let eh = make_header(rng, "private", height, 1_700_000_000_000_000_000, AppVersionLatest(), lbi, &ordered, &set, &set, dah, &|_| true);
            let bytes = eh.clone().encode_vec();
            out.op(format!("eh bytes={}", hx(&bytes)), "eh/honest", true);
            // `ehv`: ExtendedHeader::validate on a VALUE (what runs after the third-party conversions), compared
            // with group E's field-level model; the line is the fixpoint of format -> parse -> format
            let mut ehv = |out: &mut Emitter, h: &ExtendedHeader, tag: &str| {
                let l = fmt_eh_full(h, "", false);
                if let Some(h2) = parse_eh_full(&l, "") {
                    out.op(format!("ehv {}", fmt_eh_full(&h2, "", false)), tag, true);
                }
            };
            ehv(out, &eh, "ehv/honest");
            // structured adversarial headers
            {
                use tendermint::block::CommitSig;
                let rh = |rng: &mut Rng| tendermint::Hash::Sha256(rng.bytes(32).try_into().unwrap());
                let mut m = eh.clone();
                m.commit.height = (height + 1).try_into().unwrap();
                ehv(out, &m, "ehv/commit-height");
                for app in [0u64, 999, u64::MAX] {
                    let mut m = eh.clone();
                    m.header.version.app = app;
                    ehv(out, &m, "ehv/app-version");
                }
                let mut m = eh.clone();
                m.header.version.block = 10;
                ehv(out, &m, "ehv/block-version");
                let mut m = eh.clone();
                m.header.data_hash = Some(rh(rng));
                ehv(out, &m, "ehv/data-hash");
                let mut m = eh.clone();
                m.header.data_hash = None;
                ehv(out, &m, "ehv/data-hash-none");
                let mut m = eh.clone();
                m.header.validators_hash = rh(rng);
                ehv(out, &m, "ehv/validators-hash");
                let mut m = eh.clone();
                m.commit.block_id.hash = rh(rng);
                ehv(out, &m, "ehv/commit-block-hash");
                let mut m = eh.clone();
                for s in m.commit.signatures.iter_mut() {
                    *s = CommitSig::BlockIdFlagAbsent;
                }
                ehv(out, &m, "ehv/nobody-signed");
                let mut m = eh.clone();
                if let CommitSig::BlockIdFlagCommit { signature, .. } = &mut m.commit.signatures[0] {
                    *signature = None;
                }
                ehv(out, &m, "ehv/entry-without-signature");
                let mut m = eh.clone();
                m.commit.signatures.pop();
                ehv(out, &m, "ehv/one-entry-less");
                let mut m = eh.clone();
                m.commit.signatures.push(CommitSig::BlockIdFlagAbsent);
                ehv(out, &m, "ehv/one-entry-more");
                let mut m = eh.clone();
                m.header.last_block_id = if height == 1 { some_block_id(rng) } else { None };
                ehv(out, &m, "ehv/last-block-id");
                let rows = m.dah.row_roots().to_vec();
                let cols = m.dah.column_roots().to_vec();
                let mut m = eh.clone();
                m.dah = DataAvailabilityHeader::new_unchecked(rows.clone(), cols[..cols.len() - 1].to_vec());
                ehv(out, &m, "ehv/dah-rows-ne-cols");
                let mut m = eh.clone();
                m.dah = DataAvailabilityHeader::new_unchecked(rows[..1].to_vec(), cols[..1].to_vec());
                ehv(out, &m, "ehv/dah-width-1");
                let mut m = eh.clone();
                m.dah = DataAvailabilityHeader::new_unchecked(vec![], vec![]);
                ehv(out, &m, "ehv/dah-empty");
            }
            // byte-level mutations of the honest encoding; when prost and the four third-party conversions still
            // accept the bytes, the resulting VALUE is also given to the model (`ehv`)
            let mut fuzz = |out: &mut Emitter, b: &[u8], tag: &str| {
                out.op(format!("eh bytes={}", hx(b)), &format!("eh/{tag}"), true);
                use celestia_proto::header::pb::ExtendedHeader as RawEh;
                if let Ok(raw) = RawEh::decode(b) {
                    let parts = (
                        raw.header.and_then(|h| tendermint::block::Header::try_from(h).ok()),
                        raw.commit.and_then(|c| tendermint::block::Commit::try_from(c).ok()),
                        raw.validator_set.and_then(|v| tendermint::validator::Set::try_from(v).ok()),
                        raw.dah.and_then(|d| DataAvailabilityHeader::try_from(d).ok()),
                    );
                    if let (Some(header), Some(commit), Some(validator_set), Some(dah)) = parts {
                        let h = ExtendedHeader { header, commit, validator_set, dah };
                        let l = fmt_eh_full(&h, "", false);
                        if let Some(h2) = parse_eh_full(&l, "") {
                            out.op(format!("ehv {}", fmt_eh_full(&h2, "", false)), &format!("ehv/bytes-{tag}"), true);
                        }
                    }
                }
            };
            for _ in 0..12 {
                let (b, tag) = mutate_bytes(rng, &bytes);
                fuzz(out, &b, tag);
            }
            // several mutations at once
            for _ in 0..6 {
                let mut b = bytes.clone();
                for _ in 0..rng.usize(2, 6) {
                    b = mutate_bytes(rng, &b).0;
                }
                fuzz(out, &b, "multi-mutation");
            }
        }
    }

    /// byte-level fuzzing of the shwap containers: honest protobuf encodings mutated, handed to the real
    /// `decode` (+ `verify`) as bytes (`xbytes`, outcome `nopanic`), and — when prost still accepts them — as the
    /// raw structure prost produced to the structured ops that the model follows class by class
    fn gen_container_bytes(&mut self, rng: &mut Rng, w: usize, n: usize, out: &mut Emitter) {
        let (eds, nss) = gen_eds(rng, w);
        let dah = DataAvailabilityHeader::from_eds(&eds);
        out.op(dah_op(&dah), &format!("dah/w{w}-bytes"), true);
        for _ in 0..n {
            let r = rng.below(w as u64) as u16;
            let c = rng.below(w as u64) as u16;
            // sample
            let s = Sample::new(r, c, if rng.bool() { AxisType::Row } else { AxisType::Col }, &eds).unwrap();
            let bytes = RawSample::from(s).encode_to_vec();
            for _ in 0..4 {
                let (b, tag) = mutate_bytes(rng, &bytes);
                out.op(format!("xbytes kind=sample r={r} c={c} bytes={}", hx(&b)), &format!("xbytes/sample-{tag}"), true);
                if let Ok(raw) = RawSample::decode(&b[..]) {
                    let share = raw.share.as_ref().map(|s| hx(&s.data)).unwrap_or_else(|| "none".into());
                    let (hp, pf) = match &raw.proof {
                        Some(p) => (1, raw_proof_fields(p)),
                        None => (0, raw_proof_fields(&RawProof::default())),
                    };
                    out.op(format!("sample r={r} c={c} axis={} share={share} hasproof={hp} {pf}", raw.proof_type as u32), &format!("sample/bytes-{tag}"), true);
                }
            }
            // row
            let row = Row::new(r, &eds).unwrap();
            let bytes = RawRow::from(row).encode_to_vec();
            for _ in 0..3 {
                let (b, tag) = mutate_bytes(rng, &bytes);
                out.op(format!("xbytes kind=row r={r} c=0 bytes={}", hx(&b)), &format!("xbytes/row-{tag}"), true);
                if let Ok(raw) = RawRow::decode(&b[..]) {
                    let halves: Vec<Vec<u8>> = raw.shares_half.iter().map(|s| s.data.clone()).collect();
                    out.op(format!("row idx={r} side={} halves={}", raw.half_side as u32, hxl(&halves)), &format!("row/bytes-{tag}"), true);
                }
            }
            // row namespace data
            let ns = *rng.pick(&nss);
            if let Ok(rows) = eds.get_namespace_data(ns, &dah, HEIGHT) {
                if let Some((id, rnd)) = rows.first() {
                    let bytes = RawRnd::from(rnd.clone()).encode_to_vec();
                    for _ in 0..3 {
                        let (b, tag) = mutate_bytes(rng, &bytes);
                        out.op(
                            format!("xbytes kind=rnd r={} c=0 ns={} bytes={}", id.row_index(), hx(ns.as_bytes()), hx(&b)),
                            &format!("xbytes/rnd-{tag}"),
                            true,
                        );
                        if let Ok(raw) = RawRnd::decode(&b[..]) {
                            let sh: Vec<Vec<u8>> = raw.shares.iter().map(|s| s.data.clone()).collect();
                            let hp = raw.proof.is_some() as u8;
                            let pf = raw.proof.clone().unwrap_or_default();
                            out.op(
                                format!("rnd row={} ns={} shares={} hasproof={hp} {}", id.row_index(), hx(ns.as_bytes()), hxl(&sh), raw_proof_fields(&pf)),
                                &format!("rnd/bytes-{tag}"),
                                true,
                            );
                        }
                    }
                }
            }
        }
    }
}

#[allow(non_snake_case)]
fn AppVersionLatest() -> u64 {
    celestia_types::AppVersion::latest().as_u64()
}

fn rng_len(rng: &mut Rng) -> usize {
    *rng.pick(&[1usize, 511, 513, 1000, 1024, 1536])
}

/// byte-level mutations (the "coverage-free mutation fuzzing seeded from honest encodings" of the property)
fn mutate_bytes(rng: &mut Rng, b: &[u8]) -> (Vec<u8>, &'static str) {
    let mut v = b.to_vec();
    match rng.below(7) {
        0 if !v.is_empty() => {
            let i = rng.usize(0, v.len() - 1);
            v[i] ^= 1 << rng.below(8);
            (v, "bitflip")
        }
        1 if !v.is_empty() => {
            v.truncate(rng.usize(0, v.len() - 1));
            (v, "truncated")
        }
        2 => {
            let i = rng.usize(0, v.len());
            v.insert(i, rng.byte());
            (v, "byte-inserted")
        }
        3 if !v.is_empty() => {
            let i = rng.usize(0, v.len() - 1);
            v.remove(i);
            (v, "byte-removed")
        }
        4 if !v.is_empty() => {
            let i = rng.usize(0, v.len() - 1);
            v[i] = *rng.pick(&[0x00u8, 0x7f, 0x80, 0xff]);
            (v, "byte-extreme")
        }
        5 => {
            let n = rng.usize(1, 12);
            v.extend(rng.bytes(n));
            (v, "trailing-garbage")
        }
        _ => {
            let n = rng.usize(1, 24);
            (rng.bytes(n), "random")
        }
    }
}

impl Prop for C16 {
    fn id(&self) -> &'static str {
        "C16"
    }
    fn rule(&self) -> &'static str {
        "Honest values (samples, rows, row-namespace data, namespace data, bad-encoding fraud proofs, header-ex frames, extended headers) of random \
         namespace-sorted squares extended with the real leopard codec, encoded, then mutated structurally (huge/short/reordered/\
         random/min>max sibling lists, extreme and truncated i64 indices, empty and mismatched halves, missing fields, wrong axis, \
         wrong lengths, swapped fraud-proof positions) and at byte level (bit flips, truncation, insertion, garbage); every op is run \
         through the real decoder and its verify/validate against the DAH under catch_unwind. Result = outcome class \
         (ok / err-decode / err-verify / panic). Non-trivial = every case; distinct = distinct (op, result) lines."
    }
    fn gen_ops(&mut self, rng: &mut Rng, tier: Tier, out: &mut Emitter) {
        let plan: Vec<(usize, usize, usize)> =
            if tier == Tier::Thorough { vec![(2, 8, 12), (4, 8, 14), (8, 6, 16), (16, 4, 16), (32, 2, 12)] } else { vec![(2, 2, 6), (4, 2, 8), (8, 2, 8), (16, 1, 8)] };
        for (w, squares, per) in plan {
            for _ in 0..squares {
                self.gen_square(rng, w, per, out);
            }
        }
        self.gen_framing(rng, if tier == Tier::Thorough { 200 } else { 30 }, out);
        self.gen_shrex(rng, if tier == Tier::Thorough { 150 } else { 25 }, out);
        self.gen_headers(rng, if tier == Tier::Thorough { 40 } else { 6 }, out);
        for w in [4usize, 8] {
            self.gen_container_bytes(rng, w, if tier == Tier::Thorough { 40 } else { 6 }, out);
        }
    }
    fn observed(&mut self, _line: &str) -> Option<String> {
        self.last_obs.take()
    }
    fn run(&mut self, line: &str) -> String {
        self.last_obs = None;
        match opname(line) {
            "reset" => {
                self.dah = None;
                "ok".into()
            }
            "dah" => {
                let (Some(rows), Some(cols)) = (arg(line, "rows").and_then(unhxl), arg(line, "cols").and_then(unhxl)) else {
                    return "bad-op".into();
                };
                let conv = |v: Vec<Vec<u8>>| v.iter().map(|b| NamespacedHash::from_raw(b).ok()).collect::<Option<Vec<_>>>();
                match (conv(rows), conv(cols)) {
                    (Some(r), Some(c)) => {
                        self.dah = Some(DataAvailabilityHeader::new_unchecked(r, c));
                        "ok".into()
                    }
                    _ => "bad-op".into(),
                }
            }
            "proof" => match raw_proof_from(line) {
                Some(p) => cls(NamespaceProof::try_from(p)).into(),
                None => "bad-op".into(),
            },
            "sample" => {
                let Some(dah) = &self.dah else { return "no-dah".into() };
                let (Some(r), Some(c), Some(axis)) = (arg_u64(line, "r"), arg_u64(line, "c"), arg_u64(line, "axis")) else {
                    return "bad-op".into();
                };
                let share = match arg(line, "share") {
                    Some("none") => None,
                    Some(h) => match unhx(h) {
                        Some(d) => Some(RawShare { data: d }),
                        None => return "bad-op".into(),
                    },
                    None => return "bad-op".into(),
                };
                let proof = if arg_u64(line, "hasproof") == Some(1) {
                    match raw_proof_from(line) {
                        Some(p) => Some(p),
                        None => return "bad-op".into(),
                    }
                } else {
                    None
                };
                let raw = RawSample { share, proof, proof_type: axis as u32 as i32 };
                let id = SampleId::new(r as u16, c as u16, HEIGHT).unwrap();
                two_stage(Sample::from_raw(id, raw), |s| s.verify(id, dah))
            }
            "row" => {
                let Some(dah) = &self.dah else { return "no-dah".into() };
                let (Some(idx), Some(side), Some(halves)) = (arg_u64(line, "idx"), arg_u64(line, "side"), arg(line, "halves").and_then(unhxl)) else {
                    return "bad-op".into();
                };
                // leopard as an oracle for the model (the prost accessor maps every unknown side to Left)
                self.last_obs = Some(oracle_row(side as u32 as i32 != 1, &halves));
                let raw = RawRow { shares_half: halves.into_iter().map(|data| RawShare { data }).collect(), half_side: side as u32 as i32 };
                let id = RowId::new(idx as u16, HEIGHT).unwrap();
                two_stage(Row::from_raw(id, raw), |r| r.verify(id, dah))
            }
            "rnd" => {
                let Some(dah) = &self.dah else { return "no-dah".into() };
                let (Some(row), Some(ns), Some(shares)) =
                    (arg_u64(line, "row"), arg_hex(line, "ns").and_then(|b| Namespace::from_raw(&b).ok()), arg(line, "shares").and_then(unhxl))
                else {
                    return "bad-op".into();
                };
                let proof = if arg_u64(line, "hasproof") == Some(1) {
                    match raw_proof_from(line) {
                        Some(p) => Some(p),
                        None => return "bad-op".into(),
                    }
                } else {
                    None
                };
                let raw = RawRnd { shares: shares.into_iter().map(|data| RawShare { data }).collect(), proof };
                let id = RowNamespaceDataId::new(ns, row as u16, HEIGHT).unwrap();
                two_stage(RowNamespaceData::from_raw(id, raw), |r| r.verify(id, dah))
            }
            "nd" => {
                let Some(dah) = &self.dah else { return "no-dah".into() };
                let Some(ns) = arg_hex(line, "ns").and_then(|b| Namespace::from_raw(&b).ok()) else { return "bad-op".into() };
                let Some(rows) = all_args(line, "rw").into_iter().map(rnd_unword).collect::<Option<Vec<_>>>() else {
                    return "bad-op".into();
                };
                let id = NamespaceDataId::new(ns, HEIGHT).unwrap();
                two_stage(NamespaceData::from_raw(id, rows), |d| d.verify(id, dah))
            }
            "befp" => {
                let Some(dah) = &self.dah else { return "no-dah".into() };
                let (Some(hh), Some(height), Some(hash), Some(index), Some(axis)) =
                    (arg_u64(line, "hh"), arg_u64(line, "height"), arg_hex(line, "hash"), arg_u64(line, "index"), arg_u64(line, "axis"))
                else {
                    return "bad-op".into();
                };
                let Some(shares) = all_args(line, "sh").into_iter().map(befp_unword).collect::<Option<Vec<_>>>() else {
                    return "bad-op".into();
                };
                {
                    let rebuilt: Vec<Vec<u8>> = shares
                        .iter()
                        .map(|s| if s.proof.is_some() && s.data.len() == 512 + NS_SIZE { s.data[NS_SIZE..].to_vec() } else { vec![] })
                        .collect();
                    self.last_obs = Some(oracle_befp(&rebuilt, dah.row_roots().len() / 2));
                }
                let raw = RawBefp { header_hash: hash, height, shares, index: index as u32, axis: axis as u32 as i32 };
                let header = self.header.get_or_insert_with(|| ExtendedHeaderGenerator::new_from_height(HEIGHT).next());
                let Ok(h) = tendermint::block::Height::try_from(hh) else { return "bad-op".into() };
                header.header.height = h;
                header.dah = dah.clone();
                let header = header.clone();
                two_stage(BadEncodingFraudProof::try_from(raw), |p| p.validate(&header))
            }
            "hxreq" => {
                let Some(b) = arg_hex(line, "bytes") else { return "bad-op".into() };
                let rt = tokio::runtime::Builder::new_current_thread().enable_time().build().unwrap();
                let r = rt.block_on(async {
                    let mut io = futures::io::Cursor::new(b);
                    lumina_node::verif::p2p::header_ex::codec_read_request(&mut io).await
                });
                cls(r).into()
            }
            "edsn" => {
                use celestia_proto::share::p2p::shrex::sub::RecentEdsNotification;
                let (Some(height), Some(hash)) = (arg_u64(line, "height"), arg_hex(line, "hash")) else { return "bad-op".into() };
                let bytes = RecentEdsNotification { height, data_hash: hash }.encode_to_vec();
                cls(lumina_node::verif::p2p::shrex::pool_tracker::eds_notification_deserialize_and_validate(&bytes)).into()
            }
            "edsresp" => {
                let Some(dah) = &self.dah else { return "no-dah".into() };
                let (Some(data), Some(tail)) = (arg(line, "data").and_then(unhxl), arg_hex(line, "tail")) else { return "bad-op".into() };
                let mut raw: Vec<u8> = data.concat();
                raw.extend_from_slice(&tail);
                let _ = lumina_node::verif::p2p::shrex::codec::eds_decode_and_verify(&raw, HEIGHT, dah, app());
                "nopanic".into()
            }
            "eh" => {
                let Some(b) = arg_hex(line, "bytes") else { return "bad-op".into() };
                let _ = ExtendedHeader::decode_and_validate(&b);
                "nopanic".into()
            }
            "ehv" => match consensus_e::parse_eh_full(line, "") {
                Some(eh) => consensus_e::validate_str(&eh),
                None => "bad-op".into(),
            },
            "xbytes" => {
                let Some(dah) = &self.dah else { return "no-dah".into() };
                let (Some(kind), Some(r), Some(c), Some(b)) = (arg(line, "kind"), arg_u64(line, "r"), arg_u64(line, "c"), arg_hex(line, "bytes")) else {
                    return "bad-op".into();
                };
                match kind {
                    "sample" => {
                        let id = SampleId::new(r as u16, c as u16, HEIGHT).unwrap();
                        let _ = Sample::decode(id, &b).and_then(|s| s.verify(id, dah));
                    }
                    "row" => {
                        let id = RowId::new(r as u16, HEIGHT).unwrap();
                        let _ = Row::decode(id, &b).and_then(|x| x.verify(id, dah));
                    }
                    "rnd" => {
                        let Some(ns) = arg_hex(line, "ns").and_then(|n| Namespace::from_raw(&n).ok()) else { return "bad-op".into() };
                        let id = RowNamespaceDataId::new(ns, r as u16, HEIGHT).unwrap();
                        let _ = RowNamespaceData::decode(id, &b).and_then(|x| x.verify(id, dah));
                    }
                    _ => return "bad-op".into(),
                }
                "nopanic".into()
            }
            "hxresp" => {
                let Some(b) = arg_hex(line, "bytes") else { return "bad-op".into() };
                let rt = tokio::runtime::Builder::new_current_thread().enable_time().build().unwrap();
                let r = rt.block_on(async {
                    let mut io = futures::io::Cursor::new(b);
                    lumina_node::verif::p2p::header_ex::codec_read_response(&mut io).await
                });
                match r {
                    Ok(v) => format!("ok {}", v.len()),
                    Err(_) => "err".into(),
                }
            }
            _ => "bad-op".into(),
        }
    }
}

/// a well-formed previous block id (any hash): headers above height 1 need one
fn some_block_id(rng: &mut Rng) -> Option<tendermint::block::Id> {
    let h = |rng: &mut Rng| tendermint::Hash::Sha256(rng.bytes(32).try_into().unwrap());
    Some(tendermint::block::Id { hash: h(rng), part_set_header: tendermint::block::parts::Header::new(1, h(rng)).unwrap() })
}

fn main() {
    main_for(C16 { dah: None, header: None, last_obs: None });
}

//! C42 — Task join handles resolve exactly when the task ends.
//!
//! Drives the REAL `lumina_utils::executor::{spawn, spawn_cancellable, JoinHandle}`.
//!
//! * controlled histories on a current-thread tokio runtime that is idle between ops: inner
//!   futures follow a script (`P` pending + store waker, `R` ready, `X` panic) and log their polls
//!   and their `Drop`; ops `spawn`, `tick` (run the scheduler until idle), `wake`, `cancel`, `join`
//!   (one manual poll of `JoinHandle::join`), `shutdown` (drop the runtime); every result line is
//!   predicted exactly by the model;
//! * `race`: tasks with random lifetimes, panics and cancellation points on a multi-thread runtime,
//!   cancellers and joiners running concurrently; all events globally stamped; the trace goes to
//!   the driver as `obs=` (must be a run of the model, spec evaluated on it); `hang` = some join
//!   did not return within the time-out.
use std::collections::{HashMap, VecDeque};
use std::future::Future;
use std::pin::Pin;
use std::sync::atomic::{AtomicU64, Ordering::SeqCst};
use std::sync::{Arc, Mutex};
use std::task::{Context, Poll, Waker};
use std::time::Duration;

use lumina_utils::executor::{JoinHandle, spawn, spawn_cancellable};
use tokio_util::sync::CancellationToken;
use verif_harness::*;

const HANG_TIMEOUT: Duration = Duration::from_millis(2500);
/// after a few observed hangs the remaining runs use a short time-out (a broken build would
/// otherwise take an hour to report the same failure 1500 times)
static HANGS: AtomicU64 = AtomicU64::new(0);
fn hang_timeout() -> Duration {
    if HANGS.load(SeqCst) >= 3 { Duration::from_millis(300) } else { HANG_TIMEOUT }
}

#[derive(Clone, Copy, PartialEq, Debug)]
enum Beh {
    Pending,
    Ready,
    Panic,
}

static STAMP: AtomicU64 = AtomicU64::new(0);
fn stamp() -> u64 {
    STAMP.fetch_add(1, SeqCst)
}

#[derive(Default)]
struct Ctl {
    polled: Mutex<Vec<usize>>,
    dropped: Mutex<Vec<usize>>,
    wakers: Mutex<HashMap<usize, Waker>>,
}

/// scripted inner future of the controlled histories
struct Scripted {
    id: usize,
    script: VecDeque<Beh>,
    ctl: Arc<Ctl>,
}

impl Future for Scripted {
    type Output = ();
    fn poll(mut self: Pin<&mut Self>, cx: &mut Context<'_>) -> Poll<()> {
        let id = self.id;
        self.ctl.polled.lock().unwrap().push(id);
        match self.script.pop_front().unwrap_or(Beh::Pending) {
            Beh::Pending => {
                self.ctl.wakers.lock().unwrap().insert(id, cx.waker().clone());
                Poll::Pending
            }
            Beh::Ready => {
                self.ctl.wakers.lock().unwrap().remove(&id);
                Poll::Ready(())
            }
            Beh::Panic => {
                self.ctl.wakers.lock().unwrap().remove(&id);
                panic!("scripted panic of task {id}")
            }
        }
    }
}

impl Drop for Scripted {
    fn drop(&mut self) {
        self.ctl.wakers.lock().unwrap().remove(&self.id);
        self.ctl.dropped.lock().unwrap().push(self.id);
    }
}

type Log = Arc<Mutex<Vec<(u64, String)>>>;

/// inner future of the racy runs: self-waking, logs its polls (at their beginning) and its drop
struct Racy {
    id: usize,
    script: VecDeque<(Beh, u64, u64)>,
    log: Log,
}

fn spin(n: u64) {
    for _ in 0..n {
        std::hint::spin_loop();
    }
}

impl Future for Racy {
    type Output = ();
    fn poll(mut self: Pin<&mut Self>, cx: &mut Context<'_>) -> Poll<()> {
        // (behaviour, spin inside the poll, microseconds until the self-wake-up; 0 = at once);
        // an exhausted script = an endless task that wakes itself every 150 us
        let (b, d, nap) = self.script.pop_front().unwrap_or((Beh::Pending, 50, 150));
        let s = stamp();
        let ch = match b {
            Beh::Pending => 'P',
            Beh::Ready => 'R',
            Beh::Panic => 'X',
        };
        self.log.lock().unwrap().push((s, format!("p{}.{ch}", self.id)));
        spin(d);
        match b {
            Beh::Pending => {
                if nap == 0 {
                    cx.waker().wake_by_ref();
                } else {
                    let w = cx.waker().clone();
                    tokio::spawn(async move {
                        tokio::time::sleep(Duration::from_micros(nap)).await;
                        w.wake();
                    });
                }
                Poll::Pending
            }
            Beh::Ready => Poll::Ready(()),
            Beh::Panic => panic!("scripted panic of task {}", self.id),
        }
    }
}

impl Drop for Racy {
    fn drop(&mut self) {
        let s = stamp();
        self.log.lock().unwrap().push((s, format!("d{}", self.id)));
    }
}

struct C42 {
    rt: Option<tokio::runtime::Runtime>,
    ctl: Arc<Ctl>,
    handles: Vec<JoinHandle>,
    tokens: HashMap<u64, CancellationToken>,
    alive: Vec<bool>,
    down: bool,
    mrt: Option<tokio::runtime::Runtime>,
    last_obs: Option<String>,
}

fn ids(v: &[usize]) -> String {
    natl(v)
}

impl C42 {
    fn new() -> C42 {
        C42 {
            rt: None,
            ctl: Arc::new(Ctl::default()),
            handles: vec![],
            tokens: HashMap::new(),
            alive: vec![],
            down: false,
            mrt: None,
            last_obs: None,
        }
    }

    fn reset(&mut self) {
        // drop the runtime first: its tasks hold the scripted futures
        self.rt = None;
        self.ctl = Arc::new(Ctl::default());
        self.handles.clear();
        self.tokens.clear();
        self.alive.clear();
        self.down = false;
    }

    fn rt(&mut self) -> &tokio::runtime::Runtime {
        self.rt.get_or_insert_with(|| tokio::runtime::Builder::new_current_thread().enable_all().build().unwrap())
    }

    /// events since the last call, canonical (sorted)
    fn take_events(&mut self) -> (Vec<usize>, Vec<usize>) {
        let mut p: Vec<usize> = self.ctl.polled.lock().unwrap().drain(..).collect();
        let mut d: Vec<usize> = self.ctl.dropped.lock().unwrap().drain(..).collect();
        p.sort();
        d.sort();
        for i in &d {
            self.alive[*i] = false;
        }
        (p, d)
    }

    fn alive_ids(&self) -> Vec<usize> {
        self.alive.iter().enumerate().filter(|(_, a)| **a).map(|(i, _)| i).collect()
    }

    fn race(&mut self, n: usize, seed: u64) -> String {
        let mut rng = Rng::new(seed);
        let rt = self.mrt.get_or_insert_with(|| {
            tokio::runtime::Builder::new_multi_thread().worker_threads(4).enable_all().build().unwrap()
        });
        // plan
        let ntok = 2u64;
        // per token: never cancelled, or cancelled after this many microseconds (0 = before any spawn)
        let cancel_plan: Vec<Option<u64>> =
            (0..ntok).map(|_| if rng.chance(3, 4) { Some(if rng.chance(1, 5) { 0 } else { rng.below(1500) }) } else { None }).collect();
        struct Plan {
            cancellable: bool,
            tok: u64,
            script: VecDeque<(Beh, u64, u64)>,
        }
        let mut plans = vec![];
        for _ in 0..n {
            let cancellable = rng.chance(3, 5);
            let tok = rng.below(ntok);
            let will_be_cancelled = cancellable && cancel_plan[tok as usize].is_some();
            let len = rng.usize(0, 6);
            let mut script: VecDeque<(Beh, u64, u64)> =
                (0..len).map(|_| (Beh::Pending, rng.below(400), if rng.bool() { 0 } else { rng.below(400) })).collect();
            // endless tasks only when a cancellation is going to stop them
            if !(will_be_cancelled && rng.chance(1, 2)) {
                script.push_back((if rng.chance(1, 4) { Beh::Panic } else { Beh::Ready }, rng.below(400), 0));
            }
            plans.push(Plan { cancellable, tok, script });
        }
        let log: Log = Arc::new(Mutex::new(vec![]));
        let spawn_gap: Vec<u64> = (0..n).map(|_| rng.below(300)).collect();
        let join_twice = rng.bool();
        let log2 = log.clone();
        let hang = rt.block_on(async move {
            let log = log2;
            let tokens: Vec<CancellationToken> = (0..ntok).map(|_| CancellationToken::new()).collect();
            // cancellers
            let mut aux = vec![];
            for (t, plan) in cancel_plan.iter().enumerate() {
                if let Some(d) = *plan {
                    let tok = tokens[t].clone();
                    let log = log.clone();
                    if d == 0 {
                        let b = stamp();
                        log.lock().unwrap().push((b, format!("C{t}")));
                        tok.cancel();
                        let e = stamp();
                        log.lock().unwrap().push((e, format!("c{t}")));
                        continue;
                    }
                    aux.push(tokio::task::spawn_blocking(move || {
                        std::thread::sleep(Duration::from_micros(d));
                        let b = stamp();
                        log.lock().unwrap().push((b, format!("C{t}")));
                        tok.cancel();
                        let e = stamp();
                        log.lock().unwrap().push((e, format!("c{t}")));
                    }));
                }
            }
            let mut joiners = vec![];
            for (i, p) in plans.into_iter().enumerate() {
                spin(spawn_gap[i]);
                let inner = Racy { id: i, script: p.script, log: log.clone() };
                let s = stamp();
                log.lock().unwrap().push((s, format!("s{i}.{}.{}", p.cancellable as u8, p.tok)));
                let handle = if p.cancellable { spawn_cancellable(tokens[p.tok as usize].clone(), inner) } else { spawn(inner) };
                let log = log.clone();
                joiners.push(tokio::spawn(async move {
                    if tokio::time::timeout(hang_timeout(), handle.join()).await.is_err() {
                        return false;
                    }
                    let j = stamp();
                    log.lock().unwrap().push((j, format!("j{i}")));
                    if join_twice {
                        // "this must return immediately"
                        return tokio::time::timeout(Duration::from_millis(500), handle.join()).await.is_ok();
                    }
                    true
                }));
            }
            let mut hang = false;
            for j in joiners {
                if !j.await.unwrap_or(false) {
                    hang = true;
                }
            }
            for a in aux {
                let _ = a.await;
            }
            hang
        });
        let mut evs: Vec<(u64, String)> = log.lock().unwrap().drain(..).collect();
        evs.sort();
        self.last_obs = Some(if evs.is_empty() { "-".into() } else { evs.into_iter().map(|(_, t)| t).collect::<Vec<_>>().join(",") });
        if hang {
            HANGS.fetch_add(1, SeqCst);
            "hang".into()
        } else {
            "joined".into()
        }
    }
}

fn parse_script(s: &str) -> Option<VecDeque<Beh>> {
    if s == "-" {
        return Some(VecDeque::new());
    }
    s.chars()
        .map(|c| match c {
            'P' => Some(Beh::Pending),
            'R' => Some(Beh::Ready),
            'X' => Some(Beh::Panic),
            _ => None,
        })
        .collect()
}

impl Prop for C42 {
    fn id(&self) -> &'static str {
        "C42"
    }
    fn rule(&self) -> &'static str {
        "Controlled histories on a current-thread runtime (idle between ops) with the real spawn / spawn_cancellable: \
         1..6 tasks with scripted inner futures (pending/ready/panic at chosen polls, endless tasks), two cancellation \
         tokens cancelled at chosen points (before spawn, before the first poll, between polls, after the end), wake-ups, \
         a join probe on every handle after every scheduler tick, runtime shutdown with tasks in flight; exhaustive: every \
         script of length <= 3 x cancellable x cancel point. `race`: 1..5 tasks with random lifetimes, panics and \
         cancellation points on a 4-worker runtime with concurrent cancellers and joiners (2.5 s time-out = observable \
         hang), second join must return immediately; the stamped trace must be a run of the model. Non-trivial = every \
         op of a history that spawns a task, every race; distinct = distinct (op+trace, result)."
    }
    fn gen_ops(&mut self, rng: &mut Rng, tier: Tier, out: &mut Emitter) {
        let thorough = tier == Tier::Thorough;
        // 1. exhaustive: scripts of length <= 3 over {P,R,X}, cancellable or not, cancel at each point
        let mut scripts: Vec<String> = vec!["-".into()];
        for len in 1..=3 {
            let total = 3usize.pow(len);
            for code in 0..total {
                let mut x = code;
                let mut s = String::new();
                for _ in 0..len {
                    s.push(['P', 'R', 'X'][x % 3]);
                    x /= 3;
                }
                // drop scripts with behaviour after the end
                let end = s.find(['R', 'X']);
                if end.is_none() || end == Some(s.len() - 1) {
                    scripts.push(s);
                }
            }
        }
        for s in &scripts {
            for c in 0..=1 {
                for cancel_at in 0..=4usize {
                    if c == 0 && cancel_at > 1 && !thorough {
                        continue;
                    }
                    if cancel_at == 0 {
                        out.op("cancel t=0", "seq/exh", true);
                    }
                    out.op(format!("spawn c={c} t=0 script={s}"), "seq/exh", true);
                    out.op("join i=0", "seq/exh", true);
                    for round in 1..=4usize {
                        if cancel_at == round {
                            out.op("cancel t=0", "seq/exh", true);
                        }
                        out.op("tick", "seq/exh", true);
                        out.op("join i=0", "seq/exh", true);
                        out.op("wake i=0", "seq/exh", true);
                    }
                    out.op("shutdown", "seq/exh", true);
                    out.op("join i=0", "seq/exh", true);
                    out.op("reset", "seq/exh", false);
                }
            }
        }
        // 2. random controlled histories
        let hist = if thorough { 5000 } else { 300 };
        for _ in 0..hist {
            let mut n = 0u64;
            let len = rng.usize(6, 40);
            let mut down = false;
            let mut any = false;
            let mut lines = vec![];
            for _ in 0..len {
                let r = rng.below(100);
                let l = if (n < 6 && r < 22 && !down) || n == 0 {
                    let slen = rng.usize(0, 4);
                    let mut s: String = (0..slen).map(|_| 'P').collect();
                    match rng.below(4) {
                        0 => {}
                        1 => s.push('X'),
                        _ => s.push('R'),
                    }
                    if s.is_empty() {
                        s.push('-');
                    }
                    n += 1;
                    any = true;
                    format!("spawn c={} t={} script={s}", rng.below(2), rng.below(2))
                } else if r < 45 {
                    "tick".to_string()
                } else if r < 62 {
                    format!("wake i={}", rng.below(n + 1))
                } else if r < 72 {
                    format!("cancel t={}", rng.below(2))
                } else if r < 96 {
                    format!("join i={}", rng.below(n + 1))
                } else {
                    down = true;
                    "shutdown".to_string()
                };
                lines.push(l);
            }
            for l in lines {
                out.op(l, "seq/random", any);
            }
            // closing sweep: idle the runtime and probe every handle
            out.op("tick", "seq/random", any);
            for i in 0..n {
                out.op(format!("join i={i}"), "seq/random", any);
            }
            out.op("reset", "seq/random", false);
        }
        // 3. races
        let races = if thorough { 30000 } else { 1500 };
        for _ in 0..races {
            out.op(format!("race n={} seed={}", rng.usize(1, 5), rng.next_u64() >> 16), "race", true);
            out.op("reset", "race", false);
        }
    }

    fn observed(&mut self, _line: &str) -> Option<String> {
        self.last_obs.take()
    }

    fn run(&mut self, line: &str) -> String {
        self.last_obs = None;
        match opname(line) {
            "reset" => {
                self.reset();
                "ok".into()
            }
            "spawn" => {
                let (Some(c), Some(t), Some(script)) =
                    (arg_u64(line, "c"), arg_u64(line, "t"), arg(line, "script").and_then(parse_script))
                else {
                    return "bad-op".into();
                };
                if self.down {
                    return "down".into();
                }
                let id = self.handles.len();
                let inner = Scripted { id, script, ctl: self.ctl.clone() };
                let tok = self.tokens.entry(t).or_default().clone();
                let handle = {
                    let _g = self.rt().enter();
                    if c != 0 { spawn_cancellable(tok, inner) } else { spawn(inner) }
                };
                self.handles.push(handle);
                self.alive.push(true);
                format!("ok i={id}")
            }
            "tick" => {
                if self.down {
                    return "polled=- dropped=- alive=-".into();
                }
                self.rt().block_on(async {
                    for _ in 0..8 {
                        tokio::task::yield_now().await;
                    }
                });
                let (p, d) = self.take_events();
                format!("polled={} dropped={} alive={}", ids(&p), ids(&d), ids(&self.alive_ids()))
            }
            "wake" => {
                let Some(i) = arg_u64(line, "i") else { return "bad-op".into() };
                if self.down {
                    return "nowaker".into();
                }
                match self.ctl.wakers.lock().unwrap().remove(&(i as usize)) {
                    Some(w) => {
                        w.wake();
                        "ok".into()
                    }
                    None => "nowaker".into(),
                }
            }
            "cancel" => {
                let Some(t) = arg_u64(line, "t") else { return "bad-op".into() };
                self.tokens.entry(t).or_default().cancel();
                "ok".into()
            }
            "join" => {
                let Some(i) = arg_u64(line, "i") else { return "bad-op".into() };
                let Some(h) = self.handles.get(i as usize) else { return "notask".into() };
                let mut fut = std::pin::pin!(h.join());
                let mut cx = Context::from_waker(Waker::noop());
                let resolved = fut.as_mut().poll(&mut cx).is_ready();
                // `ended` = the harness has seen the inner future's Drop
                let ended = !self.alive[i as usize] || self.ctl.dropped.lock().unwrap().contains(&(i as usize));
                format!("{} ended={}", if resolved { "resolved" } else { "pending" }, ended as u8)
            }
            "shutdown" => {
                if self.down {
                    return "dropped=-".into();
                }
                let _ = self.take_events();
                self.rt();
                self.rt = None; // drops every task still in the runtime
                self.down = true;
                let (_, d) = self.take_events();
                format!("dropped={}", ids(&d))
            }
            "race" => {
                let (Some(n), Some(seed)) = (arg_u64(line, "n"), arg_u64(line, "seed")) else { return "bad-op".into() };
                self.race((n as usize).clamp(1, 8), seed)
            }
            _ => "bad-op".into(),
        }
    }
}

fn main() {
    main_for(C42::new());
}

//! C15 — Shwap identifiers and CIDs are bijective over valid ids.
use bytes::BytesMut;
use celestia_types::eds::EdsId;
use celestia_types::namespace_data::NamespaceDataId;
use celestia_types::nmt::Namespace;
use celestia_types::row::RowId;
use celestia_types::row_namespace_data::RowNamespaceDataId;
use celestia_types::sample::SampleId;
use cid::CidGeneric;
use multihash::Multihash;
use verif_harness::*;

struct C15;

fn err_kind(e: &celestia_types::Error) -> String {
    use celestia_types::Error::*;
    match e {
        ZeroBlockHeight => "ZeroBlockHeight".into(),
        InvalidLength(g, w) => format!("InvalidLength({g},{w})"),
        InvalidNamespaceSize => "InvalidNamespaceSize".into(),
        InvalidNamespaceV0 => "InvalidNamespaceV0".into(),
        InvalidNamespaceV255 => "InvalidNamespaceV255".into(),
        UnsupportedNamespaceVersion(n) => format!("UnsupportedNamespaceVersion({n})"),
        other => format!("Other({})", other.to_string().replace(' ', "_")),
    }
}

fn cid_err_kind(e: &blockstore::block::CidError) -> String {
    use blockstore::block::CidError::*;
    match e {
        InvalidCidCodec(c) => format!("InvalidCidCodec({c})"),
        InvalidMultihashLength(n) => format!("InvalidMultihashLength({n})"),
        InvalidMultihashCode(g, w) => format!("InvalidMultihashCode({g},{w})"),
        InvalidCid(_) => "InvalidCid".into(),
        other => format!("Other({})", other.to_string().replace(' ', "_")),
    }
}

/// abstract id `h:row:col:ns`
#[derive(Clone, Debug, PartialEq)]
struct AId {
    h: u64,
    row: u16,
    col: u16,
    ns: Vec<u8>,
}
fn show_id(i: &AId) -> String {
    format!("{}:{}:{}:{}", i.h, i.row, i.col, hx(&i.ns))
}

fn id_eds(x: &EdsId) -> AId {
    AId { h: x.block_height(), row: 0, col: 0, ns: vec![] }
}
fn id_row(x: &RowId) -> AId {
    AId { h: x.block_height(), row: x.index(), col: 0, ns: vec![] }
}
fn id_sample(x: &SampleId) -> AId {
    AId { h: x.block_height(), row: x.row_index(), col: x.column_index(), ns: vec![] }
}
fn id_rnd(x: &RowNamespaceDataId) -> AId {
    AId { h: x.block_height(), row: x.row_index(), col: 0, ns: x.namespace().as_bytes().to_vec() }
}
fn id_nd(x: &NamespaceDataId) -> AId {
    AId { h: x.block_height(), row: 0, col: 0, ns: x.namespace().as_bytes().to_vec() }
}

fn enc<F: FnOnce(&mut BytesMut)>(f: F) -> Vec<u8> {
    let mut b = BytesMut::new();
    f(&mut b);
    b.to_vec()
}

/// decode per kind: (abstract id, re-encoding)
fn decode_k(kind: &str, buf: &[u8]) -> Result<(AId, Vec<u8>), celestia_types::Error> {
    Ok(match kind {
        "eds" => {
            let x = EdsId::decode(buf)?;
            (id_eds(&x), enc(|b| x.encode(b)))
        }
        "row" => {
            let x = RowId::decode(buf)?;
            (id_row(&x), enc(|b| x.encode(b)))
        }
        "sample" => {
            let x = SampleId::decode(buf)?;
            (id_sample(&x), enc(|b| x.encode(b)))
        }
        "rnd" => {
            let x = RowNamespaceDataId::decode(buf)?;
            (id_rnd(&x), enc(|b| x.encode(b)))
        }
        "nd" => {
            let x = NamespaceDataId::decode(buf)?;
            (id_nd(&x), enc(|b| x.encode(b)))
        }
        _ => unreachable!(),
    })
}

fn of_cid(kind: &str, cid: CidGeneric<64>) -> Result<AId, blockstore::block::CidError> {
    Ok(match kind {
        "row" => id_row(&RowId::try_from(cid)?),
        "sample" => id_sample(&SampleId::try_from(cid)?),
        "rnd" => id_rnd(&RowNamespaceDataId::try_from(cid)?),
        _ => unreachable!(),
    })
}

fn show_cid_res(r: Result<AId, blockstore::block::CidError>) -> String {
    match r {
        Ok(i) => show_id(&i),
        Err(e) => format!("err:{}", cid_err_kind(&e)),
    }
}

fn cid_fields<const S: usize>(c: &CidGeneric<S>) -> String {
    let v: u64 = c.version().into();
    format!("{}:{}:{}:{}", v, c.codec(), c.hash().code(), hx(c.hash().digest()))
}

fn valid_ns(rng: &mut Rng) -> Vec<u8> {
    let mut b = vec![0u8; 29];
    match rng.below(6) {
        0 => {
            b = vec![0xff; 29];
            b[28] = rng.byte();
        }
        1 => {
            b[28] = rng.byte();
        }
        _ => {
            let n = rng.usize(1, 10);
            for i in 0..n {
                b[28 - i] = rng.byte();
            }
        }
    }
    b
}

fn height(rng: &mut Rng) -> u64 {
    match rng.below(8) {
        0 => 1,
        1 => u64::MAX,
        2 => *rng.pick(&[255u64, 256, 65535, 65536, 1 << 32, (1 << 32) - 1, 1 << 56, 1 << 63, u64::MAX - 1]),
        3 => rng.next_u64(),
        _ => rng.range(1, 5_000_000),
    }
}
fn index(rng: &mut Rng) -> u16 {
    match rng.below(6) {
        0 => 0,
        1 => u16::MAX,
        2 => *rng.pick(&[1u16, 127, 128, 255, 256, 511, 512, 32767, 32768]),
        _ => rng.range(0, 512) as u16,
    }
}

const KINDS: [&str; 5] = ["eds", "row", "sample", "rnd", "nd"];
const CID_KINDS: [&str; 3] = ["row", "sample", "rnd"];
fn size_of(kind: &str) -> usize {
    match kind {
        "eds" => 8,
        "row" => 10,
        "sample" => 12,
        "rnd" => 39,
        _ => 37,
    }
}
fn codes_of(kind: &str) -> (u64, u64) {
    match kind {
        "row" => (0x7800, 0x7801),
        "sample" => (0x7810, 0x7811),
        _ => (0x7820, 0x7821),
    }
}

impl Prop for C15 {
    fn id(&self) -> &'static str {
        "C15"
    }
    fn rule(&self) -> &'static str {
        "new: all five id kinds with random and boundary heights (0, 1, 2^k boundaries, u64::MAX), indices (0, u16::MAX, \
         byte boundaries) and valid v0/v255 namespaces: encode, decode back, to CID, CID back, CID bytes re-read; decode: \
         valid encodings and every single-field corruption (each length 0..size+2, zero height, every namespace byte \
         position corrupted, random bytes); cid: right and wrong codec / multihash code (other kinds' codes, off-by-one, \
         random) / digest length / digest content; cidbytes: honest CID bytes with every single prefix byte corrupted, \
         truncations, trailing bytes, CIDv0 prefix. Non-trivial = everything except purely random buffers."
    }
    fn gen_ops(&mut self, rng: &mut Rng, tier: Tier, out: &mut Emitter) {
        let rounds = if tier == Tier::Thorough { 2500 } else { 60 };
        for kind in KINDS {
            out.op(format!("new kind={kind} h=0 row=0 col=0 ns={}", if kind == "rnd" || kind == "nd" { hx(&valid_ns(rng)) } else { "-".into() }), "new/zero-height", true);
            // every length around the right one
            for len in 0..=size_of(kind) + 2 {
                let mut b = rng.bytes(len);
                if len > 8 {
                    // make it well formed apart from the length
                    for x in b.iter_mut().skip(if kind == "nd" { 8 } else { 10 }) {
                        *x = 0;
                    }
                }
                out.op(format!("decode kind={kind} buf={}", hx(&b)), "decode/length", true);
            }
        }
        for _ in 0..rounds {
            for kind in KINDS {
                let has_row = kind == "row" || kind == "sample" || kind == "rnd";
                let has_ns = kind == "rnd" || kind == "nd";
                let (h, r, c) = (height(rng), if has_row { index(rng) } else { 0 }, if kind == "sample" { index(rng) } else { 0 });
                let ns = if has_ns { valid_ns(rng) } else { vec![] };
                out.op(format!("new kind={kind} h={h} row={r} col={c} ns={}", hx(&ns)), "new/valid", true);
                // the honest encoding
                let mut buf = h.to_be_bytes().to_vec();
                if has_row {
                    buf.extend(r.to_be_bytes());
                }
                if kind == "sample" {
                    buf.extend(c.to_be_bytes());
                }
                buf.extend(&ns);
                out.op(format!("decode kind={kind} buf={}", hx(&buf)), "decode/valid", true);
                // single-field corruptions
                let mut z = buf.clone();
                for x in z.iter_mut().take(8) {
                    *x = 0;
                }
                out.op(format!("decode kind={kind} buf={}", hx(&z)), "decode/zero-height", true);
                let pos = rng.usize(0, buf.len() - 1);
                let mut m = buf.clone();
                m[pos] = m[pos].wrapping_add(rng.range(1, 255) as u8);
                out.op(format!("decode kind={kind} buf={}", hx(&m)), "decode/one-byte-corrupted", true);
                if has_ns {
                    let off = buf.len() - 29;
                    let pos = off + rng.usize(0, 28);
                    let mut m = buf.clone();
                    m[pos] = m[pos].wrapping_add(rng.range(1, 255) as u8);
                    out.op(format!("decode kind={kind} buf={}", hx(&m)), "decode/ns-byte-corrupted", true);
                }
                let mut t = buf.clone();
                if rng.bool() {
                    t.pop();
                } else {
                    t.push(rng.byte());
                }
                out.op(format!("decode kind={kind} buf={}", hx(&t)), "decode/length-off-by-one", true);
                out.op(format!("decode kind={kind} buf={}", hx(&rng.bytes(size_of(kind)))), "decode/random", false);

                if CID_KINDS.contains(&kind) {
                    let (codec, code) = codes_of(kind);
                    out.op(format!("cid kind={kind} codec={codec} code={code} digest={}", hx(&buf)), "cid/valid", true);
                    let other = *rng.pick(&CID_KINDS);
                    let (ocodec, ocode) = codes_of(other);
                    let rnd1 = rng.next_u64() >> 20;
                    let wc = *rng.pick(&[ocodec, codec + 1, codec - 1, code, 0x55, 0x70, rnd1]);
                    out.op(format!("cid kind={kind} codec={wc} code={code} digest={}", hx(&buf)), "cid/codec-changed", true);
                    let rnd2 = rng.next_u64() >> 20;
                    let wm = *rng.pick(&[ocode, code + 1, code - 1, codec, 0x12, 0, rnd2]);
                    out.op(format!("cid kind={kind} codec={codec} code={wm} digest={}", hx(&buf)), "cid/mhcode-changed", true);
                    out.op(format!("cid kind={kind} codec={codec} code={code} digest={}", hx(&t)), "cid/digest-length", true);
                    out.op(format!("cid kind={kind} codec={codec} code={code} digest={}", hx(&z)), "cid/digest-zero-height", true);
                    out.op(format!("cid kind={kind} codec={codec} code={code} digest={}", hx(&m)), "cid/digest-corrupted", true);
                    // byte level
                    let mh = Multihash::<64>::wrap(code, &buf).unwrap();
                    let bytes = CidGeneric::<64>::new_v1(codec, mh).to_bytes();
                    out.op(format!("cidbytes kind={kind} bytes={}", hx(&bytes)), "cidbytes/valid", true);
                    let prefix = bytes.len() - buf.len();
                    for p in 0..prefix {
                        let mut x = bytes.clone();
                        x[p] ^= 1 << rng.below(8);
                        out.op(format!("cidbytes kind={kind} bytes={}", hx(&x)), "cidbytes/prefix-bit-flipped", true);
                    }
                    let mut x = bytes.clone();
                    x.truncate(rng.usize(0, bytes.len() - 1));
                    out.op(format!("cidbytes kind={kind} bytes={}", hx(&x)), "cidbytes/truncated", true);
                    let mut x = bytes.clone();
                    let nt = rng.usize(1, 4);
                    x.extend(rng.bytes(nt));
                    out.op(format!("cidbytes kind={kind} bytes={}", hx(&x)), "cidbytes/trailing", true);
                    let mut v0 = vec![0x12, 0x20];
                    v0.extend(rng.bytes(32));
                    out.op(format!("cidbytes kind={kind} bytes={}", hx(&v0)), "cidbytes/cidv0", true);
                }
            }
        }
    }

    fn run(&mut self, line: &str) -> String {
        let Some(kind) = arg(line, "kind") else { return "bad-op".into() };
        if !KINDS.contains(&kind) {
            return "bad-op".into();
        }
        match opname(line) {
            "new" => {
                let (Some(h), Some(r), Some(c), Some(ns)) =
                    (arg_u64(line, "h"), arg_u64(line, "row"), arg_u64(line, "col"), arg_hex(line, "ns"))
                else {
                    return "bad-op".into();
                };
                let (r, c) = (r as u16, c as u16);
                let nsv = if ns.is_empty() { None } else { Namespace::from_raw(&ns).ok() };
                // returns (bytes, Option<(cid bytes, cid fields, cidback, cidread)>)
                type CidPart = (Vec<u8>, String, String, String);
                let res: Result<(Vec<u8>, Option<CidPart>), celestia_types::Error> = (|| {
                    Ok(match kind {
                        "eds" => {
                            let x = EdsId::new(h)?;
                            (enc(|b| x.encode(b)), None)
                        }
                        "nd" => {
                            let x = NamespaceDataId::new(nsv.expect("valid ns"), h)?;
                            (enc(|b| x.encode(b)), None)
                        }
                        "row" => {
                            let x = RowId::new(r, h)?;
                            let cid = CidGeneric::from(x);
                            let cb = cid.to_bytes();
                            let rd = CidGeneric::<64>::read_bytes(&cb[..]);
                            let part = (
                                cb.clone(),
                                cid_fields(&cid),
                                show_cid_res(RowId::try_from(cid).map(|x| id_row(&x))),
                                match rd {
                                    Ok(c2) => show_cid_res(of_cid(kind, c2)),
                                    Err(_) => "err:Read".into(),
                                },
                            );
                            (enc(|b| x.encode(b)), Some(part))
                        }
                        "sample" => {
                            let x = SampleId::new(r, c, h)?;
                            let cid = CidGeneric::from(x);
                            let cb = cid.to_bytes();
                            let rd = CidGeneric::<64>::read_bytes(&cb[..]);
                            let part = (
                                cb.clone(),
                                cid_fields(&cid),
                                show_cid_res(SampleId::try_from(cid).map(|x| id_sample(&x))),
                                match rd {
                                    Ok(c2) => show_cid_res(of_cid(kind, c2)),
                                    Err(_) => "err:Read".into(),
                                },
                            );
                            (enc(|b| x.encode(b)), Some(part))
                        }
                        _ => {
                            let x = RowNamespaceDataId::new(nsv.expect("valid ns"), r, h)?;
                            let cid = CidGeneric::from(x);
                            let cb = cid.to_bytes();
                            let rd = CidGeneric::<64>::read_bytes(&cb[..]);
                            let part = (
                                cb.clone(),
                                cid_fields(&cid),
                                show_cid_res(RowNamespaceDataId::try_from(cid).map(|x| id_rnd(&x))),
                                match rd {
                                    Ok(c2) => show_cid_res(of_cid(kind, c2)),
                                    Err(_) => "err:Read".into(),
                                },
                            );
                            (enc(|b| x.encode(b)), Some(part))
                        }
                    })
                })();
                match res {
                    Err(e) => format!("err {}", err_kind(&e)),
                    Ok((bytes, part)) => {
                        let back = match decode_k(kind, &bytes) {
                            Ok((i, _)) => show_id(&i),
                            Err(e) => format!("err:{}", err_kind(&e)),
                        };
                        match part {
                            None => format!("ok bytes={} back={back} cid=- cidf=- cidback=- cidread=-", hx(&bytes)),
                            Some((cb, f, b2, rd)) => {
                                format!("ok bytes={} back={back} cid={} cidf={f} cidback={b2} cidread={rd}", hx(&bytes), hx(&cb))
                            }
                        }
                    }
                }
            }
            "decode" => {
                let Some(buf) = arg_hex(line, "buf") else { return "bad-op".into() };
                match decode_k(kind, &buf) {
                    Ok((i, re)) => format!("ok id={} re={}", show_id(&i), hx(&re)),
                    Err(e) => format!("err {}", err_kind(&e)),
                }
            }
            "cid" => {
                let (Some(codec), Some(code), Some(digest)) = (arg_u64(line, "codec"), arg_u64(line, "code"), arg_hex(line, "digest")) else {
                    return "bad-op".into();
                };
                let Ok(mh) = Multihash::<64>::wrap(code, &digest) else { return "bad-op".into() };
                match of_cid(kind, CidGeneric::<64>::new_v1(codec, mh)) {
                    Ok(i) => format!("ok id={}", show_id(&i)),
                    Err(e) => format!("err {}", cid_err_kind(&e)),
                }
            }
            "cidbytes" => {
                let Some(bytes) = arg_hex(line, "bytes") else { return "bad-op".into() };
                match CidGeneric::<64>::read_bytes(&bytes[..]) {
                    Err(_) => "err Read".into(),
                    Ok(c) => match of_cid(kind, c) {
                        Ok(i) => format!("ok id={}", show_id(&i)),
                        Err(e) => format!("err {}", cid_err_kind(&e)),
                    },
                }
            }
            _ => "bad-op".into(),
        }
    }
}

fn main() {
    main_for(C15);
}

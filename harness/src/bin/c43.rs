//! C43 — Transaction submission keeps account sequences consistent.
//!
//! The REAL `GrpcClient::submit_message` (sign_and_broadcast_tx + confirm_tx) for any number of
//! concurrent submissions of one client, against an in-process fake node (public
//! `GrpcClientBuilder::transport`) and a recording signer (public `pubkey_and_signer`).  Every
//! node request stays pending until an op releases its answer, after every op all tasks run until they block: the interleaving is
//! decided by the op sequence, so the model predicts every line exactly.
#[path = "../shared/h2_fake_node.rs"]
mod fake_node;

use std::collections::{BTreeMap, HashMap};
use std::future::IntoFuture;
use std::sync::{Arc, Mutex};
use std::time::Duration;

use celestia_grpc::{DocSigner, GrpcClient, SignDoc, TxConfig};
use celestia_proto::celestia::core::v1::gas_estimation::{
    EstimateGasPriceAndUsageRequest, EstimateGasPriceAndUsageResponse, EstimateGasPriceResponse,
};
use celestia_proto::celestia::core::v1::tx::{TxStatusRequest, TxStatusResponse};
use celestia_proto::cosmos::auth::v1beta1::{BaseAccount as RawBaseAccount, QueryAccountResponse};
use celestia_proto::cosmos::bank::v1beta1::MsgSend;
use celestia_proto::cosmos::base::abci::v1beta1::TxResponse as RawTxResponse;
use celestia_proto::cosmos::base::tendermint::v1beta1::GetLatestBlockResponse;
use celestia_proto::cosmos::tx::v1beta1::{AuthInfo as RawAuthInfo, BroadcastTxRequest, BroadcastTxResponse, Tx as RawTx, TxBody as RawTxBody};
use celestia_types::block::{Block, Data};
use celestia_types::state::{AccAddress, Coin};
use celestia_types::test_utils::ExtendedHeaderGenerator;
use fake_node::{Answer, AsyncFakeNode};
use k256::ecdsa::signature::Signer;
use k256::ecdsa::{Signature, SigningKey};
use prost::Message;
use sha2::{Digest, Sha256};
use tokio::sync::oneshot;
use verif_harness::*;

const INTERVAL_MS: u64 = 1;
const PAT: &str = "account sequence mismatch, expected ";

type TxKey = (u64, u64, u64, u64); // sub, seq, gas, fee

#[derive(Default)]
struct Shared {
    /// ordered S / D events since the last op
    events: Vec<String>,
    /// distinct signed transactions in order of first signing
    txs: Vec<TxKey>,
    /// the bytes seen at the node for a transaction id (byte-identity check)
    bytes_of: HashMap<usize, Vec<u8>>,
    /// tx hash (hex, upper) -> id
    hash_of: HashMap<String, usize>,
    /// pending node requests: sub -> (rendered kind, tx bytes if any, release)
    pending: BTreeMap<u64, (String, char, Option<Vec<u8>>, oneshot::Sender<Answer>)>,
    results: BTreeMap<u64, String>,
    started: Vec<u64>,
}

fn tx_key(bytes: &[u8]) -> Option<TxKey> {
    // a blob submission broadcasts a BlobTx wrapping the signed transaction
    let inner = match celestia_types::blob::RawBlobTx::decode(bytes) {
        Ok(b) if b.type_id == "BLOB" => b.tx,
        _ => bytes.to_vec(),
    };
    let tx = RawTx::decode(inner.as_slice()).ok()?;
    let sub: u64 = tx.body.as_ref()?.memo.strip_prefix('s')?.parse().ok()?;
    let ai = tx.auth_info.as_ref()?;
    let seq = ai.signer_infos.first()?.sequence;
    let fee = ai.fee.as_ref()?;
    let amount: u64 = fee.amount.first().map(|c| c.amount.parse().unwrap_or(u64::MAX)).unwrap_or(0);
    Some((sub, seq, fee.gas_limit, amount))
}

impl Shared {
    fn id_of_key(&mut self, k: TxKey) -> usize {
        if let Some(i) = self.txs.iter().position(|x| *x == k) {
            i
        } else {
            self.txs.push(k);
            self.txs.len() - 1
        }
    }
    /// `t<id>` for tx bytes seen at the node; `t<id>!` if other bytes were seen for the same id before
    fn render_tx(&mut self, bytes: &[u8]) -> String {
        match tx_key(bytes) {
            None => "t?".into(),
            Some(k) => {
                let id = self.id_of_key(k);
                match self.bytes_of.get(&id) {
                    Some(b) if b.as_slice() != bytes => format!("t{id}!"),
                    Some(_) => format!("t{id}"),
                    None => {
                        self.bytes_of.insert(id, bytes.to_vec());
                        format!("t{id}")
                    }
                }
            }
        }
    }
}

struct RecordingSigner {
    key: SigningKey,
    shared: Arc<Mutex<Shared>>,
}

impl DocSigner for RecordingSigner {
    async fn try_sign(&self, doc: SignDoc) -> Result<Signature, k256::ecdsa::signature::Error> {
        let body = RawTxBody::decode(doc.body_bytes.as_slice()).ok();
        let ai = RawAuthInfo::decode(doc.auth_info_bytes.as_slice()).ok();
        if let (Some(body), Some(ai)) = (body, ai) {
            let sub: u64 = body.memo.strip_prefix('s').and_then(|x| x.parse().ok()).unwrap_or(u64::MAX);
            let seq = ai.signer_infos.first().map(|s| s.sequence).unwrap_or(u64::MAX);
            let (gas, fee) = ai
                .fee
                .map(|f| (f.gas_limit, f.amount.first().map(|c| c.amount.parse().unwrap_or(u64::MAX)).unwrap_or(0)))
                .unwrap_or((u64::MAX, u64::MAX));
            let mut sh = self.shared.lock().unwrap();
            let id = sh.id_of_key((sub, seq, gas, fee));
            sh.events.push(format!("S{sub}:{seq}:{gas}:{fee}:t{id}"));
        }
        let bytes = doc.encode_to_vec();
        Signer::try_sign(&self.key, &bytes)
    }
}

struct World {
    rt: tokio::runtime::Runtime,
    client: GrpcClient,
    shared: Arc<Mutex<Shared>>,
    address: AccAddress,
    block: Vec<u8>,
}

fn mismatch_msg(n: &str) -> String {
    format!("rpc error: code = Unknown desc = {PAT}{n}, got 1: incorrect account sequence")
}

fn tx_response(hash: &str, code: u32, log: &str) -> Vec<u8> {
    BroadcastTxResponse { tx_response: Some(RawTxResponse { txhash: hash.to_string(), code, raw_log: log.to_string(), ..Default::default() }) }
        .encode_to_vec()
}

const KNOWN_CODES: [u64; 11] = [0, 2, 3, 4, 5, 11, 13, 18, 19, 20, 32];

impl World {
    fn new() -> World {
        let rt = tokio::runtime::Builder::new_current_thread().enable_all().build().unwrap();
        let shared = Arc::new(Mutex::new(Shared::default()));
        let key = SigningKey::from_slice(&[7u8; 32]).unwrap();
        let pubkey = *key.verifying_key();
        let address = AccAddress::from(pubkey);
        let sh = shared.clone();
        let node = AsyncFakeNode {
            handler: Arc::new(move |headers, path, msg| {
                let sh = sh.clone();
                Box::pin(async move {
                    let sub: u64 = headers.get("x-sub").and_then(|v| v.to_str().ok()).and_then(|s| s.parse().ok()).unwrap_or(u64::MAX);
                    let (tx, rx) = oneshot::channel();
                    {
                        let mut s = sh.lock().unwrap();
                        let method = path.rsplit('/').next().unwrap_or("");
                        let (kind, rendered, bytes) = match method {
                            "GetLatestBlock" => ('L', "L".to_string(), None),
                            "Account" => ('G', "G".to_string(), None),
                            "EstimateGasPrice" => ('P', "P".to_string(), None),
                            "EstimateGasPriceAndUsage" => {
                                let b = EstimateGasPriceAndUsageRequest::decode(msg.as_slice()).map(|r| r.tx_bytes).unwrap_or_default();
                                ('E', format!("E:{}", s.render_tx(&b)), Some(b))
                            }
                            "BroadcastTx" => {
                                let b = BroadcastTxRequest::decode(msg.as_slice()).map(|r| r.tx_bytes).unwrap_or_default();
                                ('B', format!("B:{}", s.render_tx(&b)), Some(b))
                            }
                            "TxStatus" => {
                                let h = TxStatusRequest::decode(msg.as_slice()).map(|r| r.tx_id).unwrap_or_default().to_uppercase();
                                let t = s.hash_of.get(&h).map(|i| format!("t{i}")).unwrap_or("t?".into());
                                ('T', format!("T:{t}"), None)
                            }
                            other => ('?', format!("?{other}"), None),
                        };
                        if s.pending.insert(sub, (rendered, kind, bytes, tx)).is_some() {
                            s.events.push(format!("X{sub}:two-requests-pending"));
                        }
                    }
                    rx.await.unwrap_or(Answer::Transport("dropped".into()))
                })
            }),
        };
        let client = GrpcClient::builder()
            .transport(node)
            .pubkey_and_signer(pubkey, RecordingSigner { key, shared: shared.clone() })
            .build()
            .expect("client");
        let mut g = ExtendedHeaderGenerator::new();
        let eh = g.next();
        let block = Block::new(eh.header.clone(), Data { txs: vec![], square_size: 1, hash: vec![] }, Default::default(), None);
        let raw: celestia_proto::tendermint_celestia_mods::types::Block = block.into();
        let block = GetLatestBlockResponse { block_id: None, block: Some(raw), sdk_block: None }.encode_to_vec();
        World { rt, client, shared, address, block }
    }

    fn settle(&self) {
        self.rt.block_on(async {
            for _ in 0..300 {
                tokio::task::yield_now().await;
            }
        });
    }

    fn summary(&self) -> String {
        let mut s = self.shared.lock().unwrap();
        let ev = if s.events.is_empty() { "-".to_string() } else { s.events.join(",") };
        s.events.clear();
        let mut parts = vec![];
        for i in s.started.clone() {
            let st = if let Some(r) = s.results.get(&i) {
                r.clone()
            } else if let Some(p) = s.pending.get(&i) {
                p.0.clone()
            } else {
                "wait".to_string()
            };
            parts.push((i, st));
        }
        parts.sort();
        let st = if parts.is_empty() { "-".to_string() } else { parts.iter().map(|(i, t)| format!("{i}={t}")).collect::<Vec<_>>().join(";") };
        format!("ev={ev} st={st}")
    }

    fn start(&self, sub: u64, gl: Option<u64>, gp: Option<u64>, blob: bool) -> String {
        {
            let mut s = self.shared.lock().unwrap();
            if s.started.contains(&sub) {
                return "already-started".into();
            }
            s.started.push(sub);
        }
        let mut cfg = TxConfig::default().with_memo(format!("s{sub}")).with_confirmation_interval_ms(INTERVAL_MS);
        if let Some(g) = gl {
            cfg = cfg.with_gas_limit(g);
        }
        if let Some(q) = gp {
            cfg = cfg.with_gas_price(q as f64 / 4.0);
        }
        let call = if blob {
            // sign_and_broadcast_blobs: the same loop around a MsgPayForBlobs / BlobTx
            let ns = celestia_types::nmt::Namespace::new_v0(b"verif").unwrap();
            let b = celestia_types::Blob::new(ns, vec![sub as u8; 100], None, celestia_types::AppVersion::V1).unwrap();
            self.client.submit_blobs(&[b], cfg).metadata("x-sub", &sub.to_string()).expect("metadata")
        } else {
            let msg = MsgSend { from_address: self.address.to_string(), to_address: self.address.to_string(), amount: vec![Coin::utia(1).into()] };
            self.client.submit_message(msg, cfg).metadata("x-sub", &sub.to_string()).expect("metadata")
        };
        let sh = self.shared.clone();
        let _guard = self.rt.enter();
        self.rt.spawn(async move {
            let res = call.into_future().await;
            let r = match res {
                Ok(info) => format!("ok:{}", info.height),
                Err(e) => {
                    use celestia_grpc::Error::*;
                    match e {
                        TonicError(_) => "Tonic".to_string(),
                        TxBroadcastFailed(_, code, _) => format!("BroadcastFailed({})", code as u32),
                        SequenceParsingFailed(_) => "SequenceParsingFailed".to_string(),
                        TxExecutionFailed(_, code, _) => format!("ExecutionFailed({})", code as u32),
                        TxRejected(_, code, _) => format!("Rejected({})", code as u32),
                        TxEvicted(_) => "Evicted".to_string(),
                        TxNotFound(_) => "NotFound".to_string(),
                        other => format!("Other({})", other.to_string().replace([' ', ',', ';', ':'], "_").chars().take(60).collect::<String>()),
                    }
                }
            };
            let mut s = sh.lock().unwrap();
            s.events.push(format!("D{sub}:{r}"));
            s.results.insert(sub, r);
        });
        self.settle();
        self.summary()
    }

    fn answer(&self, sub: u64, a: &str) -> String {
        let entry = self.shared.lock().unwrap().pending.remove(&sub);
        let Some((_, kind, bytes, tx)) = entry else { return "no-pending".into() };
        let f: Vec<&str> = a.split(':').collect();
        let num = |i: usize| f.get(i).and_then(|x| x.parse::<u64>().ok());
        let fail = Answer::Status(13, "boom".into());
        let hash = bytes.as_ref().map(|b| hex::encode_upper(Sha256::digest(b))).unwrap_or_default();
        let ans = match (kind, f[0]) {
            ('L', "ok") => Answer::Msg(self.block.clone()),
            ('G', "seq") => {
                let acc = RawBaseAccount { address: self.address.to_string(), pub_key: None, account_number: 7, sequence: num(1).unwrap_or(0) };
                Answer::Msg(
                    QueryAccountResponse { account: Some(tendermint_proto::google::protobuf::Any { type_url: "/cosmos.auth.v1beta1.BaseAccount".into(), value: acc.encode_to_vec() }) }
                        .encode_to_vec(),
                )
            }
            ('P', "price") => Answer::Msg(EstimateGasPriceResponse { estimated_gas_price: num(1).unwrap_or(0) as f64 / 4.0 }.encode_to_vec()),
            ('E', "est") => Answer::Msg(
                EstimateGasPriceAndUsageResponse { estimated_gas_price: num(1).unwrap_or(0) as f64 / 4.0, estimated_gas_used: num(2).unwrap_or(0) }.encode_to_vec(),
            ),
            ('E', "mis") | ('E', "smis") | ('B', "smis") => Answer::Status(2, mismatch_msg(f.get(1).unwrap_or(&"0"))),
            ('E', "misbad") | ('E', "smisbad") | ('B', "smisbad") => Answer::Status(2, mismatch_msg("x1")),
            ('B', "ok") => {
                if let Some(b) = &bytes {
                    let mut s = self.shared.lock().unwrap();
                    if let Some(k) = tx_key(b) {
                        let id = s.id_of_key(k);
                        s.hash_of.insert(hash.clone(), id);
                    }
                }
                Answer::Msg(tx_response(&hash, 0, ""))
            }
            ('B', "cache") => {
                if let Some(b) = &bytes {
                    let mut s = self.shared.lock().unwrap();
                    if let Some(k) = tx_key(b) {
                        let id = s.id_of_key(k);
                        s.hash_of.insert(hash.clone(), id);
                    }
                }
                Answer::Msg(tx_response(&hash, 19, "tx already in mempool cache"))
            }
            ('B', "mis") => Answer::Msg(tx_response(&hash, 32, &mismatch_msg(f.get(1).unwrap_or(&"0")))),
            ('B', "misbad") => Answer::Msg(tx_response(&hash, 32, "account sequence mismatch, expected , got 3")),
            ('B', "code") => match num(1) {
                Some(0) => {
                    if let Some(b) = &bytes {
                        let mut s = self.shared.lock().unwrap();
                        if let Some(k) = tx_key(b) {
                            let id = s.id_of_key(k);
                            s.hash_of.insert(hash.clone(), id);
                        }
                    }
                    Answer::Msg(tx_response(&hash, 0, ""))
                }
                Some(c) if KNOWN_CODES.contains(&c) => Answer::Msg(tx_response(&hash, c as u32, "boom")),
                _ => fail,
            },
            ('T', "pending") => Answer::Msg(TxStatusResponse { status: "PENDING".into(), ..Default::default() }.encode_to_vec()),
            ('T', "committed") => match (num(1), num(2)) {
                (Some(c), Some(h)) if KNOWN_CODES.contains(&c) => Answer::Msg(
                    TxStatusResponse { height: h as i64, index: 0, execution_code: c as u32, error: "e".into(), status: "COMMITTED".into() }.encode_to_vec(),
                ),
                _ => fail,
            },
            ('T', "rejected") => match num(1) {
                Some(c) if KNOWN_CODES.contains(&c) => Answer::Msg(
                    TxStatusResponse { height: 0, index: 0, execution_code: c as u32, error: "e".into(), status: "REJECTED".into() }.encode_to_vec(),
                ),
                _ => fail,
            },
            ('T', "evicted") => Answer::Msg(TxStatusResponse { status: "EVICTED".into(), ..Default::default() }.encode_to_vec()),
            ('T', "unknown") => Answer::Msg(TxStatusResponse { status: "UNKNOWN".into(), ..Default::default() }.encode_to_vec()),
            _ => fail,
        };
        let pending = kind == 'T' && f[0] == "pending";
        let _ = tx.send(ans);
        self.settle();
        if pending {
            // the confirmation loop sleeps one interval (1 ms, real clock) and polls again: wait for that
            self.rt.block_on(async { tokio::time::sleep(Duration::from_millis(5 * INTERVAL_MS)).await });
            self.settle();
        }
        self.summary()
    }
}

struct C43 {
    world: Option<World>,
}

/// generator-side mirror of what each submission is waiting for (just enough to pick sensible answers)
#[derive(Clone, Copy, PartialEq, Debug)]
enum G {
    Unknown,
}

fn pick_answer(rng: &mut Rng, kind: char, hostile: bool) -> String {
    // (u64::MAX is left out: `sequence += 1` after an accepted broadcast overflows there — a debug-build
    // panic / release wrap-around noted in design_notes/C43.md; the model counts in unbounded naturals)
    let seq = |rng: &mut Rng| match rng.below(6) {
        0 => 0,
        1 => 1u64 << 63,
        2 => rng.next_u64() >> 2,
        _ => rng.range(0, 50),
    };
    let code = |rng: &mut Rng| *rng.pick(&[2u64, 4, 5, 11, 13, 18, 20]);
    match kind {
        'L' => if rng.chance(9, 10) { "ok".into() } else { "fail".into() },
        'G' => if rng.chance(9, 10) { format!("seq:{}", seq(rng)) } else { "fail".into() },
        'P' => if rng.chance(9, 10) { format!("price:{}", rng.range(0, 9)) } else { "fail".into() },
        'E' => match rng.below(if hostile { 8 } else { 14 }) {
            0 | 1 => format!("mis:{}", seq(rng)),
            2 => "misbad".into(),
            3 => "fail".into(),
            _ => format!("est:{}:{}", rng.range(0, 9), rng.range(0, 300)),
        },
        'B' => match rng.below(if hostile { 9 } else { 16 }) {
            0 => format!("mis:{}", seq(rng)),
            1 => format!("smis:{}", seq(rng)),
            2 => "misbad".into(),
            3 => "smisbad".into(),
            4 => format!("code:{}", code(rng)),
            5 => "fail".into(),
            6 | 7 => "cache".into(),
            _ => "ok".into(),
        },
        'T' => match rng.below(if hostile { 8 } else { 12 }) {
            0 | 1 => "evicted".into(),
            2 => "unknown".into(),
            3 => format!("rejected:{}", *rng.pick(&[3u64, 32, 5, 11, 13, 2])),
            4 => format!("rejected:{}", code(rng)),
            5 => format!("committed:{}:{}", code(rng), rng.range(1, 1000)),
            6 => "fail".into(),
            7 | 8 => format!("committed:0:{}", rng.range(1, 1000)),
            _ => "pending".into(),
        },
        _ => "ok".into(),
    }
}

impl Prop for C43 {
    fn id(&self) -> &'static str {
        "C43"
    }
    fn rule(&self) -> &'static str {
        "histories of one real GrpcClient with 1..6 concurrent submit_message / submit_blobs calls (gas limit/price set, price only \
         estimated, or both estimated through a simulated signed tx), driven op by op: start a submission, release the \
         node's answer to one pending request (latest block, account, gas price, gas estimate, broadcast, tx status) \
         with a random script of answers (ok, sequence mismatch with an expected value in a TxResponse or in a gRPC \
         status, unparsable mismatch, mempool-cache hit, other codes, transport failure, pending, committed, rejected \
         with sequence and non-sequence codes, evicted, unknown) (after `pending` the client's 1 ms confirmation interval is waited out).  The generator runs the real client while generating so that every answer targets a request that is \
         actually pending; S10 size-threshold histories (tags bigK/…): burst histories with K = 9 / 17 / 33 / 65 (thorough also 8 / 16 / 32 / 64 / 129) \
         concurrent submissions and answer scripts of 2K+60..2K+80 (thorough ..2K+500) steps; the model must reproduce every line (sign events with sequence/gas/fee/byte identity, pending \
         requests, results).  Plus extract_sequence on real and mutated messages.  Non-trivial = every op."
    }
    fn gen_ops(&mut self, rng: &mut Rng, tier: Tier, out: &mut Emitter) {
        let histories = if tier == Tier::Thorough { 1500 } else { 120 };
        // S10 size-threshold stress: after the regular histories, burst histories with 9 / 17 / 33 / 65 concurrent
        // submissions (thorough also 8 / 16 / 32 / 64 / 129) and long answer scripts
        let big_ks: &[usize] = if tier == Tier::Thorough { &[8, 9, 16, 17, 32, 33, 64, 65, 129] } else { &[9, 17, 33, 65] };
        let big_histories = if tier == Tier::Thorough { 36 } else { big_ks.len() };
        for hno in 0..histories + big_histories {
            out.op("new", "new", true);
            let w = World::new();
            let big = if hno >= histories { big_ks[(hno - histories) % big_ks.len()] } else { 0 };
            let k = if big > 0 { big } else { rng.usize(1, 6) };
            let hostile = rng.chance(1, 3);
            let mut next_sub = 0u64;
            let steps = if big > 0 {
                2 * big + rng.usize(60, if tier == Tier::Thorough { 500 } else { 80 })
            } else {
                rng.usize(5, if tier == Tier::Thorough { 120 } else { 60 })
            };
            // during initialisation (latest block + account) only one submission runs in most histories
            // (big histories: always concurrent, otherwise a failed initialisation of submission 0 ends the history)
            let concurrent_init = hno % 4 == 0 || big > 0;
            // burst histories: all submissions are started right away, so that most of them queue on the mutex
            let burst = hno % 3 == 1 || big > 0;
            for _ in 0..steps {
                let pend: Vec<(u64, char)> = w.shared.lock().unwrap().pending.iter().map(|(i, p)| (*i, p.1)).collect();
                let init_done = w.shared.lock().unwrap().txs.len() > 0;
                let can_start = (next_sub as usize) < k && (next_sub == 0 || init_done || concurrent_init);
                let choice = rng.below(10);
                let line = if can_start && (pend.is_empty() || choice < if burst { 8 } else { 3 }) {
                    let (gl, gp) = match rng.below(4) {
                        0 => (None, None),
                        1 => (None, Some(rng.range(0, 9))),
                        2 => (Some(rng.range(0, 300)), None),
                        _ => (Some(rng.range(0, 300)), Some(rng.range(0, 9))),
                    };
                    let f = |x: Option<u64>| x.map(|v| v.to_string()).unwrap_or("-".into());
                    // blob submissions only once the chain state is known (submit_blobs asks for the app
                    // version outside the per-call context, so that request could not be attributed)
                    let blob = init_done && rng.chance(2, 5);
                    let l = format!("start sub={next_sub} gl={} gp={} kind={}", f(gl), f(gp), if blob { "blob" } else { "msg" });
                    w.start(next_sub, gl, gp, blob);
                    next_sub += 1;
                    l
                } else if !pend.is_empty() && choice < 9 {
                    let (i, kind) = *rng.pick(&pend);
                    let a = pick_answer(rng, kind, hostile);
                    w.answer(i, &a);
                    format!("ans sub={i} a={a}")
                } else if choice == 9 && rng.chance(1, 6) {
                    // an answer for a submission that has nothing pending
                    let i = rng.below(k as u64 + 1);
                    let l = format!("ans sub={i} a=ok");
                    w.answer(i, "ok");
                    l
                } else {
                    continue;
                };
                let tag = line.split(' ').next().unwrap().to_string();
                let tag = if tag == "ans" { format!("ans/{}", line.split("a=").nth(1).unwrap().split(':').next().unwrap()) } else { tag };
                let tag = if big > 0 { format!("big{big}/{tag}") } else { tag };
                out.op(line, &tag, true);
            }
        }
        // extract_sequence
        let msgs = [
            "account sequence mismatch, expected 12, got 10: incorrect account sequence",
            "rpc error: code = Unknown desc = account sequence mismatch, expected 0, got 5",
            "account sequence mismatch, expected 18446744073709551615, got 1",
            "account sequence mismatch, expected 18446744073709551616, got 1",
            "account sequence mismatch, expected +7, got 1",
            "account sequence mismatch, expected -7, got 1",
            "account sequence mismatch, expected 7",
            "account sequence mismatch, expected , got",
            "account sequence mismatch, expected 1 2, got",
            "account sequence mismatch, expected account sequence mismatch, expected 5, got 1",
            "x account sequence mismatch, expected 3,account sequence mismatch, expected 4,",
            "account sequence mismatch expected 3, got",
            "",
            ",",
            "account sequence mismatch, expected 007,",
        ];
        for m in msgs {
            out.op(format!("extract msg={}", natl(&m.chars().map(|c| c as u32).collect::<Vec<_>>())), "extract/fixed", true);
        }
        for _ in 0..(if tier == Tier::Thorough { 3000 } else { 200 }) {
            let mut m: Vec<char> = format!("{}{PAT}{}, got {}", *rng.pick(&["", "rpc error: ", "a", "account "]), rng.next_u64() >> rng.below(64), rng.below(9)).chars().collect();
            match rng.below(4) {
                0 => {
                    let i = rng.usize(0, m.len() - 1);
                    m.remove(i);
                }
                1 => {
                    let i = rng.usize(0, m.len());
                    m.insert(i, *rng.pick(&[',', '1', ' ', 'a', 'é']));
                }
                _ => {}
            }
            out.op(format!("extract msg={}", natl(&m.iter().map(|c| *c as u32).collect::<Vec<_>>())), "extract/random", true);
        }
        let _ = G::Unknown;
    }
    fn run(&mut self, line: &str) -> String {
        match opname(line) {
            "new" | "reset" => {
                self.world = Some(World::new());
                "ok".into()
            }
            "extract" => match arg(line, "msg").and_then(unnatl) {
                Some(cps) => {
                    let s: Option<String> = cps.into_iter().map(|c| char::from_u32(c as u32)).collect();
                    match s {
                        Some(s) => match celestia_grpc::verif::client::extract_sequence_hook(&s) {
                            Some(n) => format!("ok {n}"),
                            None => "err".into(),
                        },
                        None => "bad-op".into(),
                    }
                }
                None => "bad-op".into(),
            },
            op => {
                if self.world.is_none() {
                    self.world = Some(World::new());
                }
                let w = self.world.as_ref().unwrap();
                let opt = |k: &str| -> Option<Option<u64>> {
                    let v = arg(line, k)?;
                    if v == "-" { Some(None) } else { v.parse().ok().map(Some) }
                };
                match op {
                    "start" => match (arg_u64(line, "sub"), opt("gl"), opt("gp")) {
                        (Some(i), Some(gl), Some(gp)) => w.start(i, gl, gp, arg(line, "kind") == Some("blob")),
                        _ => "bad-op".into(),
                    },
                    "ans" => match (arg_u64(line, "sub"), arg(line, "a")) {
                        (Some(i), Some(a)) => w.answer(i, a),
                        _ => "bad-op".into(),
                    },
                    _ => "bad-op".into(),
                }
            }
        }
    }
    fn result_tag(&self, _line: &str, result: &str) -> Option<String> {
        Some(result.split(['=', ' ']).next().unwrap_or("").to_string())
    }
}

fn main() {
    main_for(C43 { world: None });
}

//! C45 — Verified balances are backed by a proof to the header's app hash.
//!
//! `balance`: the REAL `GrpcClient::get_verified_balance` against an in-process fake node (public
//! `GrpcClientBuilder::transport`) that answers the ABCI query with the response carried by the op
//! line.  `verify`: the REAL `ProofChain::try_from(ProofOps)` + `verify_membership` (hook re-export)
//! with arbitrary key lists.  Proof chains are built here for random stores with IAVL-style and
//! simple (tendermint) ics23 specs; the op line carries the raw protobuf (for the implementation)
//! and the abstract view of it (for the model), and `run` re-derives the view from the raw bytes.
#[path = "../shared/h2_fake_node.rs"]
mod fake_node;

use std::sync::{Arc, Mutex};

use celestia_grpc::GrpcClient;
use celestia_grpc::verif::abci_proofs::{ProofChain, ProofError};
use celestia_proto::cosmos::base::tendermint::v1beta1::{AbciQueryRequest, AbciQueryResponse as RawResp, ProofOp, ProofOps};
use celestia_types::ExtendedHeader;
use celestia_types::state::{AccAddress, Address, Id};
use celestia_types::test_utils::ExtendedHeaderGenerator;
use fake_node::{Answer, FakeNode};
use ics23::commitment_proof::Proof;
use ics23::{CommitmentProof, ExistenceProof, HashOp, InnerOp, LeafOp, LengthOp};
use prost::Message;
use sha2::{Digest, Sha256};
use verif_harness::*;

struct H;
impl ics23::HostFunctionsProvider for H {
    fn sha2_256(m: &[u8]) -> [u8; 32] {
        Sha256::digest(m).into()
    }
    fn sha2_512(_: &[u8]) -> [u8; 64] {
        [0; 64]
    }
    fn sha2_512_truncated(_: &[u8]) -> [u8; 32] {
        [0; 32]
    }
    fn keccak_256(_: &[u8]) -> [u8; 32] {
        [0; 32]
    }
    fn ripemd160(_: &[u8]) -> [u8; 20] {
        [0; 20]
    }
    fn blake2b_512(_: &[u8]) -> [u8; 64] {
        [0; 64]
    }
    fn blake2s_256(_: &[u8]) -> [u8; 32] {
        [0; 32]
    }
    fn blake3(_: &[u8]) -> [u8; 32] {
        [0; 32]
    }
}

fn sha(b: &[u8]) -> Vec<u8> {
    Sha256::digest(b).to_vec()
}

fn varint(mut x: u64, out: &mut Vec<u8>) {
    while x >= 0x80 {
        out.push((x as u8) | 0x80);
        x >>= 7;
    }
    out.push(x as u8);
}
fn zigzag(x: i64, out: &mut Vec<u8>) {
    varint(((x << 1) ^ (x >> 63)) as u64, out)
}

#[derive(Clone, Copy, PartialEq, Debug)]
enum SpecK {
    Iavl,
    Simple,
}

/// A random binary tree over `leaves` hashed the way the given ics23 spec expects; returns the
/// root and one existence proof per leaf.
fn build_tree(kind: SpecK, leaves: &[(Vec<u8>, Vec<u8>)], version: i64, rng: &mut Rng) -> (Vec<u8>, Vec<ExistenceProof>) {
    let leaf_prefix = match kind {
        SpecK::Simple => vec![0u8],
        SpecK::Iavl => {
            let mut p = vec![];
            zigzag(0, &mut p);
            zigzag(1, &mut p);
            zigzag(version, &mut p);
            p
        }
    };
    let mut proofs: Vec<ExistenceProof> = leaves
        .iter()
        .map(|(k, v)| ExistenceProof {
            key: k.clone(),
            value: v.clone(),
            leaf: Some(LeafOp {
                hash: HashOp::Sha256.into(),
                prehash_key: HashOp::NoHash.into(),
                prehash_value: HashOp::Sha256.into(),
                length: LengthOp::VarProto.into(),
                prefix: leaf_prefix.clone(),
            }),
            path: vec![],
        })
        .collect();
    // returns (hash, height)
    fn go(kind: SpecK, leaf_prefix: &[u8], leaves: &[(Vec<u8>, Vec<u8>)], lo: usize, hi: usize, version: i64, rng: &mut Rng, proofs: &mut [ExistenceProof]) -> (Vec<u8>, i64) {
        if hi - lo == 1 {
            let (k, v) = &leaves[lo];
            let mut img = leaf_prefix.to_vec();
            varint(k.len() as u64, &mut img);
            img.extend_from_slice(k);
            let hv = sha(v);
            varint(hv.len() as u64, &mut img);
            img.extend_from_slice(&hv);
            return (sha(&img), 0);
        }
        let mid = lo + 1 + rng.below((hi - lo - 1) as u64) as usize;
        let (l, hl) = go(kind, leaf_prefix, leaves, lo, mid, version, rng, proofs);
        let (r, hr) = go(kind, leaf_prefix, leaves, mid, hi, version, rng, proofs);
        let height = 1 + hl.max(hr);
        let (left_op, right_op, hash) = match kind {
            SpecK::Simple => {
                let mut img = vec![1u8];
                img.extend_from_slice(&l);
                img.extend_from_slice(&r);
                let mut rp = vec![1u8];
                rp.extend_from_slice(&l);
                (
                    InnerOp { hash: HashOp::Sha256.into(), prefix: vec![1u8], suffix: r.clone() },
                    InnerOp { hash: HashOp::Sha256.into(), prefix: rp, suffix: vec![] },
                    sha(&img),
                )
            }
            SpecK::Iavl => {
                let mut pfx = vec![];
                zigzag(height, &mut pfx);
                zigzag((hi - lo) as i64, &mut pfx);
                zigzag(version, &mut pfx);
                let mut lp = pfx.clone();
                lp.push(0x20);
                let mut ls = vec![0x20];
                ls.extend_from_slice(&r);
                let mut rp = lp.clone();
                rp.extend_from_slice(&l);
                rp.push(0x20);
                let mut img = rp.clone();
                img.extend_from_slice(&r);
                (
                    InnerOp { hash: HashOp::Sha256.into(), prefix: lp, suffix: ls },
                    InnerOp { hash: HashOp::Sha256.into(), prefix: rp, suffix: vec![] },
                    sha(&img),
                )
            }
        };
        for p in &mut proofs[lo..mid] {
            p.path.push(left_op.clone());
        }
        for p in &mut proofs[mid..hi] {
            p.path.push(right_op.clone());
        }
        (hash, height)
    }
    let (root, _) = go(kind, &leaf_prefix, leaves, 0, leaves.len(), version, rng, &mut proofs);
    (root, proofs)
}

fn exist(ep: ExistenceProof) -> CommitmentProof {
    CommitmentProof { proof: Some(Proof::Exist(ep)) }
}

fn bank_key(addr: &[u8]) -> Vec<u8> {
    let mut k = vec![0x02, addr.len() as u8];
    k.extend_from_slice(addr);
    k.extend_from_slice(b"utia");
    k
}

// ---------------------------------------------------------------- abstract view of raw protobuf

fn calc(ep: &ExistenceProof, spec: &ics23::ProofSpec) -> String {
    match ics23::calculate_existence_root::<H>(ep) {
        Ok(r) => {
            if ics23::verify_membership::<H>(&exist(ep.clone()), spec, &r, &ep.key, &ep.value) {
                hx(&r)
            } else {
                "~".into()
            }
        }
        Err(_) => "~".into(),
    }
}

fn view_entry(ep: &ExistenceProof) -> String {
    format!("{}:{}:{}:{}", hx(&ep.key), hx(&ep.value), calc(ep, &ics23::iavl_spec()), calc(ep, &ics23::tendermint_spec()))
}

fn view_op(op: &ProofOp) -> String {
    let ty = match op.r#type.as_str() {
        "ics23:iavl" => "iavl",
        "ics23:simple" => "simple",
        _ => "unsup",
    };
    let proof = match CommitmentProof::decode(op.data.as_slice()) {
        Err(_) => "D".to_string(),
        Ok(cp) => match cp.proof {
            Some(Proof::Exist(ep)) => format!("E:{}", view_entry(&ep)),
            Some(Proof::Batch(b)) => {
                let mut s = "B".to_string();
                for e in &b.entries {
                    match &e.proof {
                        Some(ics23::batch_entry::Proof::Exist(ep)) => s.push_str(&format!("|e:{}", view_entry(ep))),
                        _ => s.push_str("|o"),
                    }
                }
                s
            }
            _ => "X".to_string(),
        },
    };
    format!("{ty};{};{proof}", hx(&op.key))
}

fn view_ops(ops: &Option<ProofOps>) -> String {
    match ops {
        None => "none".into(),
        Some(p) if p.ops.is_empty() => "-".into(),
        Some(p) => p.ops.iter().map(view_op).collect::<Vec<_>>().join("/"),
    }
}

/// The verdicts of the REAL `ics23::verify_membership` on every query the chain check can make for
/// this answer: operation `i` with key `i`, every root the next operation commits to (the trusted
/// root for the last one), every leaf (the given leaf for the first operation, otherwise every
/// value operation `i` itself commits to).  `i:root:key:leaf:0|1`, comma separated.
fn vm_table(ops: &Option<ProofOps>, keys: &[Vec<u8>], leaf: &[u8], root: &[u8]) -> String {
    let Some(ops) = ops else { return "-".into() };
    let decoded: Vec<Option<(ics23::ProofSpec, CommitmentProof)>> = ops
        .ops
        .iter()
        .map(|op| {
            let spec = match op.r#type.as_str() {
                "ics23:iavl" => ics23::iavl_spec(),
                "ics23:simple" => ics23::tendermint_spec(),
                _ => return None,
            };
            CommitmentProof::decode(op.data.as_slice()).ok().map(|cp| (spec, cp))
        })
        .collect();
    let cands = |i: usize| -> Vec<Vec<u8>> {
        match decoded.get(i).and_then(|d| d.as_ref()).and_then(|(_, cp)| cp.proof.as_ref()) {
            Some(Proof::Exist(ep)) => vec![ep.value.clone()],
            Some(Proof::Batch(b)) => b
                .entries
                .iter()
                .filter_map(|e| match &e.proof {
                    Some(ics23::batch_entry::Proof::Exist(ep)) => Some(ep.value.clone()),
                    _ => None,
                })
                .collect(),
            _ => vec![],
        }
    };
    let n = decoded.len();
    let mut out: Vec<String> = vec![];
    for i in 0..n {
        let (Some((spec, cp)), Some(key)) = (&decoded[i], keys.get(i)) else { continue };
        let roots = if i + 1 < n { cands(i + 1) } else { vec![root.to_vec()] };
        let leaves = if i == 0 { vec![leaf.to_vec()] } else { cands(i) };
        for r in &roots {
            for l in &leaves {
                let b = ics23::verify_membership::<H>(cp, spec, r, key, l);
                let e = format!("{i}:{}:{}:{}:{}", hx(r), hx(key), hx(l), b as u8);
                if !out.contains(&e) {
                    out.push(e);
                }
            }
        }
    }
    if out.is_empty() { "-".into() } else { out.join(",") }
}

// ---------------------------------------------------------------- scenario generation

struct Honest {
    addr: [u8; 20],
    value: Vec<u8>,
    app_hash: Vec<u8>,
    bank_root: Vec<u8>,
    ep_bank: ExistenceProof,
    ep_ms: ExistenceProof,
    /// another account in the same bank store (its address and proof)
    other_addr: [u8; 20],
    ep_other: ExistenceProof,
    /// another store entry of the multistore
    ep_ms_other: ExistenceProof,
}

fn honest(rng: &mut Rng, value: Vec<u8>) -> Honest {
    let n = rng.usize(2, 9);
    let mut accounts: Vec<([u8; 20], Vec<u8>)> = (0..n)
        .map(|_| {
            let mut a = [0u8; 20];
            a.copy_from_slice(&rng.bytes(20));
            (a, rng.range(1, 1_000_000_000).to_string().into_bytes())
        })
        .collect();
    let me = rng.usize(0, n - 1);
    accounts[me].1 = value.clone();
    // the "other" account has the SAME balance as ours in half of the cases
    let other = (me + 1) % n;
    if rng.bool() {
        accounts[other].1 = value.clone();
    }
    let leaves: Vec<(Vec<u8>, Vec<u8>)> = accounts.iter().map(|(a, v)| (bank_key(a), v.clone())).collect();
    let version = rng.range(1, 5_000_000) as i64;
    let (bank_root, bank_proofs) = build_tree(SpecK::Iavl, &leaves, version, rng);
    let mut stores: Vec<(Vec<u8>, Vec<u8>)> =
        ["acc", "authz", "bank", "blob", "gov", "staking"].iter().map(|s| (s.as_bytes().to_vec(), rng.bytes(32))).collect();
    stores.truncate(rng.usize(3, 6));
    stores[2].1 = bank_root.clone();
    let (app_hash, ms_proofs) = build_tree(SpecK::Simple, &stores, 0, rng);
    Honest {
        addr: accounts[me].0,
        value,
        app_hash,
        bank_root,
        ep_bank: bank_proofs[me].clone(),
        ep_ms: ms_proofs[2].clone(),
        other_addr: accounts[other].0,
        ep_other: bank_proofs[other].clone(),
        ep_ms_other: ms_proofs[0].clone(),
    }
}

fn op(ty: &str, key: &[u8], cp: &CommitmentProof) -> ProofOp {
    ProofOp { r#type: ty.into(), key: key.to_vec(), data: cp.encode_to_vec() }
}

fn batch(entries: Vec<Option<ExistenceProof>>) -> CommitmentProof {
    CommitmentProof {
        proof: Some(Proof::Batch(ics23::BatchProof {
            entries: entries
                .into_iter()
                .map(|e| ics23::BatchEntry {
                    proof: Some(match e {
                        Some(ep) => ics23::batch_entry::Proof::Exist(ep),
                        None => ics23::batch_entry::Proof::Nonexist(ics23::NonExistenceProof { key: vec![1], left: None, right: None }),
                    }),
                })
                .collect(),
        })),
    }
}

fn balance_line(addr: &[u8; 20], hh: u64, app_hash: &[u8], call: &str, resp: &RawResp) -> String {
    format!(
        "balance addr={} hh={hh} apphash={} call={call} code={} value={} ops={} vq={} raw={}",
        hx(addr),
        hx(app_hash),
        resp.code,
        hx(&resp.value),
        view_ops(&resp.proof_ops),
        vm_table(&resp.proof_ops, &[bank_key(addr), b"bank".to_vec()], &resp.value, app_hash),
        hx(&resp.encode_to_vec())
    )
}

fn flip(b: &mut [u8], rng: &mut Rng) {
    if !b.is_empty() {
        let i = rng.usize(0, b.len() - 1);
        b[i] ^= 1 << rng.below(8);
    }
}

struct C45 {
    rt: tokio::runtime::Runtime,
    header: ExtendedHeader,
}

impl C45 {
    fn scenario(&self, rng: &mut Rng, out: &mut Emitter, which: u64) {
        let amount = match rng.below(6) {
            0 => 0u64,
            1 => u64::MAX,
            2 => rng.range(1, 9),
            _ => rng.next_u64() >> rng.below(60),
        };
        let h = honest(rng, amount.to_string().into_bytes());
        let hh = match rng.below(6) {
            0 => 0,
            1 => 1,
            2 => 2,
            3 => 3,
            _ => rng.range(4, 10_000_000),
        };
        let key = bank_key(&h.addr);
        let good_ops = || vec![op("ics23:iavl", &key, &exist(h.ep_bank.clone())), op("ics23:simple", b"bank", &exist(h.ep_ms.clone()))];
        let mut resp = RawResp { code: 0, value: h.value.clone(), proof_ops: Some(ProofOps { ops: good_ops() }), height: 1.max(hh.saturating_sub(1)) as i64, ..Default::default() };
        let mut addr = h.addr;
        let mut app_hash = h.app_hash.clone();
        let mut call = "ok";
        let tag: &str;
        match which {
            0 => tag = "honest",
            1 => {
                // tampered returned value (another number / a flipped byte)
                if rng.bool() {
                    resp.value = (amount.wrapping_add(rng.range(1, 1000))).to_string().into_bytes();
                } else {
                    flip(&mut resp.value, rng);
                }
                tag = "tamper/value";
            }
            2 => {
                // value tampered consistently in answer and proof
                let v = (amount ^ 1).to_string().into_bytes();
                resp.value = v.clone();
                let mut ep = h.ep_bank.clone();
                ep.value = v;
                resp.proof_ops = Some(ProofOps { ops: vec![op("ics23:iavl", &key, &exist(ep)), op("ics23:simple", b"bank", &exist(h.ep_ms.clone()))] });
                tag = "tamper/value+proof";
            }
            3 => {
                // a proof for ANOTHER account (possibly with the same balance), relabelled in three ways
                let okey = bank_key(&h.other_addr);
                let mut ep = h.ep_other.clone();
                let opkey = match rng.below(3) {
                    0 => okey.clone(),
                    1 => key.clone(),
                    _ => {
                        ep.key = key.clone();
                        key.clone()
                    }
                };
                resp.value = ep.value.clone();
                resp.proof_ops = Some(ProofOps { ops: vec![op("ics23:iavl", &opkey, &exist(ep)), op("ics23:simple", b"bank", &exist(h.ep_ms.clone()))] });
                tag = "tamper/key-other-account";
            }
            4 => {
                addr = h.other_addr;
                tag = "tamper/queried-address";
            }
            5 => {
                if rng.bool() {
                    flip(&mut app_hash, rng);
                } else {
                    let n = *rng.pick(&[0usize, 20, 32, 33]);
                    app_hash = rng.bytes(n);
                }
                tag = "tamper/root-apphash";
            }
            6 => {
                // multistore proof commits to a different bank root
                let mut ep = h.ep_ms.clone();
                match rng.below(3) {
                    0 => flip(&mut ep.value, rng),
                    1 => ep = h.ep_ms_other.clone(),
                    _ => {
                        ep = h.ep_ms_other.clone();
                        ep.key = b"bank".to_vec();
                    }
                }
                resp.proof_ops = Some(ProofOps { ops: vec![op("ics23:iavl", &key, &exist(h.ep_bank.clone())), op("ics23:simple", b"bank", &exist(ep))] });
                tag = "tamper/root-intermediate";
            }
            7 => {
                // a damaged path step / leaf op in either proof
                let mut e0 = h.ep_bank.clone();
                let mut e1 = h.ep_ms.clone();
                let tgt = if rng.bool() { &mut e0 } else { &mut e1 };
                match rng.below(5) {
                    0 if !tgt.path.is_empty() => {
                        let i = rng.usize(0, tgt.path.len() - 1);
                        if tgt.path[i].suffix.is_empty() || rng.bool() {
                            flip(&mut tgt.path[i].prefix, rng)
                        } else {
                            flip(&mut tgt.path[i].suffix, rng)
                        }
                    }
                    1 if !tgt.path.is_empty() => {
                        let i = rng.usize(0, tgt.path.len() - 1);
                        tgt.path.remove(i);
                    }
                    2 => {
                        let l = tgt.leaf.as_mut().unwrap();
                        flip(&mut l.prefix, rng);
                    }
                    3 => tgt.leaf = None,
                    _ => {
                        let extra = InnerOp { hash: HashOp::Sha256.into(), prefix: vec![1, 2, 3, 4, 5], suffix: vec![] };
                        tgt.path.push(extra);
                    }
                }
                resp.proof_ops = Some(ProofOps { ops: vec![op("ics23:iavl", &key, &exist(e0)), op("ics23:simple", b"bank", &exist(e1))] });
                tag = "tamper/proof-path";
            }
            8 => {
                // shape of the chain
                let g = good_ops();
                let ops = match rng.below(7) {
                    0 => vec![g[1].clone(), g[0].clone()],
                    1 => vec![g[0].clone()],
                    2 => vec![g[1].clone()],
                    3 => vec![g[0].clone(), g[1].clone(), g[1].clone()],
                    4 => vec![g[0].clone(), g[0].clone(), g[1].clone()],
                    5 => vec![],
                    _ => {
                        resp.proof_ops = None;
                        vec![]
                    }
                };
                if resp.proof_ops.is_some() {
                    resp.proof_ops = Some(ProofOps { ops });
                }
                tag = "tamper/chain-shape";
            }
            9 => {
                let mut g = good_ops();
                match rng.below(5) {
                    0 => g[0].r#type = "ics23:simple".into(),
                    1 => g[1].r#type = "ics23:iavl".into(),
                    2 => {
                        let i = rng.usize(0, 1);
                        g[i].r#type = (*rng.pick(&["ics23:smt", "", "iavl", "ics23:IAVL"])).into();
                    }
                    3 => {
                        let i = rng.usize(0, 1);
                        let n = rng.usize(1, 40);
                        g[i].data = rng.bytes(n);
                    }
                    _ => {
                        let i = rng.usize(0, 1);
                        g[i].data = vec![];
                    }
                }
                resp.proof_ops = Some(ProofOps { ops: g });
                tag = "tamper/op-type-or-data";
            }
            10 => {
                // batch-wrapped proofs
                let b0 = batch(vec![Some(h.ep_other.clone()), None, Some(h.ep_bank.clone())]);
                let ops = match rng.below(4) {
                    // second op a plain existence proof
                    0 => vec![op("ics23:iavl", &key, &b0), op("ics23:simple", b"bank", &exist(h.ep_ms.clone()))],
                    // both batches: the multistore batch has no entry for the bank KEY
                    1 => vec![op("ics23:iavl", &key, &b0), op("ics23:simple", b"bank", &batch(vec![Some(h.ep_ms_other.clone()), Some(h.ep_ms.clone())]))],
                    // multistore batch with an extra (unverifiable) entry keyed by the bank key whose value is the true bank root
                    2 => {
                        let mut fake = h.ep_ms_other.clone();
                        fake.key = key.clone();
                        fake.value = h.bank_root.clone();
                        vec![op("ics23:iavl", &key, &exist(h.ep_bank.clone())), op("ics23:simple", b"bank", &batch(vec![Some(fake), Some(h.ep_ms.clone())]))]
                    }
                    // ... or some other value
                    _ => {
                        let mut fake = h.ep_ms_other.clone();
                        fake.key = key.clone();
                        vec![op("ics23:iavl", &key, &exist(h.ep_bank.clone())), op("ics23:simple", b"bank", &batch(vec![Some(fake), Some(h.ep_ms.clone())]))]
                    }
                };
                resp.proof_ops = Some(ProofOps { ops });
                tag = "batch";
            }
            11 => {
                let non = CommitmentProof { proof: Some(Proof::Nonexist(ics23::NonExistenceProof { key: key.clone(), left: Some(h.ep_other.clone()), right: None })) };
                let comp = ics23::compress(&batch(vec![Some(h.ep_bank.clone())])).unwrap();
                let mut g = good_ops();
                let i = rng.usize(0, 1);
                g[i].data = if rng.bool() { non.encode_to_vec() } else { comp.encode_to_vec() };
                resp.proof_ops = Some(ProofOps { ops: g });
                tag = "tamper/nonexist-or-compressed";
            }
            12 => {
                // EMPTY value: the account "does not exist"
                resp.value = vec![];
                match rng.below(4) {
                    0 => resp.proof_ops = None,
                    1 => {}
                    2 => resp.proof_ops = Some(ProofOps { ops: vec![op("bogus", b"x", &exist(h.ep_other.clone()))] }),
                    _ => {
                        let non = CommitmentProof { proof: Some(Proof::Nonexist(ics23::NonExistenceProof { key: key.clone(), left: Some(h.ep_other.clone()), right: None })) };
                        resp.proof_ops = Some(ProofOps { ops: vec![op("ics23:iavl", &key, &non), op("ics23:simple", b"bank", &exist(h.ep_ms.clone()))] });
                    }
                }
                tag = "empty-value";
            }
            13 => {
                // non-numeric / out-of-range values WITH a valid proof for them
                let v: Vec<u8> = match rng.below(9) {
                    0 => b"abc".to_vec(),
                    1 => b"+5".to_vec(),
                    2 => b"18446744073709551616".to_vec(),
                    3 => b"007".to_vec(),
                    4 => b"-1".to_vec(),
                    5 => b" 1".to_vec(),
                    6 => vec![0xff, 0x31],
                    7 => b"+".to_vec(),
                    _ => b"99999999999999999999999999999999".to_vec(),
                };
                let h2 = honest(rng, v.clone());
                addr = h2.addr;
                app_hash = h2.app_hash.clone();
                let k2 = bank_key(&h2.addr);
                resp.value = v;
                resp.proof_ops = Some(ProofOps { ops: vec![op("ics23:iavl", &k2, &exist(h2.ep_bank)), op("ics23:simple", b"bank", &exist(h2.ep_ms))] });
                tag = "odd-value-valid-proof";
            }
            14 => {
                resp.code = *rng.pick(&[2u32, 3, 5, 6, 18, 19, 32]);
                if rng.bool() {
                    resp.value = vec![];
                }
                tag = "abci-error-code";
            }
            _ => {
                call = "fail";
                tag = "call-fails";
            }
        }
        out.op(balance_line(&addr, hh, &app_hash, call, &resp), &format!("balance/{tag}"), true);
    }

    fn verify_scenario(&self, rng: &mut Rng, out: &mut Emitter) {
        // nested stores of depth 1..4: level 0 holds (k0, leaf); level i holds (k_i, root_{i-1})
        let depth = rng.usize(1, 4);
        let mut keys: Vec<Vec<u8>> = vec![];
        let mut eps: Vec<ExistenceProof> = vec![];
        let mut kinds: Vec<SpecK> = vec![];
        let n0 = rng.usize(1, 12);
        let leaf = rng.bytes(n0);
        let mut cur = leaf.clone();
        for lvl in 0..depth {
            let kind = if rng.bool() { SpecK::Iavl } else { SpecK::Simple };
            let n = rng.usize(1, 6);
            let me = rng.usize(0, n - 1);
            let k = format!("k{lvl}-{}", rng.below(1000)).into_bytes();
            let mut leaves: Vec<(Vec<u8>, Vec<u8>)> = (0..n).map(|j| (format!("o{lvl}-{j}").into_bytes(), rng.bytes(8))).collect();
            leaves[me] = (k.clone(), cur.clone());
            let (root, proofs) = build_tree(kind, &leaves, 7, rng);
            keys.push(k);
            eps.push(proofs[me].clone());
            kinds.push(kind);
            cur = root;
        }
        let mut root = cur;
        let ty = |k: SpecK| if k == SpecK::Iavl { "ics23:iavl" } else { "ics23:simple" };
        let mut ops: Vec<ProofOp> = (0..depth).map(|i| op(ty(kinds[i]), &keys[i], &exist(eps[i].clone()))).collect();
        let mut ks = keys.clone();
        let mut lf = leaf.clone();
        let tag = match rng.below(12) {
            0 | 1 | 2 => "honest",
            3 => {
                ks.pop();
                "fewer-keys"
            }
            4 => {
                ks.push(b"extra".to_vec());
                "more-keys"
            }
            5 => {
                ks.clear();
                "no-keys"
            }
            6 => {
                flip(&mut lf, rng);
                "leaf"
            }
            7 => {
                flip(&mut root, rng);
                "root"
            }
            8 => {
                let i = rng.usize(0, depth - 1);
                flip(&mut ks[i], rng);
                "key"
            }
            9 => {
                ks.reverse();
                ops.reverse();
                "reversed"
            }
            10 => {
                let i = rng.usize(0, depth - 1);
                let mut e = eps[i].clone();
                flip(&mut e.value, rng);
                ops[i] = op(ty(kinds[i]), &keys[i], &exist(e));
                "inner-value"
            }
            _ => {
                let i = rng.usize(0, depth - 1);
                ops.remove(i);
                "fewer-ops"
            }
        };
        let po = ProofOps { ops };
        out.op(
            format!(
                "verify root={} keys={} leaf={} ops={} vq={} raw={}",
                hx(&root),
                hxl(&ks),
                hx(&lf),
                view_ops(&Some(po.clone())),
                vm_table(&Some(po.clone()), &ks, &lf, &root),
                hx(&po.encode_to_vec())
            ),
            &format!("verify/{tag}"),
            true,
        );
    }
}

fn proof_err(e: &ProofError) -> String {
    match e {
        ProofError::RootMismatch => "RootMismatch".into(),
        ProofError::AbciProofMissing => "AbciProofMissing".into(),
        ProofError::UnsupportedSpec(_) => "UnsupportedSpec".into(),
        ProofError::Decode(_) => "Decode".into(),
        ProofError::ExistanceProofMissing => "ExistanceProofMissing".into(),
        ProofError::UnevenProofsAndKeysLengths(a, b) => format!("UnevenProofsAndKeysLengths({a},{b})"),
        ProofError::OperationKeyMismatch(_, _) => "OperationKeyMismatch".into(),
    }
}

impl Prop for C45 {
    fn id(&self) -> &'static str {
        "C45"
    }
    fn rule(&self) -> &'static str {
        "balance: real GrpcClient::get_verified_balance against a fake node; proof chains built for random bank stores \
         (IAVL-style spec, 2..9 accounts, random tree shapes) inside random multistores (simple spec); honest answers and \
         systematic tampering of the value (answer only / answer+proof), keys (other account's proof relabelled three ways, \
         queried address), roots (app hash, intermediate bank root), proofs (path steps, leaf op, chain shape, op type, \
         undecodable data, batch / non-existence / compressed forms), empty values, non-numeric values with valid proofs, \
         ABCI error codes, failing calls, header heights 0..3 and large.  verify: real ProofChain::verify_membership on \
         nested stores of depth 1..4 with fewer/more/no keys, wrong leaf/root/key, reversed chains, missing ops. \
         Non-trivial = every case; distinct = distinct (op, result) lines."
    }
    fn gen_ops(&mut self, rng: &mut Rng, tier: Tier, out: &mut Emitter) {
        let rounds = if tier == Tier::Thorough { 400 } else { 20 };
        for _ in 0..rounds {
            for which in 0..16 {
                self.scenario(rng, out, which);
            }
            // honest cases dominate the tail
            for _ in 0..4 {
                self.scenario(rng, out, 0);
            }
            for _ in 0..16 {
                self.verify_scenario(rng, out);
            }
        }
    }
    fn run(&mut self, line: &str) -> String {
        match opname(line) {
            "reset" => "ok".into(),
            "balance" => {
                let (Some(addr), Some(hh), Some(app_hash), Some(call), Some(raw)) =
                    (arg_hex(line, "addr"), arg_u64(line, "hh"), arg_hex(line, "apphash"), arg(line, "call"), arg_hex(line, "raw"))
                else {
                    return "bad-op".into();
                };
                let Ok(addr20): Result<[u8; 20], _> = addr.as_slice().try_into() else { return "bad-op".into() };
                let Ok(resp) = RawResp::decode(raw.as_slice()) else { return "bad-op".into() };
                // the abstract fields of the line must describe the raw response
                if arg(line, "ops") != Some(view_ops(&resp.proof_ops).as_str())
                    || arg(line, "vq") != Some(vm_table(&resp.proof_ops, &[bank_key(&addr20), b"bank".to_vec()], &resp.value, &app_hash).as_str())
                    || arg_hex(line, "value").as_deref() != Some(resp.value.as_slice())
                    || arg_u64(line, "code") != Some(resp.code as u64)
                {
                    return "view-mismatch".into();
                }
                let seen: Arc<Mutex<Vec<String>>> = Arc::new(Mutex::new(vec![]));
                let seen2 = seen.clone();
                let fail = call == "fail";
                let node = FakeNode::new(move |path, msg| {
                    let r = AbciQueryRequest::decode(msg).ok();
                    seen2.lock().unwrap().push(match r {
                        Some(r) => format!("{}:{}:{}:{}", hx(&r.data), r.height, r.prove, r.path),
                        None => "undecodable".into(),
                    });
                    if !path.ends_with("/ABCIQuery") {
                        return Answer::Status(12, format!("unexpected {path}"));
                    }
                    if fail { Answer::Status(2, "boom".into()) } else { Answer::Msg(resp.encode_to_vec()) }
                });
                let mut header = self.header.clone();
                header.header.app_hash = app_hash.try_into().unwrap();
                header.header.height = hh.try_into().unwrap();
                let client = GrpcClient::builder().transport(node).build().expect("client");
                let address: Address = AccAddress::new(Id::new(addr20)).into();
                let res = self.rt.block_on(async { client.get_verified_balance(&address, &header).await });
                let reqs = seen.lock().unwrap().join(",");
                let r = match res {
                    Ok(coin) => format!("ok amount={} denom={}", coin.amount(), coin.denom()),
                    Err(celestia_grpc::Error::AbciQuery(code, _)) => format!("err AbciQuery code={}", code as u32),
                    Err(celestia_grpc::Error::AbciProof(e)) => format!("err Proof {}", proof_err(&e)),
                    Err(celestia_grpc::Error::FailedToParseResponse) => "err FailedToParseResponse".into(),
                    Err(_) => "err grpc".into(),
                };
                format!("{r} req={reqs}")
            }
            "verify" => {
                let (Some(root), Some(keys), Some(leaf), Some(raw)) =
                    (arg_hex(line, "root"), arg(line, "keys").and_then(unhxl), arg_hex(line, "leaf"), arg_hex(line, "raw"))
                else {
                    return "bad-op".into();
                };
                let Ok(po) = ProofOps::decode(raw.as_slice()) else { return "bad-op".into() };
                if arg(line, "ops") != Some(view_ops(&Some(po.clone())).as_str())
                    || arg(line, "vq") != Some(vm_table(&Some(po.clone()), &keys, &leaf, &root).as_str())
                {
                    return "view-mismatch".into();
                }
                match ProofChain::try_from(po) {
                    Err(e) => format!("err {}", proof_err(&e)),
                    Ok(chain) => match chain.verify_membership(&root, keys.iter(), &leaf) {
                        Ok(()) => "ok".into(),
                        Err(e) => format!("err {}", proof_err(&e)),
                    },
                }
            }
            _ => "bad-op".into(),
        }
    }
    fn result_tag(&self, _line: &str, result: &str) -> Option<String> {
        let w: Vec<&str> = result.split(' ').collect();
        Some(if w.first() == Some(&"err") { w.iter().take(3).filter(|x| !x.starts_with("req=") && !x.starts_with("code=")).cloned().collect::<Vec<_>>().join("-") } else { w[0].to_string() })
    }
}

fn main() {
    let rt = tokio::runtime::Builder::new_current_thread().enable_all().build().unwrap();
    let header = ExtendedHeaderGenerator::new().next();
    main_for(C45 { rt, header });
}

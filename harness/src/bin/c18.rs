//! C18 — Store insertion constraints admit exactly the legal ranges.
//!
//! Stateless: `check rs=<canonical ranges> s=<start> e=<end>` loads `rs` with the public
//! `BlockRanges::from_vec` and calls the public `check_insertion_constraints`.
use std::ops::RangeInclusive;

use lumina_node::block_ranges::{BlockRange, BlockRanges, BlockRangesError};
use verif_harness::*;

struct C18;

fn show_err(e: &BlockRangesError) -> String {
    match e {
        BlockRangesError::UnsortedBlockRanges => "err unsorted".into(),
        BlockRangesError::InvalidBlockRange(r) => format!("err invalid:{}-{}", r.start(), r.end()),
        BlockRangesError::BlockRangeOverlap(r, o) => {
            format!("err overlap:{}-{}:{}-{}", r.start(), r.end(), o.start(), o.end())
        }
        BlockRangesError::NoAdjacentNeighbors(r) => format!("err noadjacent:{}-{}", r.start(), r.end()),
    }
}

fn parse_ranges(s: &str) -> Option<Vec<BlockRange>> {
    if s == "-" || s.is_empty() {
        return Some(vec![]);
    }
    s.split(',')
        .map(|t| {
            let (a, b) = t.split_once('-')?;
            Some(RangeInclusive::new(a.parse().ok()?, b.parse().ok()?))
        })
        .collect()
}

fn fmt_vec(v: &[(u64, u64)]) -> String {
    if v.is_empty() { "-".into() } else { v.iter().map(|(s, e)| format!("{s}-{e}")).collect::<Vec<_>>().join(",") }
}

fn subset(mask: u32, n: u32) -> Vec<(u64, u64)> {
    let mut v = vec![];
    let mut h = 1;
    while h <= n {
        if mask & (1 << (h - 1)) != 0 {
            let s = h;
            while h < n && mask & (1 << h) != 0 {
                h += 1;
            }
            v.push((s as u64, h as u64));
        }
        h += 1;
    }
    v
}

/// a random canonical value with heights around `base`
fn random_value(rng: &mut Rng, base: u64, spread: u64) -> Vec<(u64, u64)> {
    let n = rng.usize(0, 5);
    let mut v = vec![];
    let mut cur = base;
    for _ in 0..n {
        let s = match cur.checked_add(rng.range(if v.is_empty() { 0 } else { 2 }, spread)) {
            Some(s) => s,
            None => break,
        };
        let e = s.saturating_add(rng.range(0, spread));
        v.push((s, e));
        if e >= u64::MAX - 1 {
            break;
        }
        cur = e;
    }
    v
}


/// a canonical value with exactly `k` ranges (lengths 1..=4, gaps 2..=5) starting at `base`
fn many_value(rng: &mut Rng, k: usize, base: u64) -> Vec<(u64, u64)> {
    let mut v = Vec::with_capacity(k);
    let mut s = base.max(2);
    for _ in 0..k {
        let e = s + rng.range(0, 3);
        v.push((s, e));
        s = e + *rng.pick(&[2, 2, 3, 4, 5]);
    }
    v
}

impl Prop for C18 {
    fn id(&self) -> &'static str {
        "C18"
    }
    fn rule(&self) -> &'static str {
        "Stored value = canonical BlockRanges loaded with from_vec: every subset of heights 1..10 (all 1024 \
         in thorough, 64 seeded ones incl. empty/full/alternating in quick) x every candidate (s, e) over \
         0..12 incl. invalid ones; plus random values of 0..5 ranges with small gaps placed at 1, in the \
         middle of the u64 line and ending at u64::MAX, with candidates drawn next to every stored \
         boundary (+-2), inside gaps, stored values with MANY ranges (9..64; every size in thorough) probed at both ends, at indices 7..9/15..17/31..33 and random ones with candidates touching from below/above, bridging exactly, overlapping by one, at distance 2, overlapping, spanning several ranges, above the head and invalid. \
         Non-trivial = stored value non-empty and candidate valid; distinct = distinct (op, result)."
    }
    fn gen_ops(&mut self, rng: &mut Rng, tier: Tier, out: &mut Emitter) {
        let thorough = tier == Tier::Thorough;
        let n = 10u32;
        let masks: Vec<u32> = if thorough {
            (0..(1u32 << n)).collect()
        } else {
            let mut m = vec![0, (1 << n) - 1, 0b0101010101, 0b1010101010, 0b1110001110, 0b0000110000, 1, 1 << (n - 1)];
            for _ in 0..56 {
                m.push(rng.below(1 << n) as u32);
            }
            m
        };
        for &m in &masks {
            let v = subset(m, n);
            let sv = fmt_vec(&v);
            for s in 0..=12u64 {
                for e in 0..=12u64 {
                    let valid = s >= 1 && s <= e;
                    if !valid && !thorough && (s + e) % 4 != 0 {
                        continue;
                    }
                    out.op(format!("check rs={sv} s={s} e={e}"), if valid { "scope10/valid" } else { "scope10/invalid" }, valid && !v.is_empty());
                }
            }
        }
        // stored values with MANY ranges (size-dependent code paths: > 8, > 16, > 32 ranges):
        // candidates touching / bridging / overlapping by one / at distance 2 around a sample of ranges
        let sizes: Vec<usize> = if thorough { (9..=64).collect() } else { vec![9, 10, 16, 17, 24, 33, 64] };
        for (n, &k) in sizes.iter().enumerate() {
            let base = match n % 3 {
                0 => 2,
                1 => (1u64 << 40) + rng.range(0, 5),
                _ => u64::MAX - 9 * k as u64 - 40,
            };
            let v = many_value(rng, k, base);
            let sv = fmt_vec(&v);
            let tag = if k > 32 { "many33+" } else if k > 16 { "many17-32" } else { "many9-16" };
            let mut idx: Vec<usize> = vec![0, 1, k / 2, k - 2, k - 1];
            for t in [7usize, 8, 9, 15, 16, 17, 31, 32, 33] {
                if t < k {
                    idx.push(t);
                }
            }
            for _ in 0..(if thorough { 6 } else { 2 }) {
                idx.push(rng.usize(0, k - 1));
            }
            idx.sort();
            idx.dedup();
            for i in idx {
                let (s, e) = v[i];
                let mut c = vec![(s - 1, s - 1), (e + 1, e + 1), (s - 1, s), (e, e + 1), (e + 2, e + 2), (s, e), (e + 1, e + 2)];
                if s >= 3 {
                    c.push((s - 2, s - 2));
                    c.push((s - 2, s - 1));
                }
                if let Some(&(ns, _)) = v.get(i + 1) {
                    c.push((e + 1, ns - 1));
                    c.push((e + 1, ns));
                    c.push((e, ns - 1));
                    c.push((e + 2, ns - 1));
                    c.push((e + 1, ns - 2));
                    if let Some(&(_, nne)) = v.get(i + 2) {
                        c.push((e + 1, nne + 1));
                        c.push((s, nne));
                    }
                } else {
                    c.push((e + 3, e + 9));
                }
                for (a, b) in c {
                    let valid = a >= 1 && a <= b;
                    out.op(format!("check rs={sv} s={a} e={b}"), &format!("{tag}/{}", if valid { "valid" } else { "invalid" }), valid);
                }
            }
        }
        let rounds = if thorough { 20000 } else { 1200 };
        for i in 0..rounds {
            let base = match i % 4 {
                0 => 1,
                1 => rng.next_u64() >> rng.range(1, 40),
                2 => u64::MAX - rng.range(0, 60),
                _ => rng.range(1, 30),
            };
            let spread = *rng.pick(&[1, 2, 3, 5, 9]);
            let v = random_value(rng, base, spread);
            let sv = fmt_vec(&v);
            let mut pts: Vec<u64> = vec![1, u64::MAX];
            for (s, e) in &v {
                for d in 0..=2 {
                    pts.push(s.saturating_sub(d));
                    pts.push(s.saturating_add(d));
                    pts.push(e.saturating_sub(d));
                    pts.push(e.saturating_add(d));
                }
            }
            for _ in 0..10 {
                let mut s = *rng.pick(&pts);
                let mut e = *rng.pick(&pts);
                if s > e && rng.chance(19, 20) {
                    std::mem::swap(&mut s, &mut e);
                }
                if rng.chance(1, 30) {
                    s = 0;
                }
                let valid = s >= 1 && s <= e;
                out.op(format!("check rs={sv} s={s} e={e}"), if valid { "random/valid" } else { "random/invalid" }, valid && !v.is_empty());
            }
        }
    }
    fn run(&mut self, line: &str) -> String {
        match opname(line) {
            "reset" => "ok".into(),
            "check" => {
                let (Some(v), Some(s), Some(e)) = (arg(line, "rs").and_then(parse_ranges), arg_u64(line, "s"), arg_u64(line, "e")) else {
                    return "bad-op".into();
                };
                let rs = match BlockRanges::from_vec(v.into_iter().collect()) {
                    Ok(rs) => rs,
                    Err(e) => return format!("load-{}", show_err(&e)),
                };
                match rs.check_insertion_constraints(RangeInclusive::new(s, e)) {
                    Ok((p, n)) => format!("ok {p} {n}"),
                    Err(e) => show_err(&e),
                }
            }
            _ => "bad-op".into(),
        }
    }
    fn result_tag(&self, _line: &str, result: &str) -> Option<String> {
        let mut w = result.split(' ');
        let a = w.next().unwrap_or("");
        Some(if a == "ok" {
            result.replace(' ', "-")
        } else if a == "err" {
            format!("err-{}", w.next().unwrap_or("").split(':').next().unwrap_or(""))
        } else {
            a.to_string()
        })
    }
}

fn main() {
    main_for(C18);
}

//! C41 — Closing the redb store waits for in-flight work without hanging.
//!
//! Three kinds of ops, all against the REAL `lumina_node::utils::Counter` (through the
//! `verif` wrappers) and the real `RedbStore::{read_tx, write_tx, close}`:
//!
//! * sequential histories (`guard`, `drop`, `dec`, `notify`, `wait`, `poll`, `cancel`): one
//!   thread, the `wait_guards` future is polled by hand with a flag waker, so every op has a
//!   deterministic result that the model predicts exactly;
//! * `race n=… mode=t|k seed=…`: n guards dropped by n OS threads (`t`) or tokio tasks on a
//!   multi-thread runtime (`k`) racing with `wait_guards`; every poll of the future and every drop is
//!   stamped with a global SeqCst counter; the canonicalised event trace is handed to the driver
//!   as `obs=`; result `returned` | `hang` (time-out);
//! * `store n=… seed=…`: n real `read_tx`/`write_tx` blocking tasks in flight (their async callers
//!   cancelled after the first poll) racing with the real `RedbStore::close`.
use std::future::Future;
use std::pin::Pin;
use std::sync::atomic::{AtomicBool, AtomicU64, Ordering::SeqCst};
use std::sync::{Arc, Barrier, Mutex, Weak};
use std::task::{Context, Poll, Wake, Waker};
use std::time::{Duration, Instant};

use lumina_node::store::{RedbStore, Store};
use lumina_node::verif::store::redb_store::{read_tx_probe, write_tx_probe};
use lumina_node::verif::utils::counter::{VCounter, VGuard};
use verif_harness::*;

const HANG_TIMEOUT: Duration = Duration::from_millis(2500);
/// after a few observed hangs the remaining runs use a short time-out (a broken build would
/// otherwise take an hour to report the same failure again and again)
static HANGS: AtomicU64 = AtomicU64::new(0);
fn hang_timeout() -> Duration {
    if HANGS.load(SeqCst) >= 3 { Duration::from_millis(300) } else { HANG_TIMEOUT }
}

struct FlagWaker {
    woken: AtomicBool,
    thread: Option<std::thread::Thread>,
}
impl Wake for FlagWaker {
    fn wake(self: Arc<Self>) {
        self.wake_by_ref()
    }
    fn wake_by_ref(self: &Arc<Self>) {
        self.woken.store(true, SeqCst);
        if let Some(t) = &self.thread {
            t.unpark()
        }
    }
}

/// sequential history state
struct Seq {
    fut: Option<Pin<Box<dyn Future<Output = ()>>>>,
    finished: bool,
    guards: Vec<Option<VGuard>>,
    gstate: Vec<u8>, // 0 alive, 1 released (first half of drop), 2 gone
    counter: *mut VCounter,
    weak: Weak<()>,
    waker: Arc<FlagWaker>,
}

impl Seq {
    fn new() -> Seq {
        let c = Box::new(VCounter::new());
        let weak = c.weak();
        Seq {
            fut: None,
            finished: false,
            guards: vec![],
            gstate: vec![],
            counter: Box::into_raw(c),
            weak,
            waker: Arc::new(FlagWaker { woken: AtomicBool::new(false), thread: None }),
        }
    }
    fn count(&self) -> usize {
        self.weak.strong_count() - 1
    }
    fn woken(&self) -> u8 {
        self.waker.woken.load(SeqCst) as u8
    }
    fn status(&self) -> String {
        format!("ok count={} woken={}", self.count(), self.woken())
    }
}

impl Drop for Seq {
    fn drop(&mut self) {
        self.fut = None; // the future borrows the counter: drop it first
        self.guards.clear();
        // SAFETY: created by Box::into_raw in `new`, no borrow left
        unsafe { drop(Box::from_raw(self.counter)) };
    }
}

static STAMP: AtomicU64 = AtomicU64::new(0);
fn stamp() -> u64 {
    STAMP.fetch_add(1, SeqCst)
}

type Log = Arc<Mutex<Vec<(u64, String)>>>;

/// logs every poll of the wrapped future: `pb` before, `pP`/`pR` after
struct Logged<F> {
    inner: Pin<Box<F>>,
    log: Log,
}
impl<F: Future> Future for Logged<F> {
    type Output = F::Output;
    fn poll(mut self: Pin<&mut Self>, cx: &mut Context<'_>) -> Poll<F::Output> {
        let b = stamp();
        let r = self.inner.as_mut().poll(cx);
        let e = stamp();
        let mut l = self.log.lock().unwrap();
        l.push((b, "pb".into()));
        l.push((e, if r.is_ready() { "pR".into() } else { "pP".into() }));
        r
    }
}

fn spin(n: u64) {
    for i in 0..n {
        std::hint::spin_loop();
        if i % 64 == 63 {
            std::hint::black_box(i);
        }
    }
}

fn render(mut evs: Vec<(u64, String)>) -> String {
    evs.sort();
    if evs.is_empty() {
        "-".into()
    } else {
        evs.into_iter().map(|(_, t)| t).collect::<Vec<_>>().join(",")
    }
}

/// delays in spin iterations; a few shapes so that drops land before, around and after the
/// waiter's count check
fn delay(rng: &mut Rng) -> u64 {
    match rng.below(6) {
        0 => 0,
        1 => rng.below(30),
        2 => rng.below(300),
        3 => rng.below(3000),
        4 => rng.below(30000),
        _ => rng.below(1000),
    }
}

/// n OS threads drop one guard each; this thread runs `wait_guards` on a minimal executor
fn race_threads(n: usize, rng: &mut Rng) -> (bool, String) {
    let mut counter = VCounter::new();
    let guards: Vec<VGuard> = (0..n).map(|_| counter.guard()).collect();
    let barrier = Arc::new(Barrier::new(n + 1));
    let mut handles = vec![];
    for (i, g) in guards.into_iter().enumerate() {
        let d = delay(rng);
        let yield_first = rng.chance(1, 4);
        let barrier = barrier.clone();
        handles.push(std::thread::spawn(move || {
            barrier.wait();
            if yield_first {
                std::thread::yield_now();
            }
            spin(d);
            let b = stamp();
            drop(g);
            let e = stamp();
            vec![(b, format!("b{i}")), (e, format!("e{i}"))]
        }));
    }
    let dw = delay(rng);
    let log: Log = Arc::new(Mutex::new(vec![]));
    let waker_state = Arc::new(FlagWaker { woken: AtomicBool::new(false), thread: Some(std::thread::current()) });
    let waker = Waker::from(waker_state.clone());
    let mut cx = Context::from_waker(&waker);
    barrier.wait();
    spin(dw);
    let mut evs = vec![(stamp(), "c".to_string())];
    let returned;
    {
        let mut fut = std::pin::pin!(Logged { inner: Box::pin(counter.wait_guards()), log: log.clone() });
        let deadline = Instant::now() + hang_timeout();
        loop {
            waker_state.woken.store(false, SeqCst);
            if fut.as_mut().poll(&mut cx).is_ready() {
                returned = true;
                break;
            }
            // wait for the waker (no spurious polls)
            let mut timed_out = false;
            while !waker_state.woken.load(SeqCst) {
                let now = Instant::now();
                if now >= deadline {
                    timed_out = true;
                    break;
                }
                std::thread::park_timeout(deadline - now);
            }
            if timed_out {
                returned = false;
                break;
            }
        }
    }
    for h in handles {
        evs.extend(h.join().unwrap());
    }
    evs.extend(log.lock().unwrap().drain(..));
    (returned, render(evs))
}

/// n tokio tasks (or blocking-pool threads) drop one guard each; another task runs `wait_guards`
fn race_tokio(rt: &tokio::runtime::Runtime, n: usize, rng: &mut Rng) -> (bool, String) {
    let plans: Vec<(u64, u64, bool)> = (0..n).map(|_| (rng.below(4), delay(rng), rng.chance(1, 3))).collect();
    let (wy, wd) = (rng.below(4), delay(rng));
    rt.block_on(async move {
        let mut counter = VCounter::new();
        let guards: Vec<VGuard> = (0..n).map(|_| counter.guard()).collect();
        let log: Log = Arc::new(Mutex::new(vec![]));
        let mut handles = vec![];
        for (i, g) in guards.into_iter().enumerate() {
            let (y, d, blocking) = plans[i];
            if blocking {
                handles.push(tokio::task::spawn_blocking(move || {
                    spin(d);
                    let b = stamp();
                    drop(g);
                    let e = stamp();
                    vec![(b, format!("b{i}")), (e, format!("e{i}"))]
                }));
            } else {
                handles.push(tokio::spawn(async move {
                    for _ in 0..y {
                        tokio::task::yield_now().await;
                    }
                    spin(d);
                    let b = stamp();
                    drop(g);
                    let e = stamp();
                    vec![(b, format!("b{i}")), (e, format!("e{i}"))]
                }));
            }
        }
        let wlog = log.clone();
        let waiter = tokio::spawn(async move {
            for _ in 0..wy {
                tokio::task::yield_now().await;
            }
            spin(wd);
            let c = stamp();
            let fut = Logged { inner: Box::pin(counter.wait_guards()), log: wlog };
            let r = tokio::time::timeout(hang_timeout(), fut).await.is_ok();
            (c, r)
        });
        let mut evs = vec![];
        for h in handles {
            evs.extend(h.await.unwrap());
        }
        let (c, returned) = waiter.await.unwrap();
        evs.push((c, "c".into()));
        evs.extend(log.lock().unwrap().drain(..));
        (returned, render(evs))
    })
}

/// n real read_tx / write_tx blocking tasks in flight while the real `RedbStore::close` runs
fn race_store(rt: &tokio::runtime::Runtime, n: usize, rng: &mut Rng) -> (bool, String) {
    let plans: Vec<(u64, bool, bool)> = (0..n).map(|_| (delay(rng) * 4, rng.chance(1, 3), rng.chance(1, 5))).collect();
    let wd = delay(rng);
    rt.block_on(async move {
        let store = RedbStore::in_memory().await.expect("in-memory redb");
        let log: Log = Arc::new(Mutex::new(vec![]));
        for (i, (d, write, await_it)) in plans.into_iter().enumerate() {
            let l = log.clone();
            let body = move || {
                spin(d);
                // the task's database work is over; the guard is dropped right after `f` returns
                let b = stamp();
                l.lock().unwrap().push((b, format!("b{i}")));
            };
            if write {
                let mut f = Box::pin(write_tx_probe(&store, body));
                if await_it {
                    f.await.unwrap();
                } else {
                    // first poll spawns the blocking task; dropping the caller leaves it in flight
                    let _ = futures::poll!(f.as_mut());
                }
            } else {
                let mut f = Box::pin(read_tx_probe(&store, body));
                if await_it {
                    f.await.unwrap();
                } else {
                    let _ = futures::poll!(f.as_mut());
                }
            }
        }
        spin(wd);
        let c = stamp();
        let fut = Logged { inner: Box::pin(store.close()), log: log.clone() };
        let returned = match tokio::time::timeout(hang_timeout(), fut).await {
            Ok(r) => {
                r.expect("close");
                true
            }
            Err(_) => false,
        };
        // let stragglers (only possible after a premature return) log their event
        if returned {
            tokio::time::sleep(Duration::from_micros(200)).await;
        }
        let mut evs = vec![(c, "c".to_string())];
        evs.extend(log.lock().unwrap().drain(..));
        (returned, render(evs))
    })
}

struct C41 {
    seq: Seq,
    rt: Option<tokio::runtime::Runtime>,
    last_obs: Option<String>,
}

impl C41 {
    fn rt(&mut self) -> &tokio::runtime::Runtime {
        self.rt.get_or_insert_with(|| {
            tokio::runtime::Builder::new_multi_thread().worker_threads(4).enable_all().build().unwrap()
        })
    }
}

/// all orders of the 2n half-drops (dec_i before notify_i) of n guards
fn half_drop_orders(n: usize) -> Vec<Vec<(bool, usize)>> {
    fn go(n: usize, st: &mut Vec<u8>, cur: &mut Vec<(bool, usize)>, out: &mut Vec<Vec<(bool, usize)>>) {
        if cur.len() == 2 * n {
            out.push(cur.clone());
            return;
        }
        for i in 0..n {
            if st[i] < 2 {
                cur.push((st[i] == 1, i));
                st[i] += 1;
                go(n, st, cur, out);
                st[i] -= 1;
                cur.pop();
            }
        }
    }
    let mut out = vec![];
    go(n, &mut vec![0; n], &mut vec![], &mut out);
    out
}

impl Prop for C41 {
    fn id(&self) -> &'static str {
        "C41"
    }
    fn rule(&self) -> &'static str {
        "Sequential histories on the real Counter with a hand-polled wait_guards future: every order of the \
         half-drops (count release / notify_waiters) of 1..3 guards x every point at which the wait starts, a poll \
         after every step (quick: n<=2 complete, n=3 sampled; thorough: n=3 complete), random histories with up to 6 \
         guards incl. whole drops, cancellation and re-waiting, and misuse (guard while waiting, double drop). \
         Concurrent runs: `race` = 1..4 guards dropped by OS threads / tokio tasks / blocking-pool threads with random \
         spin delays racing with wait_guards (time-out 2.5 s = observable hang); `store` = 1..4 real read_tx/write_tx \
         blocking tasks in flight (callers cancelled) racing with the real RedbStore::close. The observed event trace \
         (poll begin/end, drop begin/end, globally stamped) is checked by the driver to be a run of the model. \
         Non-trivial = any op of a history that has at least one guard, and every concurrent run; distinct = distinct (op+trace, result)."
    }
    fn gen_ops(&mut self, rng: &mut Rng, tier: Tier, out: &mut Emitter) {
        let thorough = tier == Tier::Thorough;
        // 1. exhaustive small scopes
        for n in 1..=3usize {
            let orders = half_drop_orders(n);
            for ord in &orders {
                for start in 0..=ord.len() {
                    if n == 3 && !thorough && !rng.chance(1, 6) {
                        continue;
                    }
                    for _ in 0..n {
                        out.op("guard", "seq/exh", true);
                    }
                    for (k, (second, i)) in ord.iter().enumerate() {
                        if k == start {
                            out.op("wait", "seq/exh", true);
                            out.op("poll", "seq/exh", true);
                        }
                        out.op(format!("{} i={i}", if *second { "notify" } else { "dec" }), "seq/exh", true);
                        if k >= start {
                            out.op("poll", "seq/exh", true);
                        }
                    }
                    if start == ord.len() {
                        out.op("wait", "seq/exh", true);
                    }
                    out.op("poll", "seq/exh", true);
                    out.op("reset", "seq/exh", false);
                }
            }
        }
        // 2. random histories
        let hist = if thorough { 6000 } else { 250 };
        for _ in 0..hist {
            let mut created = 0usize;
            let mut waiting = false;
            let len = rng.usize(5, 40);
            let mut any_guard = false;
            let mut lines: Vec<String> = vec![];
            for _ in 0..len {
                let r = rng.below(100);
                let line = if r < 22 && !waiting || created == 0 && r < 60 {
                    if !waiting {
                        created += 1;
                        any_guard = true;
                    }
                    "guard".to_string()
                } else if r < 45 {
                    format!("drop i={}", rng.below(created.max(1) as u64 + 1))
                } else if r < 55 {
                    format!("dec i={}", rng.below(created.max(1) as u64))
                } else if r < 65 {
                    format!("notify i={}", rng.below(created.max(1) as u64))
                } else if r < 75 {
                    if !waiting {
                        waiting = true;
                    }
                    "wait".to_string()
                } else if r < 93 {
                    "poll".to_string()
                } else if r < 97 {
                    waiting = false;
                    "cancel".to_string()
                } else {
                    "guard".to_string() // possibly while waiting: must be refused
                };
                if line == "guard" && waiting {
                    // refused: not created
                }
                lines.push(line);
            }
            for l in lines {
                out.op(l, "seq/random", any_guard);
            }
            out.op("reset", "seq/random", false);
        }
        // 3. concurrent runs
        let (nt, nk, ns) = if thorough { (30000, 30000, 2000) } else { (600, 1500, 60) };
        // every concurrent run is a history of its own (`reset` after it keeps replays minimal)
        for _ in 0..nt {
            out.op(format!("race n={} mode=t seed={}", rng.usize(1, 4), rng.next_u64() >> 16), "race/threads", true);
            out.op("reset", "race/threads", false);
        }
        for _ in 0..nk {
            out.op(format!("race n={} mode=k seed={}", rng.usize(1, 4), rng.next_u64() >> 16), "race/tokio", true);
            out.op("reset", "race/tokio", false);
        }
        for _ in 0..ns {
            out.op(format!("store n={} seed={}", rng.usize(1, 4), rng.next_u64() >> 16), "store/close", true);
            out.op("reset", "store/close", false);
        }
    }

    fn observed(&mut self, _line: &str) -> Option<String> {
        self.last_obs.take()
    }

    fn run(&mut self, line: &str) -> String {
        self.last_obs = None;
        let s = &mut self.seq;
        match opname(line) {
            "reset" => {
                self.seq = Seq::new();
                "ok".into()
            }
            "guard" => {
                if s.fut.is_some() {
                    return "borrowed".into();
                }
                // SAFETY: no `wait_guards` future exists, so nothing borrows the counter
                let g = unsafe { (*s.counter).guard() };
                s.guards.push(Some(g));
                s.gstate.push(0);
                format!("ok g={} count={}", s.guards.len() - 1, s.count())
            }
            "drop" => match arg_u64(line, "i").map(|i| i as usize) {
                Some(i) if i < s.guards.len() && s.gstate[i] == 0 => {
                    drop(s.guards[i].take());
                    s.gstate[i] = 2;
                    s.status()
                }
                Some(_) => "noguard".into(),
                None => "bad-op".into(),
            },
            "dec" => match arg_u64(line, "i").map(|i| i as usize) {
                Some(i) if i < s.guards.len() && s.gstate[i] == 0 => {
                    s.guards[i].as_mut().unwrap().release_only();
                    s.gstate[i] = 1;
                    s.status()
                }
                Some(_) => "noguard".into(),
                None => "bad-op".into(),
            },
            "notify" => match arg_u64(line, "i").map(|i| i as usize) {
                Some(i) if i < s.guards.len() && s.gstate[i] == 1 => {
                    let g = s.guards[i].take().unwrap();
                    g.notify_only();
                    // both halves of the drop have run by hand; do not run the real Drop again
                    std::mem::forget(g);
                    s.gstate[i] = 2;
                    s.status()
                }
                Some(_) => "noguard".into(),
                None => "bad-op".into(),
            },
            "wait" => {
                if s.fut.is_some() {
                    return "busy".into();
                }
                // SAFETY: the only user of the counter until the future is dropped; guards are
                // refused meanwhile, the count is read through a Weak
                let fut = unsafe { (*s.counter).wait_guards() };
                s.fut = Some(Box::pin(fut));
                s.finished = false;
                s.waker.woken.store(false, SeqCst);
                s.status()
            }
            "poll" => {
                if s.fut.is_none() {
                    return "nofuture".into();
                }
                if s.finished {
                    return "finished".into();
                }
                s.waker.woken.store(false, SeqCst);
                let waker = Waker::from(s.waker.clone());
                let mut cx = Context::from_waker(&waker);
                match s.fut.as_mut().unwrap().as_mut().poll(&mut cx) {
                    Poll::Ready(()) => {
                        s.finished = true;
                        format!("ready count={}", s.count())
                    }
                    Poll::Pending => format!("pending count={}", s.count()),
                }
            }
            "cancel" => {
                s.fut = None;
                s.finished = false;
                s.waker.woken.store(false, SeqCst);
                s.status()
            }
            "race" => {
                let (Some(n), Some(seed), Some(mode)) = (arg_u64(line, "n"), arg_u64(line, "seed"), arg(line, "mode"))
                else {
                    return "bad-op".into();
                };
                let mut rng = Rng::new(seed);
                let n = (n as usize).clamp(1, 8);
                let (returned, trace) = if mode == "k" {
                    let rt = self.rt();
                    race_tokio(rt, n, &mut rng)
                } else {
                    race_threads(n, &mut rng)
                };
                self.last_obs = Some(trace);
                if returned {
                    "returned".into()
                } else {
                    HANGS.fetch_add(1, SeqCst);
                    "hang".into()
                }
            }
            "store" => {
                let (Some(n), Some(seed)) = (arg_u64(line, "n"), arg_u64(line, "seed")) else {
                    return "bad-op".into();
                };
                let mut rng = Rng::new(seed);
                let n = (n as usize).clamp(1, 8);
                let rt = self.rt();
                let (returned, trace) = race_store(rt, n, &mut rng);
                self.last_obs = Some(trace);
                if returned {
                    "returned".into()
                } else {
                    HANGS.fetch_add(1, SeqCst);
                    "hang".into()
                }
            }
            _ => "bad-op".into(),
        }
    }
}

fn main() {
    main_for(C41 { seq: Seq::new(), rt: None, last_obs: None });
}

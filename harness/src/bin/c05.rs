//! C05 — Row retrieval returns exactly the committed row.
#[path = "../d_common.rs"]
mod d_common;

use std::collections::BTreeMap;
use std::panic::{AssertUnwindSafe, catch_unwind};

use bytes::BytesMut;
use celestia_proto::shwap::{Row as RawRow, Share as RawShare};
use celestia_types::consts::appconsts::SHARE_SIZE;
use celestia_types::nmt::{Namespace, NamespacedHash, NamespacedHashExt, Nmt, NmtExt};
use celestia_types::row::{Row, RowId};
use celestia_types::{DataAvailabilityHeader, Share};
use d_common::*;
use prost::Message;
use verif_harness::*;

struct C05 {
    /// generator only (S10): rows with about one namespace per data share
    many_ns: bool,
    w: usize,
    roots: Vec<NamespacedHash>,
    committed: BTreeMap<u16, Vec<Vec<u8>>>,
}

/// the real codec's outcome on the shard vector `Row::from_raw` would hand to it
fn oracle(side: i32, half: &[Vec<u8>]) -> String {
    let n = half.len();
    let half = half.to_vec();
    let r = catch_unwind(AssertUnwindSafe(move || {
        if side == 1 {
            let mut shards: Vec<Vec<u8>> = std::iter::repeat_n(vec![], n).chain(half).collect();
            leopard_codec::reconstruct(&mut shards, n).map(|_| shards)
        } else {
            let mut shards = half;
            shards.resize(n * 2, vec![0; SHARE_SIZE]);
            leopard_codec::encode(&mut shards, n).map(|_| shards)
        }
    }));
    match r {
        Err(_) => "panic".into(),
        Ok(Err(_)) => "err".into(),
        Ok(Ok(s)) => hxl(&s),
    }
}

/// one honest row of an extended square of width `w`: `k` namespace-sorted data shares (top half) or `k`
/// arbitrary parity shares (bottom half), extended by the real codec
fn gen_row(rng: &mut Rng, w: usize, top: bool, many_ns: bool) -> Vec<Vec<u8>> {
    let k = w / 2;
    let mut left: Vec<Vec<u8>> = if top {
        // S10: `many_ns` = about as many distinct namespaces as data shares (before: at most 7 per row)
        let n_ns = if many_ns { k } else { rng.usize(1, k.min(5)) };
        let mut nss: Vec<Namespace> = (0..n_ns).map(|_| user_ns(rng)).collect();
        if rng.chance(1, 3) {
            nss.push(Namespace::PAY_FOR_BLOB);
        }
        if rng.chance(1, 4) {
            nss.push(Namespace::TAIL_PADDING);
        }
        let mut per: Vec<Namespace> = (0..k).map(|_| *rng.pick(&nss)).collect();
        per.sort();
        per.iter().map(|ns| ods_share(rng, ns)).collect()
    } else {
        (0..k).map(|_| rng.bytes(SHARE_SIZE)).collect()
    };
    left.resize(w, vec![0; SHARE_SIZE]);
    leopard_codec::encode(&mut left, k).expect("encode");
    left
}

fn flags_for(w: usize, i: usize, n: usize) -> String {
    (0..n).map(|c| if i < w / 2 && c < w / 2 { '0' } else { '1' }).collect()
}

fn row_id(i: u64) -> RowId {
    RowId::new(i as u16, HEIGHT).unwrap()
}

impl C05 {
    fn dah(&self) -> DataAvailabilityHeader {
        // column roots are deliberately unrelated to the row roots: a verifier that looks at the wrong axis must fail
        let cols = vec![NamespacedHash::from_raw(&[0xAB; 90]).unwrap(); self.roots.len()];
        DataAvailabilityHeader::new_unchecked(self.roots.clone(), cols)
    }

    fn gen_for_row(&mut self, rng: &mut Rng, w: usize, i: usize, heavy: bool, out: &mut Emitter) {
        let k = w / 2;
        let top = i < k;
        let row = gen_row(rng, w, top, self.many_ns);
        let flags = flags_for(w, i, w);
        out.op(format!("commit w={w} i={i} shares={}", hxl(&row)), &format!("commit/w{w}{}", if self.many_ns { "-many-ns" } else { "" }), true);
        let left: Vec<Vec<u8>> = row[..k].to_vec();
        let right: Vec<Vec<u8>> = row[k..].to_vec();
        out.op(format!("roundtrip i={i} side=left oracle={}", oracle(0, &left)), "roundtrip/left", true);
        out.op(format!("roundtrip i={i} side=right oracle={}", oracle(1, &right)), "roundtrip/right", true);
        out.op(format!("verify i={i} shares={} flags={flags}", hxl(&row)), "verify/honest", true);
        out.op(format!("recv i={i} side=0 half={} oracle={}", hxl(&left), oracle(0, &left)), "recv/honest-left", true);
        out.op(format!("recv i={i} side=1 half={} oracle={}", hxl(&right), oracle(1, &right)), "recv/honest-right", true);
        if !heavy {
            return;
        }
        // single-share mutations: every position for small rows, a sample otherwise
        let positions: Vec<usize> = if w <= 8 { (0..w).collect() } else { (0..6).map(|_| rng.usize(0, w - 1)).collect() };
        for &p in &positions {
            let mut m = row.clone();
            let byte = if rng.chance(1, 3) { rng.usize(19, 28) } else { rng.usize(29, SHARE_SIZE - 1) };
            m[p][byte] ^= 1 << rng.below(8);
            out.op(format!("verify i={i} shares={} flags={flags}", hxl(&m)), "verify/one-share-altered", true);
            // parity flag of one share flipped (keeps the bytes)
            let mut f: Vec<char> = flags.chars().collect();
            f[p] = if f[p] == '0' { '1' } else { '0' };
            let fs: String = f.into_iter().collect();
            // a parity share flagged as data must still carry a valid namespace to be constructible
            if fs.chars().nth(p) == Some('1') || Namespace::from_raw(&row[p][..29]).is_ok() {
                out.op(format!("verify i={i} shares={} flags={fs}", hxl(&row)), "verify/one-flag-flipped", true);
            }
        }
        // reorderings
        for _ in 0..3 {
            let a = rng.usize(0, w - 1);
            let b = rng.usize(0, w - 1);
            if a != b {
                let mut m = row.clone();
                m.swap(a, b);
                out.op(format!("verify i={i} shares={} flags={flags}", hxl(&m)), "verify/two-shares-swapped", true);
                // swap together with their flags
                let mut f: Vec<char> = flags.chars().collect();
                f.swap(a, b);
                let fs: String = f.into_iter().collect();
                if (0..w).all(|c| fs.as_bytes()[c] == b'1' || Namespace::from_raw(&m[c][..29]).is_ok()) {
                    out.op(format!("verify i={i} shares={} flags={fs}", hxl(&m)), "verify/swapped-with-flags", true);
                }
            }
        }
        let mut m = row.clone();
        m.reverse();
        out.op(format!("verify i={i} shares={} flags={}", hxl(&m), "1".repeat(w)), "verify/reversed-all-parity", true);
        // length changes
        let mut m = row.clone();
        m.pop();
        out.op(format!("verify i={i} shares={} flags={}", hxl(&m), &flags[..w - 1]), "verify/last-dropped", true);
        let mut m = row.clone();
        m.remove(0);
        out.op(format!("verify i={i} shares={} flags={}", hxl(&m), &flags[1..]), "verify/first-dropped", true);
        let mut m = row.clone();
        m.push(row[w - 1].clone());
        out.op(format!("verify i={i} shares={} flags={}1", hxl(&m), flags), "verify/extra-share", true);
        out.op(format!("verify i={i} shares={} flags={}", hxl(&left), &flags[..k]), "verify/left-half-only", true);
        out.op(format!("verify i={i} shares=- flags=-"), "verify/empty-row", true);
        // other indices
        let j = (i + 1 + rng.usize(0, w - 2)) % w;
        out.op(format!("verify i={j} shares={} flags={flags}", hxl(&row)), "verify/other-index", true);
        out.op(format!("verify i={} shares={} flags={flags}", w + rng.usize(0, 3), hxl(&row)), "verify/index-out-of-range", true);
        out.op(format!("verify i={j} shares=- flags=-"), "verify/empty-row-at-other-index", true);

        // wire-level mutations
        let mut m = left.clone();
        let p = rng.usize(0, k - 1);
        m[p][rng.usize(30, SHARE_SIZE - 1)] ^= 0x40;
        out.op(format!("recv i={i} side=0 half={} oracle={}", hxl(&m), oracle(0, &m)), "recv/left-one-share-altered", true);
        let mut m = right.clone();
        let p = rng.usize(0, k - 1);
        m[p][rng.usize(0, SHARE_SIZE - 1)] ^= 0x04;
        out.op(format!("recv i={i} side=1 half={} oracle={}", hxl(&m), oracle(1, &m)), "recv/right-one-share-altered", true);
        out.op(format!("recv i={i} side=0 half={} oracle={}", hxl(&right), oracle(0, &right)), "recv/right-half-sent-as-left", true);
        out.op(format!("recv i={i} side=1 half={} oracle={}", hxl(&left), oracle(1, &left)), "recv/left-half-sent-as-right", true);
        out.op(format!("recv i={i} side=7 half={} oracle={}", hxl(&left), oracle(7, &left)), "recv/unknown-side", true);
        out.op(format!("recv i={j} side=0 half={} oracle={}", hxl(&left), oracle(0, &left)), "recv/other-index", true);
        if k >= 2 {
            let mut m = left.clone();
            m.swap(0, k - 1);
            out.op(format!("recv i={i} side=0 half={} oracle={}", hxl(&m), oracle(0, &m)), "recv/left-reordered", true);
            let mut m = left.clone();
            m.pop();
            out.op(format!("decode i={i} side=0 half={} oracle={}", hxl(&m), oracle(0, &m)), "decode/one-share-missing", true);
            let mut m = right.clone();
            m.pop();
            out.op(format!("decode i={i} side=1 half={} oracle={}", hxl(&m), oracle(1, &m)), "decode/one-share-missing", true);
        }
        out.op(format!("decode i={i} side=0 half={} oracle={}", hxl(&left), oracle(0, &left)), "decode/honest-left", true);
        out.op(format!("decode i={i} side=1 half={} oracle={}", hxl(&right), oracle(1, &right)), "decode/honest-right", true);
        let mut m = left.clone();
        m[0].pop();
        out.op(format!("decode i={i} side=0 half={} oracle={}", hxl(&m), oracle(0, &m)), "decode/unequal-share-lengths", true);
        let m: Vec<Vec<u8>> = left.iter().map(|s| s[..100].to_vec()).collect();
        out.op(format!("decode i={i} side=0 half={} oracle={}", hxl(&m), oracle(0, &m)), "decode/share-size-100", true);
        let m: Vec<Vec<u8>> = left.iter().map(|s| s[..448].to_vec()).collect();
        out.op(format!("decode i={i} side=0 half={} oracle={}", hxl(&m), oracle(0, &m)), "decode/share-size-448", true);
        if top {
            let mut m = left.clone();
            m[rng.usize(0, k - 1)][0] = 9;
            out.op(format!("decode i={i} side=0 half={} oracle={}", hxl(&m), oracle(0, &m)), "decode/bad-namespace", true);
        }
        let e: Vec<Vec<u8>> = vec![];
        out.op(format!("decode i={i} side=0 half=- oracle={}", oracle(0, &e)), "decode/empty-half", true);
        out.op(format!("decode i={i} side=1 half=- oracle={}", oracle(1, &e)), "decode/empty-half", true);
    }
}

impl Prop for C05 {
    fn id(&self) -> &'static str {
        "C05"
    }
    fn rule(&self) -> &'static str {
        "Rows of extended squares of every width the codec supports (2..256): k namespace-sorted data shares (top half) or k \
         parity shares (bottom half) extended by the real leopard codec and committed into a DAH row root by the real Nmt. Per \
         row: encode->decode round trips from the left half and by reconstruction from the right half (real codec; its output \
         is also the model's oracle), honest verify, every-position (width<=8) or sampled single-share alterations, parity-flag \
         flips, swaps/reversal, dropped/extra shares, half rows, empty rows, other/out-of-range indices, wire-level \
         from_raw+verify with altered/reordered/mislabelled halves, unknown side values, missing shares, unequal/odd share sizes, \
         bad namespaces, empty halves, 129-share halves. S10 size-threshold stress: rows with about one namespace per data share \
         (widths 16..256, i.e. 8..128 distinct namespaces in one row; tags commit/wN-many-ns; before at most 7 namespaces per row) and widths \
         that are not powers of two (6, 10, 14, 18, 30, 34, 62, 66, 126, 130, 254). Non-trivial = every case; distinct = distinct (op, result) lines."
    }
    fn gen_ops(&mut self, rng: &mut Rng, tier: Tier, out: &mut Emitter) {
        // (width, rows with the heavy mutation set, rows with the light set)
        let plan: Vec<(usize, usize, usize)> = if tier == Tier::Thorough {
            vec![(2, 2, 0), (4, 4, 0), (8, 8, 0), (16, 16, 0), (32, 32, 0), (64, 24, 16), (128, 8, 16), (256, 2, 8)]
        } else {
            vec![(2, 2, 0), (4, 4, 0), (8, 8, 0), (16, 8, 0), (32, 4, 0), (64, 2, 1), (128, 0, 2), (256, 0, 1)]
        };
        // S10 size-threshold stress, appended after the regular plan: (a) rows whose data shares carry about one
        // namespace EACH (8..128 distinct namespaces in one row), top rows only matter; (b) widths that are not
        // powers of two (2^k +- 2: the codec and the NMT take any even width): 6, 10, 14, 18, 30, 34, 62, 66, 126, 130, 254
        let plan_len = plan.len();
        let mut plan = plan;
        if tier == Tier::Thorough {
            plan.extend([(16, 8, 0), (32, 8, 0), (64, 4, 4), (128, 2, 4), (256, 1, 3)]);
            plan.extend([(6, 6, 0), (10, 4, 0), (14, 4, 0), (18, 4, 0), (30, 2, 2), (34, 2, 2), (62, 1, 2), (66, 1, 2), (126, 0, 2), (130, 0, 2), (254, 0, 2)]);
        } else {
            plan.extend([(16, 2, 0), (32, 1, 1), (64, 0, 2), (128, 0, 1), (256, 0, 1)]);
            plan.extend([(6, 2, 0), (10, 1, 0), (14, 0, 1), (18, 1, 0), (30, 0, 1), (34, 0, 1), (62, 0, 1), (66, 0, 1), (126, 0, 1), (130, 0, 1), (254, 0, 1)]);
        }
        for (pi, (w, heavy, light)) in plan.into_iter().enumerate() {
            self.many_ns = pi >= plan_len && pi < plan_len + 5;
            out.op("reset", "reset", false);
            let mut idx: Vec<usize> = (0..w).collect();
            rng.shuffle(&mut idx);
            // always include a top and a bottom row, first and last
            // (many-namespace rows: top rows first, only they carry namespaces)
            let mut chosen: Vec<usize> = if self.many_ns { vec![0, w / 2 - 1, 1, w - 1] } else { vec![0, w - 1, w / 2 - 1, w / 2] };
            chosen.extend(idx);
            chosen.dedup();
            let mut seen = std::collections::BTreeSet::new();
            let mut n = 0;
            for i in chosen {
                if n >= heavy + light {
                    break;
                }
                if !seen.insert(i) {
                    continue;
                }
                self.gen_for_row(rng, w, i, n < heavy, out);
                n += 1;
            }
            if w == 256 && pi < plan_len {
                // more than 128 shares in a half: the codec's shard limit
                let big: Vec<Vec<u8>> = (0..129).map(|_| rng.bytes(SHARE_SIZE)).collect();
                out.op(format!("decode i=200 side=0 half={} oracle={}", hxl(&big), oracle(0, &big)), "decode/129-shares", true);
            }
        }
    }
    fn run(&mut self, line: &str) -> String {
        match opname(line) {
            "reset" => {
                self.w = 0;
                self.roots.clear();
                self.committed.clear();
                "ok".into()
            }
            "commit" => {
                let (Some(w), Some(i), Some(shares)) = (arg_u64(line, "w"), arg_u64(line, "i"), arg(line, "shares").and_then(unhxl)) else {
                    return "bad-op".into();
                };
                let (w, i) = (w as usize, i as usize);
                if self.w != w {
                    self.w = w;
                    self.roots = vec![NamespacedHash::empty_root(); w];
                    self.committed.clear();
                }
                let mut tree = Nmt::default();
                for (c, d) in shares.iter().enumerate() {
                    let Some(s) = share_of(d, !(i < w / 2 && c < w / 2)) else { return "bad-share".into() };
                    if tree.push_leaf(s.as_ref(), *s.namespace()).is_err() {
                        return "err Nmt".into();
                    }
                }
                let root = tree.root();
                self.roots[i] = root.clone();
                self.committed.insert(i as u16, shares);
                format!("ok root={}", hx(&root.to_vec()))
            }
            "verify" => {
                let (Some(i), Some(shares), Some(flags)) = (arg_u64(line, "i"), arg(line, "shares").and_then(unhxl), arg(line, "flags")) else {
                    return "bad-op".into();
                };
                let flags = if flags == "-" { "" } else { flags };
                let mut row = Row { shares: vec![] };
                for (d, f) in shares.iter().zip(flags.chars()) {
                    let Some(s) = share_of(d, f == '1') else { return "bad-share".into() };
                    row.shares.push(s);
                }
                res_line(row.verify(row_id(i), &self.dah()))
            }
            "decode" | "recv" => {
                let (Some(i), Some(side), Some(half)) = (arg_u64(line, "i"), arg_u64(line, "side"), arg(line, "half").and_then(unhxl)) else {
                    return "bad-op".into();
                };
                let raw = RawRow { shares_half: half.into_iter().map(|d| RawShare { data: d }).collect(), half_side: side as i32 };
                match Row::from_raw(row_id(i), raw) {
                    Err(e) => format!("err decode:{}", err_kind(&e)),
                    Ok(row) => {
                        let shares: Vec<Vec<u8>> = row.shares.iter().map(|s| s.to_vec()).collect();
                        if opname(line) == "decode" {
                            let flags: String = row.shares.iter().map(|s| if s.is_parity() { '1' } else { '0' }).collect();
                            format!("ok shares={} flags={flags}", hxl(&shares))
                        } else {
                            match row.verify(row_id(i), &self.dah()) {
                                Ok(()) => format!("ok shares={}", hxl(&shares)),
                                Err(e) => format!("err {}", err_kind(&e)),
                            }
                        }
                    }
                }
            }
            "roundtrip" => {
                let (Some(i), Some(side)) = (arg_u64(line, "i"), arg(line, "side")) else { return "bad-op".into() };
                let Some(raw_shares) = self.committed.get(&(i as u16)) else { return "no-row".into() };
                let w = self.w;
                let shares: Vec<Share> = raw_shares
                    .iter()
                    .enumerate()
                    .map(|(c, d)| share_of(d, !((i as usize) < w / 2 && c < w / 2)).unwrap())
                    .collect();
                let row = Row { shares };
                let mut buf = BytesMut::new();
                if side == "right" {
                    let raw = RawRow {
                        shares_half: row.shares[w / 2..].iter().map(|s| RawShare { data: s.to_vec() }).collect(),
                        half_side: 1,
                    };
                    raw.encode(&mut buf).unwrap();
                } else {
                    row.encode(&mut buf);
                }
                match Row::decode(row_id(i), &buf) {
                    Err(e) => format!("err decode:{}", err_kind(&e)),
                    Ok(d) => {
                        let shares: Vec<Vec<u8>> = d.shares.iter().map(|s| s.to_vec()).collect();
                        let flags: String = d.shares.iter().map(|s| if s.is_parity() { '1' } else { '0' }).collect();
                        let v = res_line(d.verify(row_id(i), &self.dah())).replace(' ', ":");
                        format!("ok shares={} flags={flags} verify={v}", hxl(&shares))
                    }
                }
            }
            _ => "bad-op".into(),
        }
    }
    fn result_tag(&self, _line: &str, result: &str) -> Option<String> {
        let mut it = result.split(' ');
        let a = it.next().unwrap_or("");
        if a == "err" { Some(format!("err:{}", it.next().unwrap_or(""))) } else { Some(a.to_string()) }
    }
}

fn main() {
    main_for(C05 { many_ns: false, w: 0, roots: vec![], committed: BTreeMap::new() });
}

//! Correspondence harness framework (DESIGN.md sections 1-3).
//!
//! Each property has one binary `src/bin/cNN.rs` that implements [`Prop`]:
//!
//! * `gen` produces operation lines (the line protocol, one op per line) from one
//!   SplitMix64 PRNG seeded by `VERIF_SEED`/`--seed`;
//! * `run` executes ONE operation line against the REAL implementation (in-process, with
//!   whatever state the property needs) and returns the canonical result line.
//!
//! The framework runs every generated (or replayed) line through `run` under
//! `catch_unwind`, and writes
//!
//! * `<out>/ops.txt`    the operation lines          → stdin of `drv_Cxx model`
//! * `<out>/impl.out`   the implementation's results → diffed against the model's output
//! * `<out>/spec.in`    `op \t=>\t impl-result`       → stdin of `drv_Cxx spec`
//! * `<out>/panics.log` messages of caught panics (the canonical result is the bare word `panic`)
//! * `<out>/stats.json` measured input distribution (evaluations, distinct non-trivial
//!   cases, tag histogram, samples).
//!
//! Usage: `cNN --seed N --tier quick|thorough --out DIR [--replay FILE] [--corpus DIR]`

use std::collections::{BTreeMap, HashSet};
use std::fmt::Write as _;
use std::hash::{Hash, Hasher};
use std::io::Write as _;
use std::panic::{AssertUnwindSafe, catch_unwind};
use std::path::PathBuf;

/// SplitMix64: the single source of randomness.
#[derive(Clone, Debug)]
pub struct Rng(pub u64);

impl Rng {
    pub fn new(seed: u64) -> Self {
        Rng(seed ^ 0x9E37_79B9_7F4A_7C15)
    }
    pub fn next_u64(&mut self) -> u64 {
        self.0 = self.0.wrapping_add(0x9E37_79B9_7F4A_7C15);
        let mut z = self.0;
        z = (z ^ (z >> 30)).wrapping_mul(0xBF58_476D_1CE4_E5B9);
        z = (z ^ (z >> 27)).wrapping_mul(0x94D0_49BB_1331_11EB);
        z ^ (z >> 31)
    }
    /// uniform in `0..n` (n > 0)
    pub fn below(&mut self, n: u64) -> u64 {
        if n == 0 { 0 } else { self.next_u64() % n }
    }
    /// uniform in `lo..=hi`
    pub fn range(&mut self, lo: u64, hi: u64) -> u64 {
        if hi <= lo { lo } else if hi - lo == u64::MAX { self.next_u64() } else { lo + self.below(hi - lo + 1) }
    }
    pub fn usize(&mut self, lo: usize, hi: usize) -> usize {
        self.range(lo as u64, hi as u64) as usize
    }
    pub fn bool(&mut self) -> bool {
        self.next_u64() & 1 == 1
    }
    /// true with probability num/den
    pub fn chance(&mut self, num: u64, den: u64) -> bool {
        self.below(den) < num
    }
    pub fn byte(&mut self) -> u8 {
        self.next_u64() as u8
    }
    pub fn bytes(&mut self, n: usize) -> Vec<u8> {
        (0..n).map(|_| self.byte()).collect()
    }
    pub fn pick<'a, T>(&mut self, xs: &'a [T]) -> &'a T {
        &xs[self.below(xs.len() as u64) as usize]
    }
    pub fn shuffle<T>(&mut self, xs: &mut [T]) {
        for i in (1..xs.len()).rev() {
            let j = self.below(i as u64 + 1) as usize;
            xs.swap(i, j);
        }
    }
    /// a fork with an independent stream (for sub-generators)
    pub fn fork(&mut self) -> Rng {
        Rng::new(self.next_u64())
    }
}

impl rand::RngCore for Rng {
    fn next_u32(&mut self) -> u32 {
        self.next_u64() as u32
    }
    fn next_u64(&mut self) -> u64 {
        Rng::next_u64(self)
    }
    fn fill_bytes(&mut self, dest: &mut [u8]) {
        for b in dest {
            *b = self.byte();
        }
    }
    fn try_fill_bytes(&mut self, dest: &mut [u8]) -> Result<(), rand::Error> {
        self.fill_bytes(dest);
        Ok(())
    }
}
impl rand::CryptoRng for Rng {}

/// hex of bytes; `-` for empty (every field on the wire is non-empty)
pub fn hx(b: &[u8]) -> String {
    if b.is_empty() { "-".to_string() } else { hex::encode(b) }
}
/// inverse of [`hx`]
pub fn unhx(s: &str) -> Option<Vec<u8>> {
    if s == "-" { Some(vec![]) } else { hex::decode(s).ok() }
}
/// comma separated list of hex strings; `-` = empty list, `_` = empty item
pub fn hxl<T: AsRef<[u8]>>(l: &[T]) -> String {
    if l.is_empty() {
        "-".into()
    } else {
        l.iter()
            .map(|b| if b.as_ref().is_empty() { "_".to_string() } else { hex::encode(b.as_ref()) })
            .collect::<Vec<_>>()
            .join(",")
    }
}
pub fn unhxl(s: &str) -> Option<Vec<Vec<u8>>> {
    if s == "-" {
        return Some(vec![]);
    }
    s.split(',').map(|t| if t == "_" { Some(vec![]) } else { hex::decode(t).ok() }).collect()
}
/// comma separated naturals, `-` = empty
pub fn natl<T: ToString>(l: &[T]) -> String {
    if l.is_empty() { "-".into() } else { l.iter().map(|x| x.to_string()).collect::<Vec<_>>().join(",") }
}
pub fn unnatl(s: &str) -> Option<Vec<u64>> {
    if s == "-" {
        return Some(vec![]);
    }
    s.split(',').map(|t| t.parse().ok()).collect()
}

/// `key=value` lookup among the space separated words of an op line
pub fn arg<'a>(line: &'a str, key: &str) -> Option<&'a str> {
    line.split(' ').filter(|w| !w.is_empty()).find_map(|w| {
        let (k, v) = w.split_once('=')?;
        (k == key).then_some(v)
    })
}
pub fn arg_u64(line: &str, key: &str) -> Option<u64> {
    arg(line, key)?.parse().ok()
}
pub fn arg_hex(line: &str, key: &str) -> Option<Vec<u8>> {
    unhx(arg(line, key)?)
}
/// first word of the line
pub fn opname(line: &str) -> &str {
    line.split(' ').find(|w| !w.is_empty()).unwrap_or("")
}

/// What the generator hands to the framework.
pub struct Emitter {
    pub lines: Vec<String>,
    /// per-line tags for the input-distribution histogram (e.g. "from_raw/valid-v0")
    pub tags: Vec<Vec<String>>,
    /// per-line: is this case non-trivial by the property's stated rule?
    pub nontrivial: Vec<bool>,
}

impl Emitter {
    pub fn new() -> Self {
        Emitter { lines: vec![], tags: vec![], nontrivial: vec![] }
    }
    /// emit one op line, with a tag and a non-triviality flag
    pub fn op(&mut self, line: impl Into<String>, tag: &str, nontrivial: bool) {
        let line = line.into();
        debug_assert!(!line.contains('\n') && !line.contains('\t'));
        self.lines.push(line);
        self.tags.push(vec![tag.to_string()]);
        self.nontrivial.push(nontrivial);
    }
    pub fn len(&self) -> usize {
        self.lines.len()
    }
    pub fn is_empty(&self) -> bool {
        self.lines.is_empty()
    }
}

impl Default for Emitter {
    fn default() -> Self {
        Self::new()
    }
}

#[derive(Clone, Copy, PartialEq, Eq, Debug)]
pub enum Tier {
    Quick,
    Thorough,
}

pub trait Prop {
    /// property id, e.g. "C14"
    fn id(&self) -> &'static str;
    /// how cases are generated and what makes one non-trivial (goes into the evidence)
    fn rule(&self) -> &'static str;
    /// generate operation lines
    fn gen_ops(&mut self, rng: &mut Rng, tier: Tier, out: &mut Emitter);
    /// run one op line against the real implementation; returns the canonical result line.
    /// Called in order; the implementor keeps whatever state the ops build up.
    /// A line `reset` must bring the state back to initial.
    fn run(&mut self, line: &str) -> String;
    /// optional: an extra tag derived from (line, result) for the histogram (error kinds etc.)
    fn result_tag(&self, _line: &str, result: &str) -> Option<String> {
        Some(result.split(' ').next().unwrap_or("").to_string())
    }
    /// optional (concurrency properties): what the implementation was OBSERVED to do while running
    /// the last op, when that is schedule-dependent (e.g. the canonicalised event trace of a racy
    /// run).  Called once right after `run`.  `Some(t)` makes the framework record the op as
    /// `<line without obs= words> obs=<t>` in ops.txt / spec.in, so the model driver can check
    /// that the observed trace is a run of the model.  `t` must contain no whitespace.  On replay
    /// the op is re-executed and a recorded `obs=` word is replaced by the fresh observation.
    fn observed(&mut self, _line: &str) -> Option<String> {
        None
    }
}

fn hash64<T: Hash>(t: &T) -> u64 {
    let mut h = std::collections::hash_map::DefaultHasher::new();
    t.hash(&mut h);
    h.finish()
}

/// Run `f`, mapping a panic to `panic <message>` (single line, no addresses).
pub fn guarded(f: impl FnOnce() -> String) -> String {
    match catch_unwind(AssertUnwindSafe(f)) {
        Ok(s) => s,
        Err(e) => {
            let msg = if let Some(s) = e.downcast_ref::<&str>() {
                s.to_string()
            } else if let Some(s) = e.downcast_ref::<String>() {
                s.clone()
            } else {
                "?".to_string()
            };
            let msg: String = msg.replace(['\n', '\t', '\r'], " ");
            format!("panic {}", msg.chars().take(160).collect::<String>())
        }
    }
}

struct Args {
    seed: u64,
    tier: Tier,
    out: PathBuf,
    replay: Option<PathBuf>,
    corpus: Option<PathBuf>,
}

fn parse_args() -> Args {
    let mut a = Args {
        seed: std::env::var("VERIF_SEED").ok().and_then(|s| s.parse().ok()).unwrap_or(1),
        tier: match std::env::var("VERIF_TIER").as_deref() {
            Ok("thorough") => Tier::Thorough,
            _ => Tier::Quick,
        },
        out: PathBuf::from("."),
        replay: None,
        corpus: None,
    };
    let v: Vec<String> = std::env::args().collect();
    let mut i = 1;
    while i < v.len() {
        match v[i].as_str() {
            "--seed" => {
                a.seed = v[i + 1].parse().expect("seed");
                i += 1
            }
            "--tier" => {
                a.tier = if v[i + 1] == "thorough" { Tier::Thorough } else { Tier::Quick };
                i += 1
            }
            "--out" => {
                a.out = PathBuf::from(&v[i + 1]);
                i += 1
            }
            "--replay" => {
                a.replay = Some(PathBuf::from(&v[i + 1]));
                i += 1
            }
            "--corpus" => {
                a.corpus = Some(PathBuf::from(&v[i + 1]));
                i += 1
            }
            x => panic!("unknown argument {x}"),
        }
        i += 1;
    }
    a
}

/// Entry point of every property binary.
pub fn main_for(mut p: impl Prop) {
    let args = parse_args();
    // keep panic messages out of stderr noise but still visible in logs
    std::panic::set_hook(Box::new(|info| {
        // VERIF_SHOW_PANICS=1: debugging aid for harness authors (panics are otherwise only logged)
        if std::env::var_os("VERIF_SHOW_PANICS").is_some() {
            eprintln!("{info}");
        }
    }));
    std::fs::create_dir_all(&args.out).expect("out dir");

    let mut em = Emitter::new();
    let mut corpus_lines = 0usize;
    if let Some(f) = &args.replay {
        for l in std::fs::read_to_string(f).expect("replay file").lines() {
            let l = l.split("\t=>\t").next().unwrap();
            if l.trim().is_empty() || l.starts_with('#') {
                continue;
            }
            em.op(l, "replay", true);
        }
    } else {
        // corpus first (minimised past failures), each file followed by a reset
        if let Some(dir) = &args.corpus {
            let mut files: Vec<_> = std::fs::read_dir(dir)
                .map(|d| d.filter_map(|e| e.ok()).map(|e| e.path()).collect())
                .unwrap_or_default();
            files.sort();
            for f in files {
                if f.extension().and_then(|e| e.to_str()) != Some("ops") {
                    continue;
                }
                for l in std::fs::read_to_string(&f).unwrap_or_default().lines() {
                    let l = l.split("\t=>\t").next().unwrap();
                    if l.trim().is_empty() || l.starts_with('#') {
                        continue;
                    }
                    em.op(l, "corpus", true);
                }
                em.op("reset", "corpus", false);
            }
            corpus_lines = em.len();
        }
        let mut rng = Rng::new(args.seed);
        p.gen_ops(&mut rng, args.tier, &mut em);
    }

    let mut ops = std::io::BufWriter::new(std::fs::File::create(args.out.join("ops.txt")).unwrap());
    let mut imp = std::io::BufWriter::new(std::fs::File::create(args.out.join("impl.out")).unwrap());
    let mut spc = std::io::BufWriter::new(std::fs::File::create(args.out.join("spec.in")).unwrap());
    let mut plog = std::io::BufWriter::new(std::fs::File::create(args.out.join("panics.log")).unwrap());

    let mut hist: BTreeMap<String, u64> = BTreeMap::new();
    let mut distinct: HashSet<u64> = HashSet::new();
    let mut distinct_nontrivial: HashSet<u64> = HashSet::new();
    let mut samples: Vec<String> = vec![];
    let mut panics = 0u64;
    let n = em.lines.len();
    let sample_every = (n / 12).max(1);

    for (i, line) in em.lines.iter().enumerate() {
        let res = if line == "reset" {
            let r = guarded(|| p.run(line));
            if r.starts_with("panic") { r } else { "ok".to_string() }
        } else {
            guarded(|| p.run(line))
        };
        let mut res = res.replace(['\n', '\t', '\r'], " ");
        if res.starts_with("panic") {
            // canonical form is the bare word `panic`; the message goes to panics.log
            panics += 1;
            writeln!(plog, "{i}\t{line}\t{res}").unwrap();
            res = "panic".to_string();
        }
        let observed_line: Option<String> = p.observed(line).map(|t| {
            let mut ws: Vec<&str> = line.split(' ').filter(|w| !w.is_empty() && !w.starts_with("obs=")).collect();
            let o = format!("obs={}", t.replace([' ', '\n', '\t', '\r'], "_"));
            ws.push(&o);
            ws.join(" ")
        });
        let line: &String = observed_line.as_ref().unwrap_or(line);
        writeln!(ops, "{line}").unwrap();
        writeln!(imp, "{res}").unwrap();
        writeln!(spc, "{line}\t=>\t{res}").unwrap();
        for t in &em.tags[i] {
            *hist.entry(format!("in:{t}")).or_default() += 1;
        }
        if let Some(t) = p.result_tag(line, &res) {
            *hist.entry(format!("out:{}:{t}", opname(line))).or_default() += 1;
        }
        let h = hash64(&(line, &res));
        distinct.insert(h);
        if em.nontrivial[i] {
            distinct_nontrivial.insert(h);
        }
        if i % sample_every == 0 && samples.len() < 16 {
            let mut s = String::new();
            let _ = write!(s, "{line} => {res}");
            samples.push(s.chars().take(400).collect());
        }
    }
    ops.flush().unwrap();
    imp.flush().unwrap();
    spc.flush().unwrap();
    plog.flush().unwrap();

    let stats = serde_json::json!({
        "property_id": p.id(),
        "seed": args.seed,
        "tier": if args.tier == Tier::Thorough { "thorough" } else { "quick" },
        "evaluations": n,
        "corpus_lines": corpus_lines,
        "distinct": distinct.len(),
        "distinct_nontrivial": distinct_nontrivial.len(),
        "rule": p.rule(),
        "impl_panics": panics,
        "histogram": hist,
        "samples": samples,
    });
    std::fs::write(args.out.join("stats.json"), serde_json::to_string_pretty(&stats).unwrap()).unwrap();
}

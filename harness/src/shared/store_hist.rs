//! Shared history harness for C19 / C20 / C21 (header stores).
//!
//! The same operation line is executed on the REAL `InMemoryStore` and on the REAL
//! `RedbStore::in_memory()`; after every mutating operation the full observable state of
//! both stores (every query of the `Store` trait over the universe of heights / hashes of
//! the history's header pool) is dumped into the result line.
//!
//! Headers are real `ExtendedHeader`s built with the repository's `ExtendedHeaderGenerator`
//! (plus unvalidated mutants); on the wire they are abstract: pool id, height and a small
//! hash id (first-seen numbering of the real `hash()` bytes).  The `vok=` argument of an
//! `insert` line is the header-verification ORACLE taken from the real code:
//! every pair `a>b` for which `pool[a].verify(&pool[b])` is `Ok`, among the pairs the store can
//! possibly consult for that batch (consecutive batch members, every pool header one below
//! the batch head, every pool header one above the batch tail).
#![allow(dead_code)]

use std::collections::{BTreeMap, BTreeSet, HashMap};

use celestia_types::ExtendedHeader;
use celestia_types::hash::Hash;
use celestia_types::test_utils::{ExtendedHeaderGenerator, unverify};
use cid::Cid;
use lumina_node::store::{
    BlockRanges, BlockRangesError, EitherStore, InMemoryStore, RedbStore, SamplingMetadata, Store, StoreError,
    StoreInsertionError, VerifiedExtendedHeaders,
};
use tendermint_proto::Protobuf;
use verif_harness::*;

type Real = EitherStore<InMemoryStore, RedbStore>;

#[derive(Clone, Copy, PartialEq, Eq, Debug)]
pub enum Mode {
    C19,
    C20,
    C21,
}

pub struct Hist {
    pub mode: Mode,
    rt: tokio::runtime::Runtime,
    /// both real stores are driven through `EitherStore` (either_store.rs: pure delegation)
    mem: Real,
    redb: Real,
    /// header pool of the current history
    pool: Vec<ExtendedHeader>,
    /// does pool[i] survive encode/decode (= pass `validate`)?
    valid: Vec<bool>,
    pool_of_bytes: HashMap<Vec<u8>, usize>,
    by_height: BTreeMap<u64, Vec<usize>>,
    /// real hash -> small id, first-seen order
    hash_ids: HashMap<Hash, u64>,
    hash_by_id: Vec<Hash>,
    generators: Vec<ExtendedHeaderGenerator>,
    /// headers built while generating op lines, reused by `run` (key = `key=` of the gen line)
    cache: HashMap<u64, Vec<ExtendedHeader>>,
    next_key: u64,
    /// number of lines executed so far / index of the first generated (non-corpus) line:
    /// the cache is only valid for lines produced by this process's generator
    lines_run: usize,
    pub cache_from: usize,
    /// per store: the dump after the last mutating op, with the key it is valid for
    last_dump: std::cell::RefCell<[Option<((usize, usize, u64), String)>; 2]>,
    /// number of mutating op lines executed in this history
    mutations: std::cell::Cell<u64>,
}

fn range_err_kind(e: &BlockRangesError) -> &'static str {
    match e {
        BlockRangesError::UnsortedBlockRanges => "Unsorted",
        BlockRangesError::InvalidBlockRange(_) => "Invalid",
        BlockRangesError::BlockRangeOverlap(_, _) => "Overlap",
        BlockRangesError::NoAdjacentNeighbors(_) => "NoAdjacent",
    }
}

fn show_ranges(r: &BlockRanges) -> String {
    let v: &[std::ops::RangeInclusive<u64>] = r.as_ref();
    if v.is_empty() {
        "-".into()
    } else {
        v.iter().map(|x| format!("{}-{}", x.start(), x.end())).collect::<Vec<_>>().join(",")
    }
}

/// run-length compression of an ascending list of naturals: `1-3,7-7`
fn compress(xs: &[u64]) -> String {
    if xs.is_empty() {
        return "-".into();
    }
    let mut out = vec![];
    let (mut s, mut e) = (xs[0], xs[0]);
    for &x in &xs[1..] {
        if x == e + 1 {
            e = x;
        } else {
            out.push(format!("{s}-{e}"));
            s = x;
            e = x;
        }
    }
    out.push(format!("{s}-{e}"));
    out.join(",")
}

fn cid_of(n: u64) -> Cid {
    let mh = multihash::Multihash::<64>::wrap(0, &n.to_be_bytes()).unwrap();
    Cid::new_v1(0x55, mh)
}
fn num_of_cid(c: &Cid) -> String {
    let d = c.hash().digest();
    if c.codec() == 0x55 && c.hash().code() == 0 && d.len() == 8 {
        u64::from_be_bytes(d.try_into().unwrap()).to_string()
    } else {
        "?".into()
    }
}

impl Hist {
    pub fn new(mode: Mode) -> Self {
        let rt = tokio::runtime::Builder::new_multi_thread().worker_threads(1).enable_all().build().unwrap();
        let redb = rt.block_on(RedbStore::in_memory()).unwrap();
        Hist {
            mode,
            rt,
            mem: EitherStore::Left(InMemoryStore::new()),
            redb: EitherStore::Right(redb),
            pool: vec![],
            valid: vec![],
            pool_of_bytes: HashMap::new(),
            by_height: BTreeMap::new(),
            hash_ids: HashMap::new(),
            hash_by_id: vec![],
            generators: vec![],
            cache: HashMap::new(),
            next_key: 0,
            lines_run: 0,
            cache_from: usize::MAX,
            last_dump: std::cell::RefCell::new([None, None]),
            mutations: std::cell::Cell::new(0),
        }
    }

    fn reset(&mut self) {
        self.mem = EitherStore::Left(InMemoryStore::new());
        self.redb = EitherStore::Right(self.rt.block_on(RedbStore::in_memory()).unwrap());
        *self.last_dump.borrow_mut() = [None, None];
        self.mutations.set(0);
        self.pool.clear();
        self.valid.clear();
        self.pool_of_bytes.clear();
        self.by_height.clear();
        self.hash_ids.clear();
        self.hash_by_id.clear();
        self.generators.clear();
    }

    fn hash_id(&mut self, h: Hash) -> u64 {
        if let Some(i) = self.hash_ids.get(&h) {
            return *i;
        }
        let i = self.hash_by_id.len() as u64;
        self.hash_ids.insert(h, i);
        self.hash_by_id.push(h);
        i
    }

    /// the real hash for a hash id; ids never assigned map to a synthetic hash
    fn hash_of_id(&self, q: u64) -> Hash {
        match self.hash_by_id.get(q as usize) {
            Some(h) => *h,
            None => {
                let mut b = [0xEEu8; 32];
                b[..8].copy_from_slice(&q.to_be_bytes());
                Hash::Sha256(b)
            }
        }
    }

    fn add_to_pool(&mut self, h: ExtendedHeader) -> String {
        let id = self.pool.len();
        let bytes = h.clone().encode_vec();
        // the redb store persists `encode_vec` and reads back with `decode`, which VALIDATES:
        // `valid` = the header survives that round trip unchanged
        let valid = ExtendedHeader::decode(&bytes[..]).map(|b| b == h).unwrap_or(false);
        assert!(!self.pool_of_bytes.contains_key(&bytes), "pool headers must be pairwise different");
        self.pool_of_bytes.insert(bytes, id);
        self.by_height.entry(h.height()).or_default().push(id);
        let q = self.hash_id(h.hash());
        let s = format!("{id}:{}:{q}:{}", h.height(), valid as u8);
        self.valid.push(valid);
        self.pool.push(h);
        s
    }

    /// build the headers a `gen` line describes (real code: ExtendedHeaderGenerator etc.)
    fn build(&mut self, line: &str) -> Option<Vec<ExtendedHeader>> {
        let kind = arg(line, "kind")?;
        Some(match kind {
            "chain" => {
                let n = arg_u64(line, "n")?;
                let mut g = ExtendedHeaderGenerator::new();
                let v = if arg(line, "dah") == Some("1") { g.next_many(n) } else { g.next_many_empty(n) };
                self.generators.push(g);
                v
            }
            "fork" => {
                let from = arg_u64(line, "from")? as usize;
                let n = arg_u64(line, "n")?;
                let g = self.generators.first()?.clone();
                g.next_many_of(self.pool.get(from)?, n)
            }
            "another" => {
                let of = arg_u64(line, "of")? as usize;
                let g = self.generators.first()?.clone();
                vec![g.another_of(self.pool.get(of)?)]
            }
            "duphash" => {
                // unvalidated header: a copy of `of` whose commit block id hash repeats that of `hashof`
                let of = arg_u64(line, "of")? as usize;
                let ho = arg_u64(line, "hashof")? as usize;
                let mut h = self.pool.get(of)?.clone();
                h.commit.block_id.hash = self.pool.get(ho)?.hash();
                vec![h]
            }
            "unverify" => {
                // validly signed by a different validator set: does not verify against its neighbours
                let of = arg_u64(line, "of")? as usize;
                let mut h = self.pool.get(of)?.clone();
                unverify(&mut h);
                vec![h]
            }
            "relink" => {
                // unvalidated header: a copy of `of` whose last_block_id points to `prev`
                // (its own hash stays that of `of`)
                let of = arg_u64(line, "of")? as usize;
                let prev = arg_u64(line, "prev")? as usize;
                let mut h = self.pool.get(of)?.clone();
                let ph = self.pool.get(prev)?.hash();
                h.header.last_block_id.as_mut()?.hash = ph;
                vec![h]
            }
            "setheight" => {
                // unvalidated header: a copy of `of` claiming another height (same hash)
                let of = arg_u64(line, "of")? as usize;
                let hh = arg_u64(line, "h")?;
                let mut h = self.pool.get(of)?.clone();
                h.header.height = hh.try_into().ok()?;
                vec![h]
            }
            _ => return None,
        })
    }

    fn do_gen(&mut self, line: &str) -> String {
        let cached = if self.lines_run > self.cache_from { arg_u64(line, "key").and_then(|k| self.cache.remove(&k)) } else { None };
        let hs = match cached {
            Some(hs) => hs,
            None => match self.build(line) {
                Some(hs) => hs,
                None => return "bad-op".into(),
            },
        };
        let parts: Vec<String> = hs.into_iter().map(|h| self.add_to_pool(h)).collect();
        format!("ok {}", if parts.is_empty() { "-".to_string() } else { parts.join(",") })
    }

    pub fn pool_len(&self) -> usize {
        self.pool.len()
    }
    pub fn pool_height(&self, id: usize) -> u64 {
        self.pool[id].height()
    }

    /// the verification oracle for a batch, from the real `ExtendedHeader::verify`
    pub fn oracle(&self, ids: &[usize]) -> String {
        let mut pairs: BTreeSet<(usize, usize)> = BTreeSet::new();
        for w in ids.windows(2) {
            pairs.insert((w[0], w[1]));
        }
        if let (Some(&first), Some(&last)) = (ids.first(), ids.last()) {
            if let (Some(f), Some(l)) = (self.pool.get(first), self.pool.get(last)) {
                if f.height() > 0 {
                    for &p in self.by_height.get(&(f.height() - 1)).map(|v| &v[..]).unwrap_or(&[]) {
                        pairs.insert((p, first));
                    }
                }
                for &n in self.by_height.get(&(l.height() + 1)).map(|v| &v[..]).unwrap_or(&[]) {
                    pairs.insert((last, n));
                }
            }
        }
        let ok: Vec<String> = pairs
            .into_iter()
            .filter(|(a, b)| match (self.pool.get(*a), self.pool.get(*b)) {
                (Some(x), Some(y)) => x.verify(y).is_ok(),
                _ => false,
            })
            .map(|(a, b)| format!("{a}>{b}"))
            .collect();
        if ok.is_empty() { "-".into() } else { ok.join(",") }
    }

    fn id_of(&self, h: &ExtendedHeader) -> String {
        match self.pool_of_bytes.get(&h.clone().encode_vec()) {
            Some(i) => i.to_string(),
            None => "?".into(),
        }
    }

    fn err_kind(&self, e: &StoreError) -> String {
        match e {
            StoreError::NotFound => "NotFound".into(),
            StoreError::InsertionFailed(i) => match i {
                StoreInsertionError::HeadersVerificationFailed(_) => "HeadersVerificationFailed".into(),
                StoreInsertionError::NeighborsVerificationFailed(_) => "NeighborsVerificationFailed".into(),
                StoreInsertionError::ConstraintsNotMet(r) => format!("ConstraintsNotMet({})", range_err_kind(r)),
                StoreInsertionError::HashExists(h) => match self.hash_ids.get(h) {
                    Some(q) => format!("HashExists({q})"),
                    None => "HashExists(?)".into(),
                },
            },
            StoreError::StoredDataError(_) => "StoredDataError".into(),
            StoreError::FatalDatabaseError(_) => "FatalDatabaseError".into(),
            StoreError::ExecutorError(_) => "ExecutorError".into(),
            StoreError::OpenFailed(_) => "OpenFailed".into(),
            StoreError::NamedLock(_) => "NamedLock".into(),
        }
    }

    fn unit(&self, r: Result<(), StoreError>) -> String {
        match r {
            Ok(()) => "ok".into(),
            Err(e) => format!("err:{}", self.err_kind(&e)),
        }
    }
    fn hdr(&self, r: Result<ExtendedHeader, StoreError>) -> String {
        match r {
            Ok(h) => format!("ok:{}", self.id_of(&h)),
            Err(e) => format!("err:{}", self.err_kind(&e)),
        }
    }
    fn meta(&self, r: Result<Option<SamplingMetadata>, StoreError>) -> String {
        match r {
            Ok(None) => "ok:none".into(),
            Ok(Some(m)) => {
                if m.cids.is_empty() {
                    "ok:[]".into()
                } else {
                    format!("ok:{}", m.cids.iter().map(num_of_cid).collect::<Vec<_>>().join("."))
                }
            }
            Err(e) => format!("err:{}", self.err_kind(&e)),
        }
    }

    fn universe(&self) -> u64 {
        self.by_height.keys().next_back().copied().unwrap_or(0) + 1
    }

    /// every query of the Store trait over the history's universe
    async fn dump<S: Store>(&self, s: &S) -> String {
        let rs = |r: Result<BlockRanges, StoreError>| match r {
            Ok(r) => show_ranges(&r),
            Err(e) => format!("!{}", self.err_kind(&e)),
        };
        let st = rs(s.get_stored_header_ranges().await);
        let sa = rs(s.get_sampled_ranges().await);
        let pr = rs(s.get_pruned_ranges().await);
        let hh = match s.head_height().await {
            Ok(h) => h.to_string(),
            Err(e) => format!("!{}", self.err_kind(&e)),
        };
        let head = match s.get_head().await {
            Ok(h) => self.id_of(&h),
            Err(e) => format!("!{}", self.err_kind(&e)),
        };
        let u = self.universe();
        let mut byh = vec![];
        let mut at = vec![];
        let mut md = vec![];
        let mut got: BTreeMap<u64, ExtendedHeader> = BTreeMap::new();
        for h in 0..=u {
            match s.get_by_height(h).await {
                Ok(x) => {
                    byh.push(format!("{h}:{}", self.id_of(&x)));
                    got.insert(h, x);
                }
                Err(StoreError::NotFound) => {}
                Err(e) => byh.push(format!("{h}:!{}", self.err_kind(&e))),
            }
            if s.has_at(h).await {
                at.push(h);
            }
            match s.get_sampling_metadata(h).await {
                Err(StoreError::NotFound) => {}
                r => {
                    let m = self.meta(r);
                    let m = match m.strip_prefix("ok:") {
                        Some(x) => x.to_string(),
                        None => m.replace("err:", "!"),
                    };
                    md.push(format!("{h}:{m}"))
                }
            }
        }
        let mut byq = vec![];
        let mut has = vec![];
        for q in 0..self.hash_by_id.len() as u64 {
            let hash = self.hash_of_id(q);
            match s.get_by_hash(&hash).await {
                Ok(x) => byq.push(format!("{q}:{}", self.id_of(&x))),
                Err(StoreError::NotFound) => {}
                Err(e) => byq.push(format!("{q}:!{}", self.err_kind(&e))),
            }
            if s.has(&hash).await {
                has.push(q);
            }
        }
        // C21 checks with the real code: every two consecutive stored heights verify as adjacent,
        // and the hash index returns the same header at the same height
        let mut adj = vec![];
        let mut hidx = vec![];
        for (h, x) in &got {
            if let Some(y) = got.get(&(h + 1)) {
                if x.verify_adjacent(y).is_err() {
                    adj.push(*h);
                }
            }
            let ok = match s.get_by_hash(&x.hash()).await {
                Ok(z) => z == *x && z.height() == *h,
                Err(_) => false,
            };
            if !ok || !s.has(&x.hash()).await {
                hidx.push(*h);
            }
        }
        let j = |v: Vec<String>| if v.is_empty() { "-".to_string() } else { v.join(",") };
        format!(
            "st={st} sa={sa} pr={pr} hh={hh} head={head} byh={} at={} md={} byq={} has={} adj={} hidx={}",
            j(byh),
            compress(&at),
            j(md),
            j(byq),
            compress(&has),
            compress(&adj),
            compress(&hidx)
        )
    }

    async fn mutate<S: Store>(&self, s: &S, line: &str) -> String {
        match opname(line) {
            "insert" => {
                let ids = match arg(line, "ids").and_then(unnatl) {
                    Some(v) => v,
                    None => return "bad-op".into(),
                };
                let mut hs = vec![];
                for i in ids {
                    match self.pool.get(i as usize) {
                        Some(h) => hs.push(h.clone()),
                        None => return "bad-op".into(),
                    }
                }
                // `via=` selects the `VerifiedExtendedHeaders` constructor the batch goes through (store/utils.rs);
                // the model ignores it: every constructor must behave like the `Vec` one
                match arg(line, "via") {
                    Some("one") if hs.len() == 1 => self.unit(s.insert(hs.pop().unwrap()).await),
                    // S9: `From<&ExtendedHeader>`, `From<[ExtendedHeader; 1]>`, `TryFrom<&[ExtendedHeader]>`
                    Some("ref") if hs.len() == 1 => self.unit(s.insert(&hs[0]).await),
                    Some("array") if hs.len() == 1 => self.unit(s.insert([hs.pop().unwrap()]).await),
                    Some("slice") => self.unit(s.insert(&hs[..]).await),
                    // S9: `new_unchecked` under its safety contract only (the caller has verified the range)
                    Some("unchecked") if VerifiedExtendedHeaders::try_from(hs.clone()).is_ok() => {
                        self.unit(s.insert(unsafe { VerifiedExtendedHeaders::new_unchecked(hs) }).await)
                    }
                    _ => self.unit(s.insert(hs).await),
                }
            }
            "remove" => self.unit(s.remove_height(arg_u64(line, "h").unwrap_or(0)).await),
            "mark" => self.unit(s.mark_as_sampled(arg_u64(line, "h").unwrap_or(0)).await),
            "meta" => {
                let cids = arg(line, "cids").and_then(unnatl).unwrap_or_default();
                self.unit(
                    s.update_sampling_metadata(arg_u64(line, "h").unwrap_or(0), cids.into_iter().map(cid_of).collect())
                        .await,
                )
            }
            _ => "bad-op".into(),
        }
    }

    async fn query<S: Store>(&self, s: &S, line: &str) -> String {
        let h = arg_u64(line, "h").unwrap_or(0);
        let q = arg_u64(line, "q").unwrap_or(0);
        match opname(line) {
            "get_by_height" => self.hdr(s.get_by_height(h).await),
            "has_at" => s.has_at(h).await.to_string(),
            "get_by_hash" => self.hdr(s.get_by_hash(&self.hash_of_id(q)).await),
            "has" => s.has(&self.hash_of_id(q)).await.to_string(),
            "get_meta" => self.meta(s.get_sampling_metadata(h).await),
            "head" => self.hdr(s.get_head().await),
            "head_height" => match s.head_height().await {
                Ok(h) => format!("ok:{h}"),
                Err(e) => format!("err:{}", self.err_kind(&e)),
            },
            "get_range" => {
                use std::ops::Bound;
                let b = |s: Option<&str>| -> Option<Bound<u64>> {
                    let s = s?;
                    Some(if s == "u" {
                        Bound::Unbounded
                    } else if let Some(x) = s.strip_prefix('i') {
                        Bound::Included(x.parse().ok()?)
                    } else if let Some(x) = s.strip_prefix('e') {
                        Bound::Excluded(x.parse().ok()?)
                    } else {
                        return None;
                    })
                };
                match (b(arg(line, "lo")), b(arg(line, "hi"))) {
                    (Some(lo), Some(hi)) => match s.get_range((lo, hi)).await {
                        Ok(v) => {
                            let ids: Vec<String> = v.iter().map(|x| self.id_of(x)).collect();
                            format!("ok:{}", if ids.is_empty() { "-".to_string() } else { ids.join(",") })
                        }
                        Err(e) => format!("err:{}", self.err_kind(&e)),
                    },
                    _ => "bad-op".into(),
                }
            }
            _ => "bad-op".into(),
        }
    }

    fn canon(s: String) -> String {
        if s.starts_with("panic") { "panic".into() } else { s }
    }

    /// `which`: 0 = in-memory store, 1 = redb.  The state dump BEFORE an operation is the dump
    /// taken after the previous mutating operation when nothing else happened in between
    /// (queries do not mutate; the key covers pool growth, which changes the dumped universe).
    fn mutating_op<S: Store>(&self, s: &S, line: &str, which: usize) -> String {
        let key = (self.pool.len(), self.hash_by_id.len(), self.mutations.get());
        let pre = if self.mode == Mode::C20 {
            let cached = self.last_dump.borrow()[which].clone();
            Some(match cached {
                Some((k, d)) if k == key => d,
                _ => self.rt.block_on(self.dump(s)),
            })
        } else {
            None
        };
        let res = Self::canon(guarded(|| self.rt.block_on(self.mutate(s, line))));
        let post = Self::canon(guarded(|| self.rt.block_on(self.dump(s))));
        if which == 1 {
            self.mutations.set(self.mutations.get() + 1);
        }
        let key_after = (self.pool.len(), self.hash_by_id.len(), if which == 1 { self.mutations.get() } else { self.mutations.get() + 1 });
        self.last_dump.borrow_mut()[which] = Some((key_after, post.clone()));
        let mut out = format!("{res} ; {post}");
        if let Some(pre) = pre {
            if res != "ok" {
                out.push_str(" ; pre ");
                out.push_str(&pre);
            }
        }
        out
    }

    pub fn run(&mut self, line: &str) -> String {
        self.lines_run += 1;
        match opname(line) {
            "reset" => {
                self.reset();
                "ok".into()
            }
            "gen" => self.do_gen(line),
            "insert" | "remove" | "mark" | "meta" => {
                if opname(line) == "insert" {
                    // the oracle on the line must be what the real code says about THESE headers
                    let ids: Vec<usize> =
                        arg(line, "ids").and_then(unnatl).unwrap_or_default().into_iter().map(|x| x as usize).collect();
                    if arg(line, "vok") != Some(self.oracle(&ids).as_str()) {
                        return "oracle-mismatch".into();
                    }
                }
                let m = self.mutating_op(&self.mem, line, 0);
                let r = self.mutating_op(&self.redb, line, 1);
                format!("mem {m} || redb {r}")
            }
            "dump" => {
                let m = Self::canon(guarded(|| self.rt.block_on(self.dump(&self.mem))));
                let r = Self::canon(guarded(|| self.rt.block_on(self.dump(&self.redb))));
                format!("mem ok ; {m} || redb ok ; {r}")
            }
            _ => {
                let m = Self::canon(guarded(|| self.rt.block_on(self.query(&self.mem, line))));
                let r = Self::canon(guarded(|| self.rt.block_on(self.query(&self.redb, line))));
                format!("mem {m} || redb {r}")
            }
        }
    }
}

// ------------------------------------------------------------------------------------------
// generator
// ------------------------------------------------------------------------------------------

/// What the generator knows about a pool header (used only to steer generation).
#[derive(Clone, Debug)]
struct Info {
    height: u64,
    /// a full path of pool ids with consecutive heights 1..=height ending in this header
    path: Vec<usize>,
    kind: &'static str,
}

pub struct Gen<'a> {
    h: &'a mut Hist,
    /// private real store used only to steer the generator towards interesting states
    steer: InMemoryStore,
    info: Vec<Info>,
    rt: tokio::runtime::Runtime,
    keep_ctr: u64,
    /// S9: rotates the `VerifiedExtendedHeaders` constructor of generated inserts (a counter, not the
    /// `Rng`, so that the generated histories themselves stay what they were)
    via_ctr: u64,
}

pub struct GenCfg {
    pub histories: usize,
    pub max_ops: usize,
    pub max_chain: u64,
    pub max_batch: usize,
    /// weight (0..100) of deliberately invalid inserts among inserts
    pub invalid_pct: u64,
    /// among the invalid inserts: weight (0..100) of legal placements with a repeated hash at a chosen position
    pub dup_pct: u64,
    /// weight of removals among ops
    pub remove_w: u64,
    pub query_w: u64,
    pub sample_w: u64,
}

impl<'a> Gen<'a> {
    pub fn new(h: &'a mut Hist) -> Self {
        Gen {
            h,
            steer: InMemoryStore::new(),
            info: vec![],
            rt: tokio::runtime::Builder::new_current_thread().enable_all().build().unwrap(),
            keep_ctr: 0,
            via_ctr: 0,
        }
    }

    /// emit a `gen` line: build the headers now (so that the oracle can be computed while
    /// generating), remember them for `run`, and mirror them in the generator's pool
    fn gen_line(&mut self, out: &mut Emitter, body: String, tag: &str, base: Vec<usize>, kind: &'static str) {
        let key = self.h.next_key;
        self.h.next_key += 1;
        let line = format!("gen {body} key={key}");
        let hs = match self.h.build(&line) {
            Some(hs) => hs,
            None => return,
        };
        if hs.iter().any(|h| self.h.pool_of_bytes.contains_key(&h.clone().encode_vec())) {
            return; // would duplicate a pool header
        }
        // the Hist pool itself is filled here too, so that `oracle` works during generation;
        // `run` starts every history with `reset` and takes the same headers from the cache
        self.h.cache.insert(key, hs.clone());
        let mut path = base;
        for h in hs {
            let id = self.h.pool.len();
            path.push(id);
            self.info.push(Info { height: h.height(), path: path.clone(), kind });
            self.h.add_to_pool(h);
        }
        out.op(line, tag, true);
    }

    fn stored(&self) -> BlockRanges {
        self.rt.block_on(self.steer.get_stored_header_ranges()).unwrap()
    }
    fn stored_id(&self, height: u64) -> Option<usize> {
        let h = self.rt.block_on(self.steer.get_by_height(height)).ok()?;
        self.h.pool_of_bytes.get(&h.clone().encode_vec()).copied()
    }

    fn emit_insert(&mut self, out: &mut Emitter, ids: &[usize], tag: &str, via_one: bool) {
        let vok = self.h.oracle(ids);
        let mut line = format!("insert ids={} vok={vok}", natl(ids));
        let hs: Vec<ExtendedHeader> = ids.iter().filter_map(|i| self.h.pool.get(*i).cloned()).collect();
        self.via_ctr += 1;
        let via = if via_one && hs.len() == 1 {
            ["one", "ref", "array"][(self.via_ctr % 3) as usize]
        } else {
            match self.via_ctr % 6 {
                1 | 4 => "slice",
                2 if VerifiedExtendedHeaders::try_from(hs.clone()).is_ok() => "unchecked",
                _ => "",
            }
        };
        if !via.is_empty() {
            line.push_str(" via=");
            line.push_str(via);
        }
        // The stores require validated headers (decoding validates; `verify` does not).  A batch
        // with an unvalidated header that would be ACCEPTED breaks that precondition (the redb
        // store can then not read the header back): keep only every 8th such case, so that the
        // model's account of it is still tied to the code, and tag it.
        let mut tag = tag.to_string();
        if ids.iter().any(|i| !self.h.valid.get(*i).copied().unwrap_or(true)) {
            let probe = self.rt.block_on(self.steer.async_clone());
            let hs2 = hs.clone();
            let accepted = std::panic::catch_unwind(std::panic::AssertUnwindSafe(|| self.rt.block_on(probe.insert(hs2))))
                .map(|r| r.is_ok())
                .unwrap_or(false);
            if accepted {
                self.keep_ctr += 1;
                if self.keep_ctr % 8 != 0 {
                    return;
                }
                tag = "insert/unvalidated-header-would-be-stored".to_string();
            }
        }
        // steer store: apply for real (panics caught: the unfixed in-memory store could panic)
        let r = std::panic::catch_unwind(std::panic::AssertUnwindSafe(|| self.rt.block_on(self.steer.insert(hs))));
        let tag2 = match r {
            Ok(Ok(())) => format!("{tag}/accepted"),
            Ok(Err(_)) => format!("{tag}/rejected"),
            Err(_) => format!("{tag}/panicked"),
        };
        out.op(line, &tag2, true);
    }

    /// a slice of consecutive heights `lo..=hi` along the path of pool header `tip`
    fn slice(&self, tip: usize, lo: u64, hi: u64) -> Vec<usize> {
        let p = &self.info[tip].path;
        p.iter().copied().filter(|i| self.info[*i].height >= lo && self.info[*i].height <= hi).collect()
    }

    fn tips(&self) -> Vec<usize> {
        // every pool header is the tip of its own path
        (0..self.info.len()).collect()
    }

    pub fn history(&mut self, rng: &mut Rng, cfg: &GenCfg, out: &mut Emitter) {
        out.op("reset", "reset", false);
        self.h.reset();
        self.info.clear();
        self.steer = InMemoryStore::new();

        // ---- pool
        let n = rng.range(3, cfg.max_chain.max(3));
        let dah = if rng.chance(1, 8) { " dah=1" } else { "" };
        self.gen_line(out, format!("kind=chain n={n}{dah}"), "gen/chain", vec![], "chain");
        let main: Vec<usize> = (0..n as usize).collect();
        let forks = rng.range(1, 4);
        for _ in 0..forks {
            let from = *rng.pick(&main);
            let k = rng.range(1, 6.min(cfg.max_chain));
            let base = self.info[from].path.clone();
            self.gen_line(out, format!("kind=fork from={from} n={k}"), "gen/fork", base, "fork");
        }
        for _ in 0..rng.range(0, 3) {
            let of = rng.below(self.info.len() as u64) as usize;
            let mut base = self.info[of].path.clone();
            base.pop();
            self.gen_line(out, format!("kind=another of={of}"), "gen/another", base, "another");
        }
        for _ in 0..rng.range(1, 4) {
            let of = rng.below(self.info.len() as u64) as usize;
            let ho = rng.below(self.info.len() as u64) as usize;
            if of == ho {
                continue;
            }
            let mut base = self.info[of].path.clone();
            base.pop();
            self.gen_line(out, format!("kind=duphash of={of} hashof={ho}"), "gen/duphash", base, "duphash");
        }
        for _ in 0..rng.range(0, 2) {
            let of = rng.below(self.info.len() as u64) as usize;
            let mut base = self.info[of].path.clone();
            base.pop();
            self.gen_line(out, format!("kind=unverify of={of}"), "gen/unverify", base, "unverify");
        }
        if rng.chance(1, 3) {
            let of = rng.below(self.info.len() as u64) as usize;
            let r0 = rng.range(0, n + 3);
            let hh = *rng.pick(&[0u64, 1, 2, n + 1, n + 2, r0]);
            self.gen_line(out, format!("kind=setheight of={of} h={hh}"), "gen/setheight", vec![], "setheight");
        }
        out.op("dump", "dump", false);

        // ---- operations
        let ops = rng.usize(cfg.max_ops / 3, cfg.max_ops);
        for _ in 0..ops {
            let total = 100 + cfg.remove_w + cfg.query_w + cfg.sample_w;
            let x = rng.below(total);
            if x < 100 {
                self.insert_op(rng, cfg, out);
            } else if x < 100 + cfg.remove_w {
                self.remove_op(rng, out);
            } else if x < 100 + cfg.remove_w + cfg.sample_w {
                self.sample_op(rng, out);
            } else {
                self.query_op(rng, out);
            }
        }
    }

    fn insert_op(&mut self, rng: &mut Rng, cfg: &GenCfg, out: &mut Emitter) {
        let st = self.stored();
        let ranges: Vec<(u64, u64)> = {
            let v: &[std::ops::RangeInclusive<u64>] = st.as_ref();
            v.iter().map(|r| (*r.start(), *r.end())).collect()
        };
        let tips = self.tips();
        let tip = *rng.pick(&tips);
        let tip_h = self.info[tip].height;
        let maxb = cfg.max_batch as u64;

        let want_valid = !rng.chance(cfg.invalid_pct, 100);
        // a batch at a legal place whose header at a chosen position repeats a known hash
        let want_dup = !want_valid && rng.chance(cfg.dup_pct, 100);
        if want_valid || want_dup {
            // ---- mostly-valid placement: touch a stored range, fill a gap, new head, or empty store
            // prefer a path that agrees with what is stored (so that seams verify)
            let mut cand: Vec<(u64, u64, &'static str)> = vec![];
            if ranges.is_empty() {
                let lo = rng.range(1, tip_h);
                cand.push((lo, (lo + rng.below(maxb)).min(tip_h), "insert/empty-store"));
            } else {
                let (_, head) = *ranges.last().unwrap();
                if tip_h > head {
                    // adjacent new head
                    cand.push((head + 1, (head + 1 + rng.below(maxb)).min(tip_h), "insert/append-head"));
                    // new head with a gap
                    if tip_h > head + 1 {
                        let lo = rng.range(head + 2, tip_h);
                        cand.push((lo, (lo + rng.below(maxb)).min(tip_h), "insert/new-head-gap"));
                    }
                }
                for (i, (s, e)) in ranges.iter().enumerate() {
                    // left of a range (towards the previous range or height 1)
                    let floor = if i == 0 { 1 } else { ranges[i - 1].1 + 1 };
                    if *s > floor && *s - 1 <= tip_h {
                        let hi = *s - 1;
                        let lo = hi.saturating_sub(rng.below(maxb)).max(floor);
                        cand.push((lo, hi, if lo == floor && i > 0 { "insert/fill-gap-fully" } else { "insert/extend-left" }));
                    }
                    // right of a range inside a gap
                    if i + 1 < ranges.len() {
                        let ceil = ranges[i + 1].0 - 1;
                        if *e < ceil && *e + 1 <= tip_h {
                            let lo = *e + 1;
                            let hi = (lo + rng.below(maxb)).min(ceil).min(tip_h);
                            cand.push((lo, hi, if hi == ceil { "insert/fill-gap-fully" } else { "insert/extend-right-in-gap" }));
                        }
                    }
                }
            }
            if let Some(&(lo, hi, tag)) = cand.get(rng.below(cand.len().max(1) as u64) as usize) {
                // choose the tip so that the path agrees with stored neighbours when possible
                let mut best = tip;
                if rng.chance(4, 5) {
                    let want_prev = self.stored_id(lo.saturating_sub(1));
                    let want_next = self.stored_id(hi + 1);
                    let good: Vec<usize> = tips
                        .iter()
                        .copied()
                        .filter(|t| {
                            let p = &self.info[*t].path;
                            self.info[*t].height >= hi
                                && want_prev.map(|w| p.contains(&w)).unwrap_or(true)
                                && want_next.map(|w| p.contains(&w)).unwrap_or(true)
                        })
                        .collect();
                    if !good.is_empty() {
                        best = *rng.pick(&good);
                    }
                }
                let ids = self.slice(best, lo, hi);
                if want_dup {
                    self.emit_dup_hash(rng, out, ids);
                    return;
                }
                let via_one = ids.len() == 1 && rng.bool();
                self.emit_insert(out, &ids, tag, via_one);
                return;
            }
        }

        // ---- deliberately suspicious batches
        let lo = rng.range(1, tip_h);
        let hi = (lo + rng.below(maxb)).min(tip_h);
        let mut ids = self.slice(tip, lo, hi);
        match rng.below(10) {
            9 => {
                // a header claiming height 0: invalid range
                let of = rng.below(self.info.len() as u64) as usize;
                let id = self.info.len();
                self.gen_line(out, format!("kind=setheight of={of} h=0"), "gen/setheight", vec![], "setheight");
                if self.info.len() == id + 1 {
                    self.emit_insert(out, &[id], "insert/height-zero", rng.bool());
                }
            }
            0 => {
                // anywhere: overlap / no neighbours / whatever
                self.emit_insert(out, &ids, "insert/random-placement", false);
            }
            1 => {
                self.emit_insert(out, &[], "insert/empty-batch", false);
            }
            2 if ids.len() >= 2 => {
                // drop a middle header: internal non-adjacency
                let k = rng.usize(0, ids.len() - 1);
                ids.remove(k);
                self.emit_insert(out, &ids, "insert/batch-with-hole", false);
            }
            3 if ids.len() >= 2 => {
                ids.reverse();
                self.emit_insert(out, &ids, "insert/batch-reversed", false);
            }
            4 => {
                // substitute one position by another pool header of the same height (fork / mutant)
                if !ids.is_empty() {
                    let k = rng.usize(0, ids.len() - 1);
                    let hh = self.info[ids[k]].height;
                    let alts: Vec<usize> = (0..self.info.len()).filter(|i| self.info[*i].height == hh && *i != ids[k]).collect();
                    if !alts.is_empty() {
                        ids[k] = *rng.pick(&alts);
                    }
                }
                self.emit_insert(out, &ids, "insert/batch-with-substituted-header", false);
            }
            5 => {
                // duplicate a header inside the batch
                if !ids.is_empty() {
                    let k = rng.usize(0, ids.len() - 1);
                    let x = ids[k];
                    ids.insert(k, x);
                }
                self.emit_insert(out, &ids, "insert/batch-with-repeated-header", false);
            }
            6 => {
                // mutant (duphash / unverify / setheight / another) placed where it would be legal
                let muts: Vec<usize> = (0..self.info.len()).filter(|i| matches!(self.info[*i].kind, "duphash" | "unverify" | "setheight" | "another")).collect();
                if let Some(&m) = muts.get(rng.below(muts.len().max(1) as u64) as usize) {
                    let mh = self.info[m].height;
                    let p = self.info[m].path.clone();
                    let lo = mh.saturating_sub(rng.below(maxb)).max(1);
                    let mut v: Vec<usize> = p.iter().copied().filter(|i| self.info[*i].height >= lo && *i != m).collect();
                    v.push(m);
                    // optionally continue after the mutant along the main chain
                    if rng.bool() {
                        let cont: Vec<usize> = (0..self.info.len()).filter(|i| self.info[*i].kind == "chain" && self.info[*i].height > mh && self.info[*i].height <= mh + rng.below(4)).collect();
                        v.extend(cont);
                    }
                    self.emit_insert(out, &v, "insert/batch-with-mutant", false);
                } else {
                    self.emit_insert(out, &ids, "insert/random-placement", false);
                }
            }
            7 => {
                // fork header next to a stored main-chain neighbour (seam must fail)
                let forks: Vec<usize> = (0..self.info.len()).filter(|i| matches!(self.info[*i].kind, "fork" | "another" | "unverify")).collect();
                if let Some(&f) = forks.get(rng.below(forks.len().max(1) as u64) as usize) {
                    self.emit_insert(out, &[f], "insert/single-fork-header", rng.bool());
                } else {
                    self.emit_insert(out, &ids, "insert/random-placement", false);
                }
            }
            _ => {
                // single header anywhere
                let x = rng.below(self.info.len() as u64) as usize;
                self.emit_insert(out, &[x], "insert/single-anywhere", rng.bool());
            }
        }
    }

    /// `ids` is a batch at a legal place.  Make the header at a chosen position repeat a hash that
    /// is stored or occurs earlier in the batch (unvalidated mutant built on demand), and re-link
    /// its successor so that the batch still verifies internally: the store must answer
    /// `HashExists` for exactly that position and keep nothing of the batch.
    fn emit_dup_hash(&mut self, rng: &mut Rng, out: &mut Emitter, mut ids: Vec<usize>) {
        if ids.is_empty() {
            return;
        }
        let i = rng.usize(0, ids.len() - 1);
        // the hash to repeat
        let st = self.stored();
        let stored_src = if rng.bool() || i == 0 {
            let v: &[std::ops::RangeInclusive<u64>] = st.as_ref();
            if v.is_empty() { None } else {
                let r = rng.pick(v).clone();
                self.stored_id(rng.range(*r.start(), *r.end()))
            }
        } else {
            None
        };
        let src = match stored_src {
            Some(s) => s,
            None if i > 0 => ids[rng.usize(0, i - 1)],
            None => {
                // empty store and first position: nothing to repeat
                self.emit_insert(out, &ids, "insert/empty-store", false);
                return;
            }
        };
        let of = ids[i];
        let m = self.info.len();
        let mut base = self.info[of].path.clone();
        base.pop();
        self.gen_line(out, format!("kind=duphash of={of} hashof={src}"), "gen/duphash-on-demand", base, "duphash");
        if self.info.len() != m + 1 {
            return;
        }
        ids[i] = m;
        if i + 1 < ids.len() {
            let nx = ids[i + 1];
            let r = self.info.len();
            let mut base = self.info[m].path.clone();
            base.push(m);
            self.gen_line(out, format!("kind=relink of={nx} prev={m}"), "gen/relink", base, "relink");
            if self.info.len() != r + 1 {
                return;
            }
            ids[i + 1] = r;
        }
        let tag = if i == 0 { "insert/dup-hash-first" } else if i + 1 == ids.len() { "insert/dup-hash-last" } else { "insert/dup-hash-middle" };
        self.emit_insert(out, &ids, tag, false);
    }

    fn some_height(&self, rng: &mut Rng, prefer_stored: bool) -> u64 {
        let st = self.stored();
        let v: &[std::ops::RangeInclusive<u64>] = st.as_ref();
        if prefer_stored && !v.is_empty() {
            let r = rng.pick(v).clone();
            match rng.below(4) {
                0 => *r.start(),
                1 => *r.end(),
                _ => rng.range(*r.start(), *r.end()),
            }
        } else {
            rng.range(0, self.h.universe() + 1)
        }
    }

    fn remove_op(&mut self, rng: &mut Rng, out: &mut Emitter) {
        let stored = rng.chance(5, 6);
        let mut h = self.some_height(rng, stored);
        if stored && rng.chance(1, 2) {
            // the pruner removes from the tail
            if let Some(t) = self.stored().tail() {
                h = t;
            }
        }
        let ok = self.rt.block_on(self.steer.remove_height(h)).is_ok();
        out.op(format!("remove h={h}"), if ok { "remove/stored" } else { "remove/absent" }, true);
    }

    fn sample_op(&mut self, rng: &mut Rng, out: &mut Emitter) {
        let pref = rng.chance(4, 5);
        let h = self.some_height(rng, pref);
        if rng.bool() {
            let ok = self.rt.block_on(self.steer.mark_as_sampled(h)).is_ok();
            out.op(format!("mark h={h}"), if ok { "mark/stored" } else { "mark/absent" }, true);
        } else {
            let k = rng.usize(0, 5);
            let cids: Vec<u64> = (0..k).map(|_| rng.below(8)).collect();
            out.op(format!("meta h={h} cids={}", natl(&cids)), "meta", true);
        }
    }

    fn query_op(&mut self, rng: &mut Rng, out: &mut Emitter) {
        let u = self.h.universe();
        let nq = self.h.hash_by_id.len() as u64;
        let (r0, r1) = (rng.range(0, u + 2), rng.next_u64());
        let h = *rng.pick(&[0, 1, u, u + 1, u64::MAX, r0, r1]);
        let q = rng.range(0, nq + 2);
        let bound = |rng: &mut Rng| -> String {
            let r0 = rng.range(0, u + 1);
            let x = *rng.pick(&[0, 1, r0, r0, u64::MAX]);
            match rng.below(3) {
                0 => "u".into(),
                1 => format!("i{x}"),
                _ => format!("e{x}"),
            }
        };
        match rng.below(9) {
            0 => out.op(format!("get_by_height h={h}"), "q/get_by_height", true),
            1 => out.op(format!("has_at h={h}"), "q/has_at", true),
            2 => out.op(format!("get_by_hash q={q}"), "q/get_by_hash", true),
            3 => out.op(format!("has q={q}"), "q/has", true),
            4 => out.op(format!("get_meta h={h}"), "q/get_meta", true),
            5 => out.op("head", "q/head", true),
            6 => out.op("head_height", "q/head_height", true),
            _ => out.op(format!("get_range lo={} hi={}", bound(rng), bound(rng)), "q/get_range", true),
        }
    }
}

// ------------------------------------------------------------------------------------------
// S10 size-threshold stress: LARGE and THRESHOLD-STRADDLING histories (same op-line protocol)
// ------------------------------------------------------------------------------------------

/// One big history: a LONG main chain; batches of exactly the listed sizes (63/64/65, 511/512/513 …)
/// as consecutive new heads separated by one-height gaps; a comb of `ranges` further disjoint
/// ranges (so the stores hold >= 9 / 17 / 33 / 65 / 129 ranges); sampling-metadata lists of the
/// listed sizes; merges of the one-height gaps while many ranges are stored; splits by removals in
/// the middle of a long range; a rejected overlapping batch and a duplicate-hash batch of
/// threshold size; then `ops` operations of the usual random mix on that large state.
pub struct BigCfg {
    pub chain: u64,
    pub ranges: usize,
    pub batches: Vec<u64>,
    pub cids: Vec<usize>,
    pub ops: usize,
}

const RANGE_THRESHOLDS: [usize; 12] = [8, 9, 16, 17, 32, 33, 64, 65, 128, 129, 256, 257];

impl<'a> Gen<'a> {
    fn n_ranges(&self) -> usize {
        let st = self.stored();
        let v: &[std::ops::RangeInclusive<u64>] = st.as_ref();
        v.len()
    }

    pub fn history_big(&mut self, rng: &mut Rng, cfg: &GenCfg, big: &BigCfg, out: &mut Emitter) {
        out.op("reset", "reset", false);
        self.h.reset();
        self.info.clear();
        self.steer = InMemoryStore::new();

        // ---- pool: long main chain (pool ids 0..n-1 = heights 1..n), a few forks / siblings / mutants
        let n = big.chain.max(8);
        self.gen_line(out, format!("kind=chain n={n}"), "big/gen-chain", vec![], "chain");
        let top = n as usize - 1;
        for _ in 0..2 {
            let from = rng.range(0, n - 1) as usize;
            let base = self.info[from].path.clone();
            self.gen_line(out, format!("kind=fork from={from} n={}", rng.range(1, 4)), "gen/fork", base, "fork");
        }
        for kind in ["another", "unverify"] {
            let of = rng.below(n) as usize;
            let mut base = self.info[of].path.clone();
            base.pop();
            self.gen_line(out, format!("kind={kind} of={of}"), if kind == "another" { "gen/another" } else { "gen/unverify" }, base, kind);
        }
        out.op("dump", "dump", false);

        // ---- batches of exactly the threshold sizes: new heads separated by one-height gaps
        let mut pos = 1u64;
        let mut gaps: Vec<u64> = vec![];
        for &b in &big.batches {
            if b == 0 || pos + b > n {
                break;
            }
            let ids = self.slice(top, pos, pos + b - 1);
            self.emit_insert(out, &ids, &format!("thr/batch-{b}"), false);
            gaps.push(pos + b);
            pos += b + 1;
        }

        // ---- comb: many further disjoint ranges (every insert is a new head with a gap)
        let (w, g) = if pos + 4 * big.ranges as u64 <= n { (rng.range(1, 2), rng.range(1, 2)) } else { (1, 1) };
        for _ in 0..big.ranges {
            let (lo, hi) = (pos, pos + w - 1);
            if hi > n {
                break;
            }
            let cnt = self.n_ranges() + 1;
            let tag = if RANGE_THRESHOLDS.contains(&cnt) { format!("thr/ranges-{cnt}") } else { "big/comb-new-head".to_string() };
            let ids = self.slice(top, lo, hi);
            self.emit_insert(out, &ids, &tag, w == 1 && rng.bool());
            pos = hi + 1 + g;
        }
        let comb_top = pos;

        // ---- long sampling-metadata CID lists (with repeats), twice on the same height (merge of lists)
        for &k in &big.cids {
            let h = self.some_height(rng, true);
            for round in 0..2 {
                let cids: Vec<u64> = (0..k).map(|_| rng.below((k as u64 * 3 / 4).max(1)) + round * (k as u64 / 2)).collect();
                out.op(format!("meta h={h} cids={}", natl(&cids)), &format!("thr/meta-cids-{k}"), true);
            }
            out.op(format!("get_meta h={h}"), "big/q", true);
        }

        // ---- merge the one-height gaps between the threshold batches while many ranges are stored
        for &gh in &gaps {
            if gh <= n && self.rt.block_on(self.steer.has_at(gh + 1)) {
                let ids = self.slice(top, gh, gh);
                self.emit_insert(out, &ids, "big/merge-fill-gap", rng.bool());
            }
        }

        // ---- split the longest range by removals in its middle
        let longest = {
            let st = self.stored();
            let v: &[std::ops::RangeInclusive<u64>] = st.as_ref();
            v.iter().max_by_key(|r| *r.end() - *r.start()).cloned()
        };
        if let Some(r) = longest {
            let (s, e) = (*r.start(), *r.end());
            if e - s >= 4 {
                let k = rng.range(3, 8).min(big.ops as u64);
                for j in 1..=k {
                    let h = s + (e - s) * j / (k + 1);
                    let ok = self.rt.block_on(self.steer.remove_height(h)).is_ok();
                    out.op(format!("remove h={h}"), if ok { "big/split-remove" } else { "remove/absent" }, true);
                }
            }
        }

        // ---- queries on the large state
        let u = self.h.universe();
        for (lo, hi) in [("u".to_string(), "u".to_string()), ("i1".to_string(), format!("i{n}")), (format!("i{}", comb_top / 2), format!("e{comb_top}"))] {
            out.op(format!("get_range lo={lo} hi={hi}"), "big/q", true);
        }
        out.op("head", "big/q", true);
        out.op(format!("get_by_height h={}", u - 1), "big/q", true);

        // ---- threshold-size batches that must be rejected: overlap, and a repeated hash at a chosen position
        if let Some(&b) = big.batches.last() {
            let lo = rng.range(1, b.max(2) - 1);
            let ids = self.slice(top, lo, (lo + b - 1).min(n));
            self.emit_insert(out, &ids, &format!("thr/batch-{b}-overlap"), false);
            let head = self.stored().head().unwrap_or(0);
            if head + 1 + b <= n {
                let ids = self.slice(top, head + 1, head + b);
                self.emit_dup_hash(rng, out, ids);
            }
        }

        // ---- the usual random mix on the large state
        for _ in 0..big.ops {
            let total = 100 + cfg.remove_w + cfg.query_w + cfg.sample_w;
            let x = rng.below(total);
            if x < 100 {
                self.insert_op(rng, cfg, out);
            } else if x < 100 + cfg.remove_w {
                self.remove_op(rng, out);
            } else if x < 100 + cfg.remove_w + cfg.sample_w {
                self.sample_op(rng, out);
            } else {
                self.query_op(rng, out);
            }
        }
    }
}

/// S10: the size classes of one run.  Every mutating op dumps both stores over the whole universe of
/// heights, so cost ~ (mutating ops) x (chain length): the many-range combs use short chains, the
/// long chains few operations.
pub fn big_cfgs(rng: &mut Rng, thorough: bool) -> Vec<BigCfg> {
    let big = |chain, ranges, batches: &[u64], cids: &[usize], ops| BigCfg { chain, ranges, batches: batches.to_vec(), cids: cids.to_vec(), ops };
    let b512 = 511 + rng.below(3);
    if thorough {
        vec![
            big(150, 66, &[7, 8, 9], &[9, 17, 33], 40),
            big(330, 130, &[15, 16, 17], &[65], 40),
            big(700, 258, &[31, 32, 33], &[], 6),
            big(262, 10, &[63, 64, 65], &[129], 20),
            big(520, 4, &[127, 128, 129], &[], 6),
            big(1620, 3, &[511, 512, 513], &[257], 4),
            big(2300, 3, &[2100 + rng.below(100)], &[], 0),
        ]
    } else {
        vec![
            big(76, 34, &[], &[9, 17, 33], 15),
            big(262, 0, &[63, 64, 65], &[65], 4),
            big(b512 + 5, 0, &[b512], &[], 0),
        ]
    }
}

/// S10: the size-threshold histories of one run (after the regular ones)
pub fn gen_big(h: &mut Hist, rng: &mut Rng, cfg: &GenCfg, bigs: &[BigCfg], out: &mut Emitter) {
    if h.cache_from == usize::MAX {
        h.cache_from = out.len();
    }
    let r = guarded(|| {
        let mut g = Gen::new(h);
        for b in bigs {
            g.history_big(rng, cfg, b, out);
        }
        String::new()
    });
    if r.starts_with("panic") {
        eprintln!("generator failed: {r}");
        std::process::exit(3);
    }
    h.reset();
}

pub fn gen_all(h: &mut Hist, rng: &mut Rng, cfg: &GenCfg, out: &mut Emitter) {
    if h.cache_from == usize::MAX {
        h.cache_from = out.len();
    }
    // a panic while generating is a harness bug: make it visible (the framework silences the hook)
    let r = guarded(|| {
        let mut g = Gen::new(h);
        for _ in 0..cfg.histories {
            g.history(rng, cfg, out);
        }
        String::new()
    });
    if r.starts_with("panic") {
        eprintln!("generator failed: {r}");
        std::process::exit(3);
    }
    // generation used the pool: `run` must start from a clean state (corpus lines come first)
    h.reset();
}

//! In-process fake gRPC node for the real `GrpcClient` (C45, C43): a tower service handed to the
//! public `GrpcClientBuilder::transport`.  It speaks just enough gRPC: one data frame + trailers
//! for a message, trailers-only for a status, an error for a transport failure.  The answer to a
//! request is whatever the handler closure returns for `(path, request message bytes)`.
#![allow(dead_code)]
use std::convert::Infallible;
use std::future::Future;
use std::pin::Pin;
use std::sync::Arc;
use std::task::{Context, Poll};

use bytes::Bytes;
use http_body::Frame;
use http_body_util::{BodyExt, StreamBody};
use tonic::body::Body as TonicBody;

#[derive(Debug)]
pub struct FakeErr(pub String);
impl std::fmt::Display for FakeErr {
    fn fmt(&self, f: &mut std::fmt::Formatter<'_>) -> std::fmt::Result {
        write!(f, "{}", self.0)
    }
}
impl std::error::Error for FakeErr {}

type FrameIter = futures::stream::Iter<std::vec::IntoIter<Result<Frame<Bytes>, Infallible>>>;
pub type FakeBody = StreamBody<FrameIter>;

/// what the node answers to one request
#[derive(Clone, Debug)]
pub enum Answer {
    /// an encoded protobuf response message
    Msg(Vec<u8>),
    /// a gRPC status (trailers-only)
    Status(u32, String),
    /// the connection failed
    Transport(String),
}

pub type Handler = dyn Fn(&str, &[u8]) -> Answer + Send + Sync;

#[derive(Clone)]
pub struct FakeNode {
    pub handler: Arc<Handler>,
}

impl FakeNode {
    pub fn new(h: impl Fn(&str, &[u8]) -> Answer + Send + Sync + 'static) -> Self {
        FakeNode { handler: Arc::new(h) }
    }
}

pub fn grpc_frame(msg: &[u8]) -> Bytes {
    let mut v = vec![0u8];
    v.extend_from_slice(&(msg.len() as u32).to_be_bytes());
    v.extend_from_slice(msg);
    Bytes::from(v)
}

fn respond(a: Answer) -> Result<http::Response<FakeBody>, FakeErr> {
    let body = |frames: Vec<Result<Frame<Bytes>, Infallible>>| StreamBody::new(futures::stream::iter(frames));
    let base = || http::Response::builder().status(200).header("content-type", "application/grpc");
    match a {
        Answer::Transport(m) => Err(FakeErr(m)),
        Answer::Status(code, msg) => {
            // grpc-message is percent-encoded on the wire
            let enc: String = msg
                .bytes()
                .map(|b| if (0x20..0x7f).contains(&b) && b != b'%' { (b as char).to_string() } else { format!("%{b:02X}") })
                .collect();
            Ok(base().header("grpc-status", code.to_string()).header("grpc-message", enc).body(body(vec![])).unwrap())
        }
        Answer::Msg(m) => {
            let mut trailers = http::HeaderMap::new();
            trailers.insert("grpc-status", "0".parse().unwrap());
            Ok(base().body(body(vec![Ok(Frame::data(grpc_frame(&m))), Ok(Frame::trailers(trailers))])).unwrap())
        }
    }
}

impl tower::Service<http::Request<TonicBody>> for FakeNode {
    type Response = http::Response<FakeBody>;
    type Error = FakeErr;
    type Future = Pin<Box<dyn Future<Output = Result<Self::Response, FakeErr>> + Send>>;

    fn poll_ready(&mut self, _cx: &mut Context<'_>) -> Poll<Result<(), FakeErr>> {
        Poll::Ready(Ok(()))
    }

    fn call(&mut self, req: http::Request<TonicBody>) -> Self::Future {
        let path = req.uri().path().to_string();
        let h = self.handler.clone();
        Box::pin(async move {
            let body = req.into_body().collect().await.map_err(|e| FakeErr(format!("body: {e}")))?.to_bytes();
            let msg: &[u8] = if body.len() >= 5 { &body[5..] } else { &[] };
            respond(h(&path, msg))
        })
    }
}

/// Variant whose handler is asynchronous (it may wait until the harness releases the answer) and
/// sees the request headers (per-call metadata).
pub type AsyncHandler =
    dyn Fn(http::HeaderMap, String, Vec<u8>) -> Pin<Box<dyn Future<Output = Answer> + Send>> + Send + Sync;

#[derive(Clone)]
pub struct AsyncFakeNode {
    pub handler: Arc<AsyncHandler>,
}

impl tower::Service<http::Request<TonicBody>> for AsyncFakeNode {
    type Response = http::Response<FakeBody>;
    type Error = FakeErr;
    type Future = Pin<Box<dyn Future<Output = Result<Self::Response, FakeErr>> + Send>>;

    fn poll_ready(&mut self, _cx: &mut Context<'_>) -> Poll<Result<(), FakeErr>> {
        Poll::Ready(Ok(()))
    }

    fn call(&mut self, req: http::Request<TonicBody>) -> Self::Future {
        let path = req.uri().path().to_string();
        let headers = req.headers().clone();
        let h = self.handler.clone();
        Box::pin(async move {
            let body = req.into_body().collect().await.map_err(|e| FakeErr(format!("body: {e}")))?.to_bytes();
            let msg: Vec<u8> = if body.len() >= 5 { body[5..].to_vec() } else { vec![] };
            respond(h(headers, path, msg).await)
        })
    }
}

//! C33 / C34 — the real `Daser` worker (`Worker::run`, spawned by `Daser::start`) driven through
//! a `P2p` whose command channel and peer-tracker watch the harness owns, on a recording `Store`
//! wrapper around `InMemoryStore`.
//!
//! One op = one stimulus (store insert / removal, peer count change, pruner command, one network
//! answer).  After the stimulus the single-threaded runtime is run until the worker is parked in its
//! `select!` again (quiescence = a number of consecutive scheduler turns without any store call,
//! event or request), and the result line is the list of the worker's observable actions in order:
//! store calls (`scan` = get_stored_header_ranges, `meta`, `mark`), `NodeEvent`s and bitswap requests.
//! Events and requests are drained into the same log at every store call, so their order relative
//! to the store calls is exact.
#![allow(dead_code)]

use std::collections::{BTreeMap, BTreeSet};
use std::fmt::Display;
use std::sync::{Arc, Mutex};
use std::time::Duration;

use async_trait::async_trait;
use celestia_proto::bitswap::Block;
use celestia_types::consts::appconsts::AppVersion;
use celestia_types::hash::Hash;
use celestia_types::sample::{Sample, SampleId};
use celestia_types::test_utils::{ExtendedHeaderGenerator, generate_dummy_eds};
use celestia_types::{AxisType, DataAvailabilityHeader, ExtendedDataSquare, ExtendedHeader};
use cid::Cid;
use libp2p::identity::Keypair;
use lumina_node::events::{EventSubscriber, NodeEvent};
use lumina_node::store::{BlockRanges, InMemoryStore, SamplingMetadata, Store, StoreError, VerifiedExtendedHeaders};
use lumina_node::verif::daser as dh;
use lumina_node::verif::p2p as ph;
use prost::Message;
use tendermint::Time;
use verif_harness::*;

type SResult<T> = std::result::Result<T, StoreError>;

pub type Share = (u16, u16);

pub fn show_shares(l: &[Share]) -> String {
    if l.is_empty() {
        return "_".into();
    }
    let mut v = l.to_vec();
    v.sort();
    v.iter().map(|(r, c)| format!("{r}.{c}")).collect::<Vec<_>>().join("+")
}

#[derive(Clone, Debug)]
enum Tok {
    Scan,
    Meta(u64, Option<Vec<Share>>),
    Mark(u64),
    Started(u64, u16, Vec<Share>),
    Req(u64, Share),
    BadReq(String),
    ShareRes(u64, Share, bool),
    Result(u64, bool),
    Fatal,
}

struct Shared {
    log: Vec<Tok>,
    activity: u64,
    rig: Option<ph::DaserP2pRig>,
    sub: Option<EventSubscriber>,
    responders: BTreeMap<(u64, Share), Vec<ph::ShwapResponder>>,
}

impl Shared {
    /// move everything the worker has emitted so far (events, then requests) into the log
    fn drain(&mut self) {
        if let Some(sub) = self.sub.as_mut() {
            while let Ok(info) = sub.try_recv() {
                self.activity += 1;
                match info.event {
                    NodeEvent::SamplingStarted { height, square_width, shares } => {
                        self.log.push(Tok::Started(height, square_width, shares));
                    }
                    NodeEvent::ShareSamplingResult { height, row, column, timed_out, .. } => {
                        self.log.push(Tok::ShareRes(height, (row, column), timed_out));
                    }
                    NodeEvent::SamplingResult { height, timed_out, .. } => {
                        self.log.push(Tok::Result(height, timed_out));
                    }
                    NodeEvent::FatalDaserError { .. } => self.log.push(Tok::Fatal),
                    _ => {}
                }
            }
        }
        if let Some(rig) = self.rig.as_mut() {
            while let Some(cmd) = rig.try_next() {
                self.activity += 1;
                match cmd {
                    Ok((cid, responder)) => match SampleId::try_from(cid) {
                        Ok(id) => {
                            let key = (id.block_height(), (id.row_index(), id.column_index()));
                            self.log.push(Tok::Req(key.0, key.1));
                            self.responders.entry(key).or_default().push(responder);
                        }
                        Err(e) => self.log.push(Tok::BadReq(format!("{e}"))),
                    },
                    Err(other) => self.log.push(Tok::BadReq(other)),
                }
            }
        }
    }
}

/// `Store` that records the calls the daser makes and forwards them to an `InMemoryStore`
#[derive(Debug)]
pub struct RecStore {
    pub inner: InMemoryStore,
    shared: Arc<Mutex<Shared>>,
}

impl std::fmt::Debug for Shared {
    fn fmt(&self, f: &mut std::fmt::Formatter<'_>) -> std::fmt::Result {
        write!(f, "Shared")
    }
}

impl RecStore {
    fn touch(&self, tok: Option<Tok>) {
        let mut sh = self.shared.lock().unwrap();
        sh.drain();
        sh.activity += 1;
        if let Some(t) = tok {
            sh.log.push(t);
        }
    }
}

fn decode_cids(height: u64, cids: &[Cid]) -> Option<Vec<Share>> {
    let mut out = vec![];
    for cid in cids {
        let id = SampleId::try_from(*cid).ok()?;
        if id.block_height() != height {
            return None;
        }
        out.push((id.row_index(), id.column_index()));
    }
    Some(out)
}

#[async_trait]
impl Store for RecStore {
    async fn get_head(&self) -> SResult<ExtendedHeader> {
        self.touch(None);
        Store::get_head(&self.inner).await
    }
    async fn get_by_hash(&self, hash: &Hash) -> SResult<ExtendedHeader> {
        self.touch(None);
        Store::get_by_hash(&self.inner, hash).await
    }
    async fn get_by_height(&self, height: u64) -> SResult<ExtendedHeader> {
        self.touch(None);
        Store::get_by_height(&self.inner, height).await
    }
    async fn wait_new_head(&self) -> u64 {
        Store::wait_new_head(&self.inner).await
    }
    async fn wait_height(&self, height: u64) -> SResult<()> {
        Store::wait_height(&self.inner, height).await
    }
    async fn head_height(&self) -> SResult<u64> {
        self.touch(None);
        Store::head_height(&self.inner).await
    }
    async fn has(&self, hash: &Hash) -> bool {
        self.touch(None);
        Store::has(&self.inner, hash).await
    }
    async fn has_at(&self, height: u64) -> bool {
        self.touch(None);
        Store::has_at(&self.inner, height).await
    }
    async fn update_sampling_metadata(&self, height: u64, cids: Vec<Cid>) -> SResult<()> {
        self.touch(Some(Tok::Meta(height, decode_cids(height, &cids))));
        Store::update_sampling_metadata(&self.inner, height, cids).await
    }
    async fn get_sampling_metadata(&self, height: u64) -> SResult<Option<SamplingMetadata>> {
        self.touch(None);
        Store::get_sampling_metadata(&self.inner, height).await
    }
    async fn mark_as_sampled(&self, height: u64) -> SResult<()> {
        self.touch(Some(Tok::Mark(height)));
        Store::mark_as_sampled(&self.inner, height).await
    }
    async fn insert<R>(&self, headers: R) -> SResult<()>
    where
        R: TryInto<VerifiedExtendedHeaders> + Send,
        <R as TryInto<VerifiedExtendedHeaders>>::Error: Display,
    {
        self.touch(None);
        Store::insert(&self.inner, headers).await
    }
    async fn get_stored_header_ranges(&self) -> SResult<BlockRanges> {
        self.touch(Some(Tok::Scan));
        Store::get_stored_header_ranges(&self.inner).await
    }
    async fn get_sampled_ranges(&self) -> SResult<BlockRanges> {
        self.touch(None);
        Store::get_sampled_ranges(&self.inner).await
    }
    async fn get_pruned_ranges(&self) -> SResult<BlockRanges> {
        self.touch(None);
        Store::get_pruned_ranges(&self.inner).await
    }
    async fn remove_height(&self, height: u64) -> SResult<()> {
        self.touch(None);
        Store::remove_height(&self.inner, height).await
    }
    async fn get_identity(&self) -> SResult<Keypair> {
        Store::get_identity(&self.inner).await
    }
    async fn close(self) -> SResult<()> {
        Ok(())
    }
}

/// sampling window handed to the daser; "old" headers are two windows old, fresh ones a day old
const WINDOW: Duration = Duration::from_secs(7 * 24 * 3600);

struct Live {
    store: Arc<RecStore>,
    daser: dh::VerifDaser,
    chain: Vec<ExtendedHeader>,
    widths: Vec<u16>,
    granted: BTreeSet<u64>,
    dead: bool,
}

pub struct Rig {
    rt: tokio::runtime::Runtime,
    shared: Arc<Mutex<Shared>>,
    live: Option<Live>,
    eds_cache: BTreeMap<usize, (ExtendedDataSquare, DataAvailabilityHeader)>,
    sample_cache: BTreeMap<(usize, Share), Vec<u8>>,
    last_obs: String,
}

fn pow2_at_least(w: usize) -> usize {
    let mut p = 2;
    while p < w {
        p *= 2;
    }
    p
}

impl Rig {
    pub fn new() -> Self {
        let rt = tokio::runtime::Builder::new_current_thread().enable_time().build().unwrap();
        let shared = Arc::new(Mutex::new(Shared {
            log: vec![],
            activity: 0,
            rig: None,
            sub: None,
            responders: BTreeMap::new(),
        }));
        Rig { rt, shared, live: None, eds_cache: BTreeMap::new(), sample_cache: BTreeMap::new(), last_obs: "-".into() }
    }

    fn eds(&mut self, big: usize) -> &(ExtendedDataSquare, DataAvailabilityHeader) {
        self.eds_cache.entry(big).or_insert_with(|| {
            let eds = generate_dummy_eds(big, AppVersion::V2);
            let dah = DataAvailabilityHeader::from_eds(&eds);
            (eds, dah)
        })
    }

    /// a header whose DAH has exactly `w` row and column roots (the daser reads nothing else of it)
    fn dah_of_width(&mut self, w: usize) -> DataAvailabilityHeader {
        let big = pow2_at_least(w.max(2));
        let (_, dah) = self.eds(big);
        DataAvailabilityHeader::new_unchecked(dah.row_roots()[..w].to_vec(), dah.column_roots()[..w].to_vec())
    }

    /// the bitswap block answering the request for share `p` of a block of width `w`
    fn sample_block(&mut self, height: u64, w: usize, p: Share) -> Option<Vec<u8>> {
        let big = pow2_at_least(w.max(2));
        if p.0 as usize >= big || p.1 as usize >= big {
            return None;
        }
        let container = match self.sample_cache.get(&(big, p)) {
            Some(c) => c.clone(),
            None => {
                let (eds, _) = self.eds(big);
                let sample = Sample::new(p.0, p.1, AxisType::Row, eds).ok()?;
                let mut buf = bytes::BytesMut::new();
                sample.encode(&mut buf);
                let v = buf.to_vec();
                self.sample_cache.insert((big, p), v.clone());
                v
            }
        };
        let id = SampleId::new(p.0, p.1, height).ok()?;
        let cid: Cid = {
            let c: cid::CidGeneric<12> = id.into();
            // same bytes, wider multihash container (what `convert_cid` does)
            Cid::read_bytes(&c.to_bytes()[..]).ok()?
        };
        Some(Block { cid: cid.to_bytes(), container }.encode_to_vec())
    }

    /// run the runtime until nothing happens any more
    fn settle(&mut self) {
        let shared = self.shared.clone();
        self.rt.block_on(async move {
            let mut quiet = 0;
            let mut last = u64::MAX;
            while quiet < 24 {
                tokio::task::yield_now().await;
                let mut sh = shared.lock().unwrap();
                sh.drain();
                if sh.activity == last {
                    quiet += 1;
                } else {
                    quiet = 0;
                    last = sh.activity;
                }
            }
        });
    }

    fn take_log(&mut self) -> (String, String) {
        let toks: Vec<Tok> = std::mem::take(&mut self.shared.lock().unwrap().log);
        let mut out: Vec<String> = vec![];
        let mut obs: Vec<String> = vec![];
        let mut i = 0;
        while i < toks.len() {
            match &toks[i] {
                Tok::Scan => out.push("scan".into()),
                Tok::Meta(h, Some(sh)) => {
                    out.push(format!("meta:{h}:{}", show_shares(sh)));
                    obs.push(format!("{h}:{}", show_shares(sh)));
                }
                Tok::Meta(h, None) => {
                    out.push(format!("meta:{h}:BADCID"));
                    obs.push(format!("{h}:_"));
                }
                Tok::Mark(h) => out.push(format!("mark:{h}")),
                Tok::ShareRes(h, p, t) => out.push(format!("share:{h}:{}.{}:{}", p.0, p.1, *t as u8)),
                Tok::Result(h, t) => out.push(format!("result:{h}:{}", *t as u8)),
                Tok::Fatal => out.push("fatal".into()),
                Tok::BadReq(s) => out.push(format!("badreq:{}", s.replace(' ', "_").chars().take(40).collect::<String>())),
                Tok::Started(..) | Tok::Req(..) => {
                    // A run of SamplingStarted events and requests with no store call (or other event) in between =
                    // the first polls of a batch of freshly scheduled blocks.  Events and requests travel on different
                    // channels and are drained together only every few scheduler turns, and with many blocks starting at
                    // once the worker needs several turns for one batch (FuturesUnordered hands control back after two
                    // self-waking children, the current-thread scheduler runs 61 task polls between two drains, and the
                    // coop budget of 128 defers the sends of the block that exhausts it).  How the events and the requests
                    // of ONE batch interleave is therefore not observable: canonical form = the started events in their
                    // order, then the requests grouped by height in the order of the started events (groups of heights
                    // without a started event in the run keep their order of first appearance, after the others).
                    let mut starts: Vec<(u64, String)> = vec![];
                    let mut groups: Vec<(u64, Vec<Share>)> = vec![];
                    while i < toks.len() {
                        match &toks[i] {
                            Tok::Started(h, w, sh) => starts.push((*h, format!("started:{h}:{w}:{}", show_shares(sh)))),
                            Tok::Req(h, p) => match groups.iter_mut().find(|g| g.0 == *h) {
                                Some(g) => g.1.push(*p),
                                None => groups.push((*h, vec![*p])),
                            },
                            _ => break,
                        }
                        i += 1;
                    }
                    let pos = |h: u64| starts.iter().position(|s| s.0 == h).unwrap_or(usize::MAX);
                    groups.sort_by_key(|g| pos(g.0)); // stable
                    for (_, s) in &starts {
                        out.push(s.clone());
                    }
                    for (h, sh) in groups {
                        out.push(format!("req:{h}:{}", show_shares(&sh)));
                    }
                    continue;
                }
            }
            i += 1;
        }
        let line = if out.is_empty() { "-".to_string() } else { out.join(" ") };
        let obs = if obs.is_empty() { "-".to_string() } else { obs.join(";") };
        (line, obs)
    }

    fn reset(&mut self, line: &str) -> String {
        // stop the previous worker
        if let Some(old) = self.live.take() {
            old.daser.stop();
            let sh = self.shared.clone();
            self.rt.block_on(async move {
                old.daser.join().await;
                drop(old);
                for _ in 0..8 {
                    tokio::task::yield_now().await;
                }
                let _ = sh;
            });
        }
        {
            let mut sh = self.shared.lock().unwrap();
            sh.log.clear();
            sh.responders.clear();
            sh.rig = None;
            sh.sub = None;
        }
        let (Some(limit), Some(extra), Some(old)) = (arg_u64(line, "limit"), arg_u64(line, "extra"), arg_u64(line, "old")) else {
            return "bad-op".into();
        };
        let Some(ws) = arg(line, "ws").and_then(unnatl) else { return "bad-op".into() };
        let widths: Vec<u16> = ws.iter().map(|w| *w as u16).collect();

        // the chain: heights 1..=N; heights <= old are two windows old, the rest one day old
        let now = Time::now();
        let mut generator = ExtendedHeaderGenerator::new();
        let mut chain = vec![];
        generator.set_time((now - WINDOW * 2).unwrap(), Duration::from_secs(1));
        for (i, w) in widths.iter().enumerate() {
            let height = i as u64 + 1;
            if height == old + 1 {
                generator.set_time((now - Duration::from_secs(24 * 3600)).unwrap(), Duration::from_secs(1));
            }
            let dah = self.dah_of_width(*w as usize);
            chain.push(generator.next_with_dah(dah));
        }

        let shared = self.shared.clone();
        let store = Arc::new(RecStore { inner: InMemoryStore::new(), shared: shared.clone() });
        let st = store.clone();
        let res = self.rt.block_on(async move {
            let (p2p, rig) = ph::daser_p2p(8192);
            let (daser, sub) = dh::start_daser(p2p, st, WINDOW, limit as usize, extra as usize)?;
            let mut sh = shared.lock().unwrap();
            sh.rig = Some(rig);
            sh.sub = Some(sub);
            Ok::<_, String>(daser)
        });
        match res {
            Ok(daser) => {
                self.live = Some(Live { store, daser, chain, widths, granted: BTreeSet::new(), dead: false });
                self.settle();
                let _ = self.take_log();
                "ok".into()
            }
            Err(e) => format!("start-failed {e}"),
        }
    }

    /// heights with unanswered requests whose requester is still alive, with those shares
    fn outstanding(&self) -> BTreeMap<u64, Vec<Share>> {
        let sh = self.shared.lock().unwrap();
        let mut m: BTreeMap<u64, Vec<Share>> = BTreeMap::new();
        for ((h, p), rs) in sh.responders.iter() {
            for r in rs {
                if !r.is_closed() {
                    m.entry(*h).or_default().push(*p);
                }
            }
        }
        for v in m.values_mut() {
            v.sort();
        }
        m
    }

    pub fn run(&mut self, line: &str) -> String {
        self.last_obs = "-".into();
        let op = opname(line);
        if op == "reset" {
            return self.reset(line);
        }
        if op == "ridx" {
            let Some(w) = arg_u64(line, "w") else { return "bad-op".into() };
            let out = dh::random_indexes(w as u16, dh::MAX_SAMPLES_NEEDED);
            self.last_obs = show_shares(&out);
            return format!("ok n={}", out.len());
        }
        if self.live.is_none() {
            return "bad-op".into();
        }
        let mut prefix: Vec<String> = vec![];
        match op {
            "peers" => {
                let Some(n) = arg_u64(line, "n") else { return "bad-op".into() };
                let sh = self.shared.lock().unwrap();
                sh.rig.as_ref().unwrap().set_connected_peers(n as usize);
            }
            "insert" => {
                let (Some(lo), Some(hi)) = (arg_u64(line, "lo"), arg_u64(line, "hi")) else { return "bad-op".into() };
                let live = self.live.as_ref().unwrap();
                let n = live.chain.len() as u64;
                if lo == 0 || lo > hi || hi > n {
                    prefix.push("storeerr".into());
                } else {
                    let headers: Vec<ExtendedHeader> = live.chain[(lo - 1) as usize..hi as usize].to_vec();
                    let store = live.store.clone();
                    let r = self.rt.block_on(async move { Store::insert(&store.inner, headers).await });
                    if r.is_err() {
                        prefix.push("storeerr".into());
                    }
                }
            }
            "remove" | "rmgranted" => {
                let live = self.live.as_ref().unwrap();
                let h = if op == "remove" {
                    let Some(h) = arg_u64(line, "h") else { return "bad-op".into() };
                    h
                } else {
                    let Some(i) = arg_u64(line, "i") else { return "bad-op".into() };
                    let store = live.store.clone();
                    let stored = self.rt.block_on(async move { Store::get_stored_header_ranges(&store.inner).await.unwrap() });
                    let g: Vec<u64> = live.granted.iter().copied().filter(|h| stored.contains(*h)).collect();
                    if g.is_empty() {
                        return "noop".into();
                    }
                    g[(i % g.len() as u64) as usize]
                };
                let store = live.store.clone();
                let r = self.rt.block_on(async move { Store::remove_height(&store.inner, h).await });
                if r.is_err() {
                    prefix.push("storeerr".into());
                }
            }
            "prune" => {
                let Some(h) = arg_u64(line, "h") else { return "bad-op".into() };
                let live = self.live.as_mut().unwrap();
                let daser = &live.daser;
                let r = self.rt.block_on(async { daser.want_to_prune(h).await });
                match r {
                    Ok(true) => {
                        live.granted.insert(h);
                        prefix.push(format!("grant:{h}:1"));
                    }
                    Ok(false) => prefix.push(format!("grant:{h}:0")),
                    Err(_) => {
                        live.dead = true;
                        live.granted.clear();
                        prefix.push(format!("grant:{h}:err"));
                    }
                }
            }
            "hp" | "np" => {
                let Some(v) = arg_u64(line, "v") else { return "bad-op".into() };
                let daser = &self.live.as_ref().unwrap().daser;
                let _ = self.rt.block_on(async {
                    if op == "hp" {
                        daser.update_highest_prunable_block(v).await
                    } else {
                        daser.update_number_of_prunable_blocks(v).await
                    }
                });
            }
            "ans" => {
                let (Some(b), Some(k), Some(to)) = (arg_u64(line, "b"), arg_u64(line, "k"), arg_u64(line, "to")) else {
                    return "bad-op".into();
                };
                let out = self.outstanding();
                if out.is_empty() {
                    return "noop".into();
                }
                let hs: Vec<u64> = out.keys().copied().collect();
                let h = hs[(b % hs.len() as u64) as usize];
                let pend = &out[&h];
                let p = pend[(k % pend.len() as u64) as usize];
                let w = self.live.as_ref().unwrap().widths.get((h - 1) as usize).copied().unwrap_or(0) as usize;
                // to: 0 the sample, 1 timeout, 2 non-timeout P2p error, 3 not a Block, 4 block of another CID,
                //     5 right CID around a container that is not a sample
                let block = match to {
                    0 => self.sample_block(h, w, p),
                    3 => Some(vec![0xff; 40]),
                    4 => self.sample_block(h + 1, w, p),
                    5 => SampleId::new(p.0, p.1, h).ok().and_then(|id| {
                        let c: cid::CidGeneric<12> = id.into();
                        let cid = Cid::read_bytes(&c.to_bytes()[..]).ok()?;
                        Some(Block { cid: cid.to_bytes(), container: vec![0xff; 10] }.encode_to_vec())
                    }),
                    _ => None,
                };
                let responder = {
                    let mut sh = self.shared.lock().unwrap();
                    let rs = sh.responders.get_mut(&(h, p)).unwrap();
                    let idx = rs.iter().position(|r| !r.is_closed()).unwrap();
                    let r = rs.remove(idx);
                    if rs.is_empty() {
                        sh.responders.remove(&(h, p));
                    }
                    r
                };
                match (to, block) {
                    (2, _) => {
                        responder.fatal();
                    }
                    (_, Some(bytes)) => {
                        responder.ok(bytes);
                    }
                    (_, None) => {
                        responder.timed_out();
                    }
                }
            }
            _ => return "bad-op".into(),
        }
        self.settle();
        // forget responders whose requester is gone
        {
            let mut sh = self.shared.lock().unwrap();
            sh.responders.retain(|_, rs| {
                rs.retain(|r| !r.is_closed());
                !rs.is_empty()
            });
        }
        let (line, obs) = self.take_log();
        self.last_obs = obs;
        if line.split(' ').any(|t| t == "fatal") {
            let live = self.live.as_mut().unwrap();
            live.dead = true;
            live.granted.clear();
        }
        if prefix.is_empty() {
            line
        } else if line == "-" {
            prefix.join(" ")
        } else {
            format!("{} {}", prefix.join(" "), line)
        }
    }

    pub fn observed(&mut self) -> Option<String> {
        Some(self.last_obs.clone())
    }
}

// ---------------------------------------------------------------------------------------------
// generator
// ---------------------------------------------------------------------------------------------

pub struct GenCfg {
    pub episodes: usize,
    pub max_ops: usize,
    pub max_chain: usize,
    /// favour many small blocks and pruner reports (C34) or wide squares and timeouts (C33)
    pub c34_bias: bool,
    pub ridx_widths: Vec<u64>,
    /// thorough tier: more and larger size-threshold episodes (S10)
    pub thorough: bool,
}

fn pick_width(rng: &mut Rng, c34_bias: bool) -> u64 {
    if c34_bias {
        match rng.below(10) {
            0..=5 => 2,
            6 => 5,
            7 => 4,
            8 => 3,
            _ => rng.range(5, 64),
        }
    } else {
        match rng.below(10) {
            0 => 7,
            1 | 2 => 2,
            3 => 3,
            4 => 4,
            5 => 5,
            6 => rng.range(6, 16),
            7 => *rng.pick(&[8, 16, 32, 64]),
            _ => rng.range(17, 64),
        }
    }
}

pub fn gen_all(rng: &mut Rng, cfg: &GenCfg, out: &mut Emitter) {
    for w in &cfg.ridx_widths {
        out.op(format!("ridx w={w}"), "ridx", true);
    }
    for ep in 0..cfg.episodes {
        let n = rng.usize(3, cfg.max_chain);
        let limit = match rng.below(8) {
            0 => 0,
            1 | 2 => 1,
            3 | 4 => 2,
            5 => 3,
            _ => rng.range(1, 6),
        };
        let extra = match rng.below(5) {
            0 => 0,
            1 => 5,
            _ => rng.range(0, 3),
        };
        // which heights are outside the sampling window
        let old = match rng.below(4) {
            0 => rng.range(0, n as u64),
            1 => rng.range(0, 3),
            _ => 0,
        };
        let ws: Vec<u64> = (0..n).map(|_| pick_width(rng, cfg.c34_bias)).collect();
        out.op(format!("reset limit={limit} extra={extra} old={old} ws={}", natl(&ws)), "reset", false);

        // generator's belief about the store (exact except for `rmgranted`)
        let mut stored: BTreeSet<u64> = BTreeSet::new();
        let mut connected = false;
        let ops = rng.usize(cfg.max_ops / 3, cfg.max_ops);
        // some episodes start with a pre-filled store, some with the pruner already reporting a backlog
        if rng.chance(1, 2) {
            let hi = rng.range(1, n as u64);
            let lo = rng.range(1, hi);
            out.op(format!("insert lo={lo} hi={hi}"), "insert/prefill", true);
            stored.extend(lo..=hi);
        }
        if rng.chance(1, 4) {
            out.op(format!("np v={}", rng.pick(&[511u64, 512, 513, 1000])), "np", true);
            out.op(format!("hp v={}", rng.range(0, n as u64)), "hp", true);
        }
        for _ in 0..ops {
            let head = stored.iter().next_back().copied().unwrap_or(0);
            let roll = rng.below(100);
            if !connected && roll < 25 || roll < 3 {
                let nn = if connected && rng.chance(2, 3) { 0 } else { rng.range(1, 3) };
                out.op(format!("peers n={nn}"), if nn == 0 { "peers/disconnect" } else { "peers/connect" }, true);
                connected = nn > 0;
            } else if roll < 45 {
                // one answer, or a burst that finishes a block
                let burst = if rng.chance(1, 3) { rng.range(2, 16) } else { 1 };
                let b = rng.below(8);
                let timeouts = rng.chance(1, 3);
                // rarely the last answer of the burst is neither a sample nor a timeout (fatal for the worker)
                let bad_last = rng.chance(1, 20);
                for i in 0..burst {
                    let to = if bad_last && i + 1 == burst {
                        rng.range(2, 5)
                    } else if timeouts && rng.chance(1, 4) {
                        1
                    } else {
                        0
                    };
                    let tag = match to {
                        0 => "ans/ok",
                        1 => "ans/timeout",
                        2 => "ans/p2p-error",
                        3 => "ans/not-a-block",
                        4 => "ans/foreign-cid",
                        _ => "ans/bad-container",
                    };
                    out.op(format!("ans b={b} k={} to={to}", rng.below(16)), tag, true);
                }
            } else if roll < 65 {
                // insert: new head (contiguous / after a gap), a fill of a gap below the head, or an invalid one
                let n64 = n as u64;
                let valid_insert = |stored: &BTreeSet<u64>, lo: u64, hi: u64| {
                    let head = stored.iter().next_back().copied().unwrap_or(0);
                    lo >= 1
                        && lo <= hi
                        && hi <= n64
                        && (lo..=hi).all(|h| !stored.contains(&h))
                        && (stored.is_empty() || lo > head || stored.contains(&(lo - 1)) || stored.contains(&(hi + 1)))
                };
                let kind = rng.below(10);
                let (lo, hi, tag) = if kind < 5 && head < n64 {
                    let lo = if kind < 3 || head + 1 >= n64 { head + 1 } else { rng.range(head + 2, n64) };
                    let span = rng.range(0, 4);
                    (lo, (lo + span).min(n64), if lo == head + 1 { "insert/append" } else { "insert/gap" })
                } else if kind < 9 {
                    // maximal gaps strictly below the head
                    let mut gaps: Vec<(u64, u64)> = vec![];
                    let mut h = 1;
                    while h < head {
                        if !stored.contains(&h) {
                            let a = h;
                            while h < head && !stored.contains(&h) {
                                h += 1;
                            }
                            gaps.push((a, h - 1));
                        } else {
                            h += 1;
                        }
                    }
                    if gaps.is_empty() {
                        continue;
                    }
                    let (a, b) = *rng.pick(&gaps);
                    let k = rng.range(0, (b - a).min(4));
                    if rng.bool() { (b - k, b, "insert/fill") } else if a > 1 { (a, a + k, "insert/fill") } else { (b - k, b, "insert/fill") }
                } else {
                    let lo = rng.range(0, n64 + 1);
                    (lo, rng.range(lo, lo + 3), "insert/random")
                };
                let valid = valid_insert(&stored, lo, hi);
                out.op(format!("insert lo={lo} hi={hi}"), if valid { tag } else { "insert/invalid" }, true);
                if valid {
                    stored.extend(lo..=hi);
                }
            } else if roll < 77 {
                let h = if rng.chance(1, 12) { rng.range(0, n as u64 + 2) } else if stored.is_empty() { 1 } else {
                    *rng.pick(&stored.iter().copied().collect::<Vec<_>>())
                };
                if h == 0 && !rng.chance(1, 4) {
                    continue;
                }
                out.op(format!("prune h={h}"), if h == 0 { "prune/zero" } else { "prune" }, true);
            } else if roll < 85 {
                out.op(format!("rmgranted i={}", rng.below(8)), "rmgranted", true);
            } else if roll < 87 {
                // a pruner that does not ask first (may remove a block in progress: fatal for the worker)
                let h = if stored.is_empty() { 1 } else { *rng.pick(&stored.iter().copied().collect::<Vec<_>>()) };
                out.op(format!("remove h={h}"), "remove/rogue", true);
                stored.remove(&h);
            } else if roll < 93 {
                let v = *rng.pick(&[0u64, 1, 100, 511, 512, 513, 5000]);
                out.op(format!("np v={v}"), "np", true);
            } else {
                let v = if rng.chance(1, 3) { head } else { rng.range(0, n as u64 + 1) };
                out.op(format!("hp v={v}"), "hp", true);
            }
        }
        let _ = ep;
    }
    out.op("reset limit=1 extra=0 old=0 ws=2", "reset", false);
    gen_big(rng, cfg, out);
    out.op("reset limit=1 extra=0 old=0 ws=2", "reset", false);
}

// ---------------------------------------------------------------------------------------------
// S10 size-threshold stress: appended episodes (each starts with its own `reset`)
// ---------------------------------------------------------------------------------------------

/// answers to outstanding requests: mostly the lowest outstanding height (so that blocks finish and the
/// next ones start), sometimes any height; `timeout_1_in` = 0: never a timeout
fn emit_answers(rng: &mut Rng, out: &mut Emitter, count: usize, timeout_1_in: u64, tag: &str) {
    for _ in 0..count {
        let b = if rng.chance(1, 2) { 0 } else { rng.below(200) };
        let to = if timeout_1_in > 0 && rng.chance(1, timeout_1_in) { 1 } else { 0 };
        out.op(format!("ans b={b} k={} to={to}", rng.below(16)), if to == 0 { tag } else { "big/ans-timeout" }, true);
    }
}

fn samples_of_width(w: u64) -> usize {
    ((w * w) as usize).min(16)
}

/// concurrency limit `limit` (+ `extra` for the head) really reached: a chain of limit+extra+14 blocks (more when gappy; mostly
/// width 2), pre-filled in one range or in many ranges separated by one-block gaps, a pruner backlog of 511 / 512 / 513 over
/// the lowest 3..6 heights, new heads arriving one by one while `limit` blocks are in progress (head allowance),
/// pruner questions about blocks in progress / queued, a disconnect with everything in progress, and enough
/// answers to drain the chain.
fn concurrency_episode(rng: &mut Rng, out: &mut Emitter, limit: usize, extra: usize, gappy: bool) {
    // enough stored, unpaused, in-window blocks in the first wave for `limit` of them to be in progress at once
    let n = if gappy { (limit + extra) * 3 / 2 + 16 } else { limit + extra + 14 };
    let ws: Vec<u64> = (0..n).map(|_| if rng.chance(1, 6) { *rng.pick(&[3u64, 4, 5, 8, 16]) } else { 2 }).collect();
    let old = if rng.chance(1, 3) { 2 } else { 0 };
    out.op(
        format!("reset limit={limit} extra={extra} old={old} ws={}", natl(&ws)),
        &format!("big/limit={limit}-extra={extra}-blocks={n}{}", if gappy { "-gappy" } else { "" }),
        false,
    );
    let t = "big/conc";
    let first_wave = (n - extra - 2) as u64; // the last extra+2 heights arrive later, one by one
    if gappy {
        // ranges of 1..3 heights separated by one missing height: many stored ranges, many queue ranges
        let mut lo = 1u64;
        while lo <= first_wave {
            let hi = (lo + rng.range(0, 2)).min(first_wave);
            out.op(format!("insert lo={lo} hi={hi}"), "big/insert-range", true);
            lo = hi + 2;
        }
    } else {
        out.op(format!("insert lo=1 hi={first_wave}"), "big/insert-prefill", true);
    }
    let np = *rng.pick(&[511u64, 512, 513]);
    out.op(format!("np v={np}"), &format!("thr/backlog={np}"), true);
    out.op(format!("hp v={}", rng.range(3, 6)), t, true);
    out.op("peers n=2", "big/connect", true);
    // rough number of answers needed for everything
    let total: usize = ws.iter().map(|w| samples_of_width(*w)).sum();
    emit_answers(rng, out, total / 4, 0, "big/ans");
    // new heads one by one: each may start on top of `limit` blocks in progress, up to limit+extra
    for h in first_wave + 1..=n as u64 {
        out.op(format!("insert lo={h} hi={h}"), "big/insert-head", true);
        if rng.chance(1, 3) {
            emit_answers(rng, out, 1, 0, "big/ans");
        }
    }
    // the pruner asks about heights all over the chain (in progress: refused; queued: granted and dequeued)
    for _ in 0..6 {
        out.op(format!("prune h={}", rng.range(1, n as u64)), "big/prune", true);
    }
    out.op(format!("rmgranted i={}", rng.below(8)), "big/rmgranted", true);
    emit_answers(rng, out, total / 4, 12, "big/ans");
    // backlog crosses the threshold in both directions
    for v in [511u64, 512, 513, 512, 511] {
        out.op(format!("np v={v}"), &format!("thr/backlog={v}"), true);
        emit_answers(rng, out, 2, 0, "big/ans");
    }
    if rng.chance(2, 3) {
        // everything in progress is dropped and rescheduled
        out.op("peers n=0", "big/disconnect", true);
        out.op("peers n=1", "big/connect", true);
    }
    if gappy {
        // fill some of the gaps (joins ranges; the filled heights are queued below blocks in progress)
        let mut h = 2u64;
        while h < first_wave {
            if rng.chance(1, 3) {
                out.op(format!("insert lo={h} hi={h}"), "big/insert-fill", true);
            }
            h += rng.range(1, 4);
        }
    }
    out.op("np v=0", t, true);
    emit_answers(rng, out, total + total / 4, 15, "big/ans");
}

/// many blocks QUEUED: a long chain (in many ranges when `gappy`) with a small limit; only part of it is drained
fn long_queue_episode(rng: &mut Rng, out: &mut Emitter, n: usize, gappy: bool, answers: usize) {
    let limit = rng.range(1, 3);
    let ws: Vec<u64> = (0..n).map(|_| if rng.chance(1, 10) { 3 } else { 2 }).collect();
    let old = if rng.bool() { n as u64 / 4 } else { 0 };
    out.op(
        format!("reset limit={limit} extra=1 old={old} ws={}", natl(&ws)),
        &format!("big/queued-blocks={n}{}", if gappy { "-gappy" } else { "" }),
        false,
    );
    let n64 = n as u64;
    if gappy {
        let mut lo = 1u64;
        while lo <= n64 {
            let hi = (lo + rng.range(0, 3)).min(n64);
            out.op(format!("insert lo={lo} hi={hi}"), "big/insert-range", true);
            lo = hi + 2;
        }
    } else {
        out.op(format!("insert lo=1 hi={}", n64 - 1), "big/insert-prefill", true);
    }
    out.op(format!("np v={}", *rng.pick(&[511u64, 512, 513])), "big/queue", true);
    out.op(format!("hp v={}", n64 / 2), "big/queue", true);
    out.op("peers n=1", "big/connect", true);
    for round in 0..6 {
        emit_answers(rng, out, answers / 6, 10, "big/ans");
        match round {
            0 => out.op(format!("prune h={}", rng.range(1, n64)), "big/prune", true),
            1 => out.op(format!("insert lo={n64} hi={n64}"), "big/insert-head", true),
            2 => out.op(format!("rmgranted i={}", rng.below(4)), "big/rmgranted", true),
            3 => out.op("np v=511", "thr/backlog=511", true),
            4 => out.op(format!("remove h={}", rng.range(1, n64 / 2)), "big/remove-rogue", true),
            _ => out.op(format!("hp v={}", rng.range(0, n64)), "big/queue", true),
        }
    }
}

/// square widths at powers of two +-1: one block per width, everything answered (some shares time out)
fn width_episode(rng: &mut Rng, out: &mut Emitter, widths: &[u64], timeout_1_in: u64) {
    let mut ws = widths.to_vec();
    rng.shuffle(&mut ws);
    let limit = rng.range(1, 3);
    out.op(format!("reset limit={limit} extra=1 old=0 ws={}", natl(&ws)), "thr/widths", false);
    out.op(format!("insert lo=1 hi={}", ws.len()), "thr/widths-insert", true);
    out.op("peers n=1", "thr/widths-connect", true);
    let total: usize = ws.iter().map(|w| samples_of_width(*w)).sum();
    for _ in 0..total + total / 8 + 4 {
        let to = if timeout_1_in > 0 && rng.chance(1, timeout_1_in) { 1 } else { 0 };
        out.op(format!("ans b={} k={} to={to}", rng.below(3), rng.below(16)), if to == 0 { "thr/widths-ans" } else { "thr/widths-timeout" }, true);
    }
}

pub fn gen_big(rng: &mut Rng, cfg: &GenCfg, out: &mut Emitter) {
    // (a) concurrency limits up to 64 (+-1) really reached
    let limits: &[usize] = match (cfg.thorough, cfg.c34_bias) {
        (true, _) => &[7, 8, 9, 10, 15, 16, 17, 31, 32, 33, 63, 64, 65, 127, 128, 129],
        (false, true) => &[7, 8, 9, 16, 17, 32, 33, 63, 64, 65],
        (false, false) => &[8, 9, 17, 33, 64, 65],
    };
    for (i, &l) in limits.iter().enumerate() {
        let extra = [0usize, 1, 5, 2][i % 4];
        concurrency_episode(rng, out, l, extra, i % 2 == 1);
        if cfg.thorough {
            concurrency_episode(rng, out, l, [5usize, 0, 1, 3][i % 4], i % 2 == 0);
        }
    }
    // (b) many blocks queued / many stored ranges
    let queues: &[(usize, usize)] = match (cfg.thorough, cfg.c34_bias) {
        (true, _) => &[(65, 300), (129, 600), (257, 600), (511, 300), (512, 300), (513, 1200), (1025, 600)],
        (false, true) => &[(65, 120), (129, 240), (513, 240)],
        (false, false) => &[(129, 120), (513, 120)],
    };
    for (i, &(n, answers)) in queues.iter().enumerate() {
        long_queue_episode(rng, out, n, i % 2 == 0, answers);
        if cfg.thorough {
            long_queue_episode(rng, out, n, i % 2 == 1, answers);
        }
    }
    // (c) square widths at powers of two +-1 (C33: with timeouts, so that "marked only after full success" matters)
    let widths: &[u64] = if cfg.thorough {
        &[2, 3, 4, 5, 7, 8, 9, 15, 16, 17, 31, 32, 33, 63, 64, 65, 127, 128, 129, 255, 256]
    } else {
        &[3, 4, 5, 7, 8, 9, 15, 16, 17, 31, 32, 33, 63, 64, 65, 127, 128, 129]
    };
    let passes = if cfg.thorough { 4 } else { 1 };
    for pass in 0..passes {
        width_episode(rng, out, widths, if cfg.c34_bias && pass == 0 { 0 } else { 12 });
    }
}

import Driver.Common
import Driver.RangesIO
import Lumina.Model.Ranges
import Lumina.Spec.C18

open Lumina.Util Lumina.Model.Ranges Driver.RangesIO

namespace Driver.C18

def showRes : Res (Bool × Bool) → String
  | .ok (p, n) => s!"ok {p} {n}"
  | .error e => showErr e

/-- `check rs=<ranges> s=<start> e=<end>`; `rs` is loaded with `from_vec` on both sides -/
def step (_ : Unit) (line : String) : Unit × String :=
  let ws := words line
  match ws with
  | "reset" :: _ => ((), "ok")
  | "check" :: _ =>
    match rangesArg? ws "rs", rangeArg? ws "s" "e" with
    | some v, some r =>
      match fromVec v with
      | .ok rs => ((), showRes (checkInsertionConstraints rs r))
      | .error e => ((), "load-" ++ showErr e)
    | _, _ => ((), "bad-op")
  | _ => ((), "bad-op")

open Lumina.Spec.C18 in
def parseObs (os : List String) : Obs :=
  match os with
  | ["ok", p, n] =>
    if (p == "true" || p == "false") && (n == "true" || n == "false") then .ok (p == "true") (n == "true")
    else .other
  | ["err", e] =>
    match e.splitOn ":" with
    | "invalid" :: _ => .errInvalid
    | "overlap" :: _ => .errOverlap
    | "noadjacent" :: _ => .errNoAdjacent
    | _ => .other
  | _ => .other

def spec (_ : Unit) (op : String) (obs : String) : String :=
  let ws := words op
  match ws with
  | "check" :: _ =>
    match rangesArg? ws "rs", rangeArg? ws "s" "e" with
    | some rs, some r =>
      -- the property speaks about stored ranges, which are canonical values
      if !Lumina.Spec.C17.canonical rs then "specskip"
      else if Lumina.Spec.C18.specCheck rs r (parseObs (words obs)) then "specok"
      else
        let kind := match parseObs (words obs) with
          | .ok _ _ => "admitted"
          | .errInvalid => "invalid"
          | .errOverlap => "overlap"
          | .errNoAdjacent => "noadjacent"
          | .other => "other"
        s!"specfail C18/{kind} observed result contradicts the admission rule"
    | _, _ => "specfail C18/unparsed"
  | _ => "specskip"

def handler : Driver.Handler Unit := { init := (), step := step, spec := spec }

end Driver.C18

def main (args : List String) : IO UInt32 := Driver.run Driver.C18.handler args

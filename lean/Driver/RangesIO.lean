/-
  Line-protocol helpers for values of `Lumina.Model.Ranges` (shared by drivers C17, C18, C24
  and usable by the store / pruner / syncer drivers).

    range   `s-e`
    ranges  `[s-e,s-e,…]`  (printed) ;  `s-e,s-e,…` or `-` for the empty list (argument)
-/
import Lumina.Model.Util
import Lumina.Model.Ranges

namespace Driver.RangesIO
open Lumina.Util Lumina.Model.Ranges

def showRange (r : Range) : String := s!"{r.1}-{r.2}"

def showRanges (rs : Ranges) : String := "[" ++ ",".intercalate (rs.map showRange) ++ "]"

def parseRange (s : String) : Option Range :=
  match s.splitOn "-" with
  | [a, b] => match a.toNat?, b.toNat? with
    | some x, some y => some (x, y)
    | _, _ => none
  | _ => none

/-- `-` or empty = empty list; brackets optional -/
def parseRanges (s : String) : Option Ranges :=
  let cs := s.toList.filter (fun c => c != '[' && c != ']')
  let t := String.ofList cs
  if t == "-" || t == "" then some []
  else (t.splitOn ",").mapM parseRange

def rangesArg? (ws : List String) (key : String) : Option Ranges :=
  (arg? ws key).bind parseRanges

def rangeArg? (ws : List String) (ks ke : String) : Option Range :=
  match natArg? ws ks, natArg? ws ke with
  | some s, some e => some (s, e)
  | _, _ => none

def showErr : Err → String
  | .unsorted => "err unsorted"
  | .invalid r => s!"err invalid:{showRange r}"
  | .overlap r o => s!"err overlap:{showRange r}:{showRange o}"
  | .noAdjacent r => s!"err noadjacent:{showRange r}"
  | .panic => "panic"

def showOptNat : Option Nat → String
  | some n => s!"some {n}"
  | none => "none"

def showResRanges : Res Ranges → String
  | .ok rs => s!"ok {showRanges rs}"
  | .error e => showErr e

end Driver.RangesIO

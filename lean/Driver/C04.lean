import Driver.DCommon
import Lumina.Model.Sample
import Lumina.Spec.C04

open Lumina.Util Lumina.Model.Nmt Lumina.Model.Eds Lumina.Model.Sample Driver.DCommon

namespace Driver.C04

abbrev St := Option Square

def showUnit : Except SErr Unit → String
  | .ok () => "ok"
  | .error e => if e.isPanic then "panic" else s!"err {e.kind}"

def parseAxis (s : String) : Option Axis :=
  if s == "row" then some .row else if s == "col" then some .col else none

def stepNew (sq : Square) (ws : List String) : String :=
  match sq.dah, natArg? ws "r", natArg? ws "c", (arg? ws "axis").bind parseAxis with
  | some dah, some r, some c, some ax =>
    match Lumina.Model.Sample.new sha sq.eds r c ax with
    | .error e => if e.isPanic then "panic" else s!"err {e.kind}"
    | .ok s =>
      match Lumina.Model.Sample.fromRaw r c (Lumina.Model.Sample.toRaw s) with
      | .error e => if e.isPanic then "panic" else s!"err decode:{e.kind}"
      | .ok d =>
        let v := match Lumina.Model.Sample.verify sha d r c dah with
          | .ok () => "ok"
          | .error e => if e.isPanic then "panic" else s!"err:{e.kind}"
        s!"ok share={toHex d.share.data} {showProofFields d.proof} verify={v}"
  | none, _, _, _ => "no-square"
  | _, _, _, _ => "bad-op"

def stepVerify (sq : Square) (ws : List String) : String :=
  match sq.dah, natArg? ws "r", natArg? ws "c", (arg? ws "axis").bind parseAxis, natArg? ws "parity",
        hexArg? ws "share", parseProof ws with
  | some dah, some r, some c, some ax, some par, some share, some proof =>
    let shr := if par == 1 then shareParity share else shareFromRaw share
    match shr with
    | .error _ => "bad-share"
    | .ok sh => showUnit (Lumina.Model.Sample.verify sha ⟨ax, sh, proof⟩ r c dah)
  | none, _, _, _, _, _, _ => "no-square"
  | _, _, _, _, _, _, _ => "bad-op"

def parseRaw (ws : List String) : Option RawSample :=
  match natArg? ws "axis", arg? ws "share", natArg? ws "hasproof" with
  | some axis, some shareS, some hp =>
    let share? : Option (Option Bytes) := if shareS == "none" then some none else (fromHex shareS).map some
    match share? with
    | none => none
    | some share =>
      if hp == 1 then
        match natArg? ws "start", natArg? ws "end", hexListArg? ws "nodes", hexArg? ws "leaf", natArg? ws "ign" with
        | some st, some en, some nodes, some leaf, some ign =>
          some ⟨share, some (st, en, nodes, leaf, ign == 1), Int.ofNat axis⟩
        | _, _, _, _, _ => none
      else some ⟨share, none, Int.ofNat axis⟩
  | _, _, _ => none

def stepRecv (sq : Square) (ws : List String) : String :=
  match sq.dah, natArg? ws "r", natArg? ws "c", parseRaw ws with
  | some dah, some r, some c, some raw =>
    match Lumina.Model.Sample.fromRaw r c raw with
    | .error e => if e.isPanic then "panic" else s!"err decode:{e.kind}"
    | .ok s => showUnit (Lumina.Model.Sample.verify sha s r c dah)
  | none, _, _, _ => "no-square"
  | _, _, _, _ => "bad-op"

def step (st : St) (line : String) : St × String :=
  let ws := words line
  match ws with
  | "reset" :: _ => (none, "ok")
  | "eds" :: _ =>
    match parseSquare ws with
    | some sq => (some sq, match sq.dah with | some d => showDah d | none => "err")
    | none => (none, "bad-op")
  | op :: _ =>
    match st with
    | none => (st, "no-square")
    | some sq =>
      if op == "new" then (st, stepNew sq ws)
      else if op == "verify" then (st, stepVerify sq ws)
      else if op == "recv" then (st, stepRecv sq ws)
      else (st, "bad-op")
  | [] => (st, "bad-op")

/-- `specOK` on the implementation's observed result -/
def spec (st : St) (op : String) (obs : String) : String :=
  let ws := words op
  let os := words obs
  match ws, st with
  | "eds" :: _, _ => "specskip"
  | "reset" :: _, _ => "specskip"
  | opn :: _, some sq =>
    match natArg? ws "r", natArg? ws "c" with
    | some r, some c =>
      if opn == "verify" then
        match hexArg? ws "share" with
        | some share =>
          if Lumina.Spec.C04.specVerify sq.w sq.raw r c share (os == ["ok"]) then "specok"
          else "specfail C04/verify-accepted-share-not-at-coordinate the accepted share is not the share at (row, col)"
        | none => "specfail C04/unparsed"
      else if opn == "recv" then
        match arg? ws "share" with
        | some sh =>
          let share := (fromHex sh).getD []
          if Lumina.Spec.C04.specVerify sq.w sq.raw r c share (os == ["ok"]) then "specok"
          else "specfail C04/recv-accepted-share-not-at-coordinate the accepted share is not the share at (row, col)"
        | none => "specfail C04/unparsed"
      else if opn == "new" then
        if os.head? == some "err" ∨ os.head? == some "panic" then
          -- construction refused: only allowed outside the square
          if Lumina.Spec.C04.specHonest sq.w sq.raw r c none false then "specok"
          else "specfail C04/honest-sample-not-constructed"
        else
          let accepted := arg? os "verify" == some "ok"
          if Lumina.Spec.C04.specHonest sq.w sq.raw r c (hexArg? os "share") accepted then "specok"
          else "specfail C04/honest-sample-rejected an honest sample was not accepted after encode/decode"
      else "specfail C04/unparsed"
    | _, _ => "specfail C04/unparsed"
  | _, _ => "specskip"

def handler : Driver.Handler St := { init := none, step := step, spec := spec }

end Driver.C04

def main (args : List String) : IO UInt32 := Driver.run Driver.C04.handler args

/-
  Shared by the group-D drivers (C04, C05, C06): square state, line formats of proofs and roots,
  the concrete hash.
-/
import Driver.Common
import Lumina.Model.Sha256
import Lumina.Model.Eds

namespace Driver.DCommon
open Lumina.Util Lumina.Model.Nmt Lumina.Model.Eds

/-- the concrete hash of the implementation -/
def sha : HashFn := Lumina.Model.Sha256.hash

/-- current square: width, raw shares, the model EDS and the model DAH (`none`: `from_eds` failed) -/
structure Square where
  w : Nat
  raw : List Bytes
  eds : Eds
  dah : Option Dah

def parseSquare (ws : List String) : Option Square :=
  match natArg? ws "w", hexListArg? ws "data" with
  | some w, some raw =>
    let e := Eds.ofRaw w raw
    let d := match Dah.ofEds sha e with
      | .ok d => some d
      | .error _ => none
    some ⟨w, raw, e, d⟩
  | _, _ => none

def showDah (d : Dah) : String :=
  s!"ok rows={showHexList (d.rowRoots.map NsHash.toBytes)} cols={showHexList (d.colRoots.map NsHash.toBytes)}"

def showProofFields (p : NsProof) : String :=
  let leaf := match p.isAbsence, p.leaf with
    | true, some l => toHex l.toBytes
    | _, _ => "-"
  s!"start={p.start} end={p.end_} nodes={showHexList (p.siblings.map NsHash.toBytes)} ign={if p.ignoreMaxNs then 1 else 0} leaf={leaf}"

/-- a proof value given directly (all nodes 90 bytes): `absent` = 0 presence, 1 absence with leaf,
    2 absence without leaf; default: absence iff `leaf` is non-empty -/
def parseProof (ws : List String) : Option NsProof :=
  match natArg? ws "start", natArg? ws "end", hexListArg? ws "nodes", natArg? ws "ign", hexArg? ws "leaf" with
  | some st, some en, some nodes, some ign, some leaf =>
    match nodes.mapM NsHash.ofBytes? with
    | none => none
    | some sibs =>
      let absent := (natArg? ws "absent").getD (if leaf.isEmpty then 0 else 1)
      if absent = 0 then some ⟨st, en, sibs, ign == 1, false, none⟩
      else if absent = 1 then (NsHash.ofBytes? leaf).map (fun l => ⟨st, en, sibs, ign == 1, true, some l⟩)
      else some ⟨st, en, sibs, ign == 1, true, none⟩
  | _, _, _, _, _ => none

end Driver.DCommon

import Driver.Common
import Driver.ConsensusE
import Lumina.Model.HeaderVerifyBridge
import Lumina.Spec.C02
import Lumina.Gen.C02

open Lumina.Util Lumina.Model.Commit Lumina.Model.HeaderVerify Driver.ConsensusE Lumina.Gen.C02

namespace Driver.C02

def oracle (bits : List Nat) : Oracle := fun _ j => bits.getD j 0 == 1
/-- only step 0 of a range can reach the commit check -/
def oracles (bits : List Nat) : Nat → Oracle := fun step => if step == 0 then oracle bits else fun _ _ => false

def D := VERIFY_CLOCK_DRIFT
def TN := DEFAULT_TRUST_NUM
def TD := DEFAULT_TRUST_DEN

def run (line : String) : String :=
  let ws := words line
  match ws.head?, natArg? ws "now", natListArg? ws "bits" with
  | some "reset", _, _ => "ok"
  | some op, some now, some bits =>
    let ibits := (natListArg? ws "ibits").getD []
    if op == "verify" || op == "verify_adjacent" then
      match parseHdr ws "t.", parseHdr ws "u." with
      | some tr, some un =>
        if op == "verify" then showVOut (verify (oracle bits) D TN TD now tr un) bits ibits
        else showVOut (verifyAdjacent (oracle bits) D TN TD now tr un) bits ibits
      | _, _ => "bad-op"
    else if op == "verify_range" || op == "verify_adjacent_range" || op == "verified" then
      match (natArg? ws "n").bind (parseHdrs ws) with
      | some hs =>
        if op == "verified" then showVOut (verifiedTryFrom (oracles bits) D TN TD now hs) bits ibits
        else match hs with
          | [] => "bad-op"
          | tr :: l =>
            if op == "verify_range" then showVOut (verifyRange (oracles bits) D TN TD now tr l) bits ibits
            else showVOut (verifyAdjacentRange (oracles bits) D TN TD now tr l) bits ibits
      | none => "bad-op"
    else "bad-op"
  | _, _, _ => "bad-op"

def step (_ : Unit) (line : String) : Unit × String := ((), run line)

open Lumina.Spec.C02 in
def spec (_ : Unit) (opl : String) (obs : String) : String :=
  let ws := words opl
  let ows := words obs
  let accepted := ows.head? == some "ok"
  -- validity bits as reported (recomputed) by the implementation's run: `bits` through lumina's
  -- own vote_sign_bytes, `ibits` over the independently encoded canonical vote (used by the spec)
  match ws.head?, natArg? ws "now", obsNatList ows ws "ibits", obsNatList ows ws "bits" with
  | some "reset", _, _, _ => "specskip"
  | some op, some now, some bits, some lbits =>
    let now : Int := now
    if lbits != bits then
      "specfail C02/sign-bytes signature validity through lumina's vote_sign_bytes differs from validity over the canonical vote"
    else if op == "verify" || op == "verify_adjacent" then
      match parseHdr ws "t.", parseHdr ws "u." with
      | some tr, some un =>
        let valid := validOf tr un bits
        if !specVerifyAdjacentExact valid now (toH tr) (toH un) accepted && op == "verify" then
          "specfail C02/verify-adjacent-exact adjacent header: verdict differs from the link conditions"
        else if op == "verify_adjacent" && !specVerifyAdjacentOp valid now (toH tr) (toH un) accepted then
          "specfail C02/verify-adjacent verdict differs from (adjacent and linked)"
        else if !tr.valset.wf then "specskip"
        else if !specVerify valid now (toH tr) (toH un) accepted then
          "specfail C02/verify accepted a header that is not a linked successor"
        else "specok"
      | _, _ => "specfail C02/unparsed"
    else if op == "verify_range" || op == "verify_adjacent_range" || op == "verified" then
      match (natArg? ws "n").bind (parseHdrs ws) with
      | some (tr :: l) =>
        let valids : Nat → Valid := fun step =>
          match l with
          | un :: _ => if step == 0 then validOf tr un bits else fun _ _ => false
          | [] => fun _ _ => false
        if op == "verify_range" then
          if !tr.valset.wf then "specskip"
          else if !specRange valids now (toH tr) (l.map toH) accepted then
            "specfail C02/range accepted a list that is not a chain of linked consecutive successors"
          else "specok"
        else if !specAdjacentRangeExact valids now (toH tr) (l.map toH) accepted then
          "specfail C02/adjacent-range verdict differs from (linked chain of consecutive heights)"
        else "specok"
      | some [] => if accepted then "specok" else "specfail C02/empty-rejected"
      | none => "specfail C02/unparsed"
    else "specfail C02/unparsed"
  | _, _, _, _ => "specfail C02/unparsed"

def handler : Driver.Handler Unit := { init := (), step := step, spec := spec }

end Driver.C02

def main (args : List String) : IO UInt32 := Driver.run Driver.C02.handler args

import Driver.DCommon
import Lumina.Model.Row
import Lumina.Spec.C05

open Lumina.Util Lumina.Model.Nmt Lumina.Model.Eds Lumina.Model.Row Driver.DCommon
open Lumina.Model.Sample (shareFromRaw shareParity)

namespace Driver.C05

/-- width, row roots of the DAH under test, committed rows (index ↦ raw shares) -/
structure St where
  w : Nat
  roots : List NsHash
  committed : List (Nat × List Bytes)

def St.empty : St := ⟨0, [], []⟩

def St.dah (s : St) : Dah := ⟨s.roots, s.roots⟩

/-- the row committed at index `i`: a row root that was never set is the empty-tree root, which commits to the
    empty row -/
def St.row? (s : St) (i : Nat) : Option (List Bytes) :=
  match s.committed.find? (fun p => p.1 == i) with
  | some p => some p.2
  | none => if i < s.w then some [] else none

def showR : Except RErr Unit → String
  | .ok () => "ok"
  | .error e => if e == RErr.panic then "panic" else s!"err {e.kind}"

def showFlags (l : List Share) : String := String.ofList (l.map (fun s => if s.isParity then '1' else '0'))

/-- shares of a committed row with the quadrant's parity flags -/
def quadrantShares (w i : Nat) (raw : List Bytes) : List Share :=
  (List.range raw.length).zipWith (fun c d => { data := d, isParity := !isOdsSquare i c w }) raw

def parseCodec (ws : List String) : Option (List Bytes → CodecRes) :=
  match arg? ws "oracle" with
  | some "err" => some (fun _ => .err)
  | some "panic" => some (fun _ => .panic)
  | some _ => (hexListArg? ws "oracle").map (fun l => fun _ => .ok l)
  | none => none

def parseRaw (ws : List String) : Option RawRow :=
  match natArg? ws "side", hexListArg? ws "half" with
  | some s, some h => some ⟨h, Int.ofNat s⟩
  | _, _ => none

/-- shares built through `Share::from_raw` / `Share::parity` as the harness does; `none` when one cannot be built -/
def withFlags (shares : List Bytes) (flags : String) : Option (List Share) :=
  (shares.zipWith (fun d c => if c == '1' then shareParity d else shareFromRaw d) flags.toList).mapM
    (fun r => match r with | .ok s => some s | .error _ => none)

def step (st : St) (line : String) : St × String :=
  let ws := words line
  match ws with
  | "reset" :: _ => (St.empty, "ok")
  | "commit" :: _ =>
    match natArg? ws "w", natArg? ws "i", hexListArg? ws "shares" with
    | some w, some i, some raw =>
      let st := if st.w == w then st else ⟨w, List.replicate w (emptyRoot sha), []⟩
      let shares := quadrantShares w i raw
      match pushLeaves sha (shares.map Share.leaf) with
      | none => (st, "err Nmt")
      | some hs =>
        match computeRoot sha true hs with
        | .error _ => (st, "panic")
        | .ok root =>
          ({ st with roots := st.roots.set i root, committed := (i, raw) :: st.committed.filter (fun p => p.1 != i) },
           s!"ok root={toHex root.toBytes}")
    | _, _, _ => (st, "bad-op")
  | "verify" :: _ =>
    match natArg? ws "i", hexListArg? ws "shares", arg? ws "flags" with
    | some i, some shares, some flags =>
      match withFlags shares flags with
      | some shs => (st, showR (verify sha ⟨shs⟩ i st.dah))
      | none => (st, "bad-share")
    | _, _, _ => (st, "bad-op")
  | "decode" :: _ =>
    match natArg? ws "i", parseRaw ws, parseCodec ws with
    | some i, some raw, some codec =>
      match fromRaw codec i raw with
      | .error e => (st, if e == RErr.panic then "panic" else s!"err decode:{e.kind}")
      | .ok r => (st, s!"ok shares={showHexList (r.shares.map Share.data)} flags={showFlags r.shares}")
    | _, _, _ => (st, "bad-op")
  | "recv" :: _ =>
    match natArg? ws "i", parseRaw ws, parseCodec ws with
    | some i, some raw, some codec =>
      match fromRaw codec i raw with
      | .error e => (st, if e == RErr.panic then "panic" else s!"err decode:{e.kind}")
      | .ok r =>
        match verify sha r i st.dah with
        | .ok () => (st, s!"ok shares={showHexList (r.shares.map Share.data)}")
        | .error e => (st, if e == RErr.panic then "panic" else s!"err {e.kind}")
    | _, _, _ => (st, "bad-op")
  | "roundtrip" :: _ =>
    match natArg? ws "i", arg? ws "side", parseCodec ws with
    | some i, some side, some codec =>
      match st.row? i with
      | none => (st, "no-row")
      | some rawRow =>
        let row : Row := ⟨quadrantShares st.w i rawRow⟩
        let raw := if side == "right" then toRawRight row else toRaw row
        match fromRaw codec i raw with
        | .error e => (st, if e == RErr.panic then "panic" else s!"err decode:{e.kind}")
        | .ok r =>
          let v := match verify sha r i st.dah with
            | .ok () => "ok"
            | .error e => if e == RErr.panic then "panic" else s!"err:{e.kind}"
          (st, s!"ok shares={showHexList (r.shares.map Share.data)} flags={showFlags r.shares} verify={v}")
    | _, _, _ => (st, "bad-op")
  | _ => (st, "bad-op")

def spec (st : St) (op : String) (obs : String) : String :=
  let ws := words op
  let os := words obs
  match ws with
  | "verify" :: _ =>
    match natArg? ws "i", hexListArg? ws "shares" with
    | some i, some shares =>
      if Lumina.Spec.C05.specVerify (st.row? i) shares (os == ["ok"]) then "specok"
      else "specfail C05/verify-accepted-row-not-committed the accepted shares are not row i of the committed square"
    | _, _ => "specfail C05/unparsed"
  | "recv" :: _ =>
    match natArg? ws "i" with
    | some i =>
      if os.head? == some "ok" then
        match hexListArg? os "shares" with
        | some shares =>
          if Lumina.Spec.C05.specVerify (st.row? i) shares true then "specok"
          else "specfail C05/recv-accepted-row-not-committed the decoded and accepted shares are not row i"
        | none => "specfail C05/unparsed"
      else "specok"
    | none => "specfail C05/unparsed"
  | "roundtrip" :: _ =>
    match natArg? ws "i" with
    | some i =>
      match st.row? i with
      | none => "specskip"
      | some row =>
        let decoded := if os.head? == some "ok" then hexListArg? os "shares" else none
        if Lumina.Spec.C05.specRoundTrip row decoded && arg? os "verify" == some "ok" then "specok"
        else "specfail C05/roundtrip-differs encoding and decoding a committed row did not give the row back (or it no longer verifies)"
    | none => "specfail C05/unparsed"
  | _ => "specskip"

def handler : Driver.Handler St := { init := St.empty, step := step, spec := spec }

end Driver.C05

def main (args : List String) : IO UInt32 := Driver.run Driver.C05.handler args

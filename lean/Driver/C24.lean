import Driver.Common
import Driver.RangesIO
import Lumina.Model.FetchRange
import Lumina.Model.SyncerGate
import Lumina.Spec.C24

open Lumina.Util Lumina.Model.Ranges Lumina.Model.FetchRange Driver.RangesIO

namespace Driver.C24

def showRes : Res Range → String
  | .ok r => showRange r
  | .error e => showErr e

/-- `fetch head=<h> synced=<ranges> limit=<n>` : `calculate_range_to_fetch`
    `batch head=<h> stored=<ranges> pruned=<ranges> limit=<n>` : `pruned + stored`, then the same -/
def step (_ : Unit) (line : String) : Unit × String :=
  let ws := words line
  match ws with
  | "reset" :: _ => ((), "ok")
  | "fetch" :: _ =>
    match natArg? ws "head", rangesArg? ws "synced", natArg? ws "limit" with
    | some h, some v, some l =>
      match fromVec v with
      | .ok rs => ((), showRes (calculateRangeToFetch h rs l))
      | .error e => ((), "load-" ++ showErr e)
    | _, _, _ => ((), "bad-op")
  | "batch" :: _ =>
    match natArg? ws "head", rangesArg? ws "stored", rangesArg? ws "pruned", natArg? ws "limit" with
    | some h, some st, some pr, some l =>
      match fromVec st, fromVec pr with
      | .ok st, .ok pr => ((), showRes (nextBatch h st pr l))
      | _, _ => ((), "load-err")
    | _, _, _, _ => ((), "bad-op")
  | "worker" :: _ =>
    -- the real `Worker::fetch_next_batch` (all gates) + the real store's `insert` of the batch
    match natArg? ws "head", rangesArg? ws "stored", rangesArg? ws "pruned", natArg? ws "limit" with
    | some h, some st, some pr, some l =>
      match fromVec st, fromVec pr with
      | .ok st, .ok pr =>
        let i : Lumina.Model.SyncerGate.GateIn :=
          { ongoing := false, connectedPeers := 1, head := some h, stored := st, pruned := pr,
            sampled := [], batchSize := l, slowSync := none, inWindow := fun _ => true }
        match Lumina.Model.SyncerGate.fetchDecision 50 i with
        | .ok (.request r) =>
          let ins := match checkInsertionConstraints st r with
            | .ok _ => "ok"
            | .error _ => "err"
          ((), s!"req {showRange r} insert={ins}")
        | .ok (.idle _) => ((), "none")
        | .error e => ((), showErr e)
      | _, _ => ((), "load-err")
    | _, _, _, _ => ((), "bad-op")
  | _ => ((), "bad-op")

/-- set union of two canonical values, independent of the model: merge of sorted range lists -/
def unionFuel : Nat → List Range → List Range → List Range
  | 0, a, b => a ++ b
  | _ + 1, [], b => b
  | _ + 1, a, [] => a
  | f + 1, x :: a, y :: b =>
    if x.2 + 1 < y.1 then x :: unionFuel f a (y :: b)
    else if y.2 + 1 < x.1 then y :: unionFuel f (x :: a) b
    else
      -- touching: merge into the one that ends later and continue
      let m : Range := (min x.1 y.1, max x.2 y.2)
      if x.2 ≤ y.2 then unionFuel f a (m :: b) else unionFuel f (m :: a) b

def union (a b : List Range) : List Range := unionFuel (2 * (a.length + b.length) + 2) a b

/-- the one known class: every clause holds except (c), the highest synced height lies above
    the head, and the batch is non-empty and ends above the head -/
def knownClass (head : Nat) (synced : List Range) (b : Range) (fs : List String) : Bool :=
  fs == ["head"] && decide (b.1 ≤ b.2) && decide (head < b.2) &&
  (match Lumina.Spec.C24.top synced with
   | some t => decide (head < t) && decide (b.2 < t)
   | none => false)

def knownMsg : String :=
  "specfail C24/batch-above-head-store-ahead clause (c) fails: the synced ranges reach above the network head"

def verdict (head : Nat) (synced : List Range) (limit : Nat) (os : List String) : String :=
  match os with
  | [o] =>
    match parseRange o with
    | some b =>
      if !Lumina.Spec.C17.canonical synced then "specskip"
      else
        let fs := Lumina.Spec.C24.failing head synced limit b
        if fs.isEmpty then "specok"
        else if knownClass head synced b fs then knownMsg
        else s!"specfail C24/{"+".intercalate fs} failing clauses: {fs}"
    | none => "specfail C24/unparsed"
  | _ => "specfail C24/unparsed"

def verdictWorker (head : Nat) (stored pruned : List Range) (limit : Nat) (os : List String) : String :=
  if !Lumina.Spec.C17.canonical stored || !Lumina.Spec.C17.canonical pruned then "specskip"
  else
    let synced := union pruned stored
    let obs? : Option Lumina.Spec.C24.WorkerObs := match os with
      | ["none"] => some .none
      | ["req", r, ins] =>
        match parseRange r with
        | some b => if ins == "insert=ok" then some (.req b true)
                    else if ins == "insert=err" then some (.req b false) else none
        | none => none
      | _ => none
    match obs? with
    | none => "specfail C24/worker-unparsed"
    | some o =>
      let fs := Lumina.Spec.C24.failingWorker head stored synced limit o
      if fs.isEmpty then "specok"
      else match o with
        | .req b _ => if knownClass head synced b fs then knownMsg
                      else s!"specfail C24/worker:{"+".intercalate fs} failing clauses: {fs}"
        | .none => s!"specfail C24/worker:{"+".intercalate fs} failing clauses: {fs}"

def spec (_ : Unit) (op : String) (obs : String) : String :=
  let ws := words op
  match ws with
  | "fetch" :: _ =>
    match natArg? ws "head", rangesArg? ws "synced", natArg? ws "limit" with
    | some h, some v, some l => verdict h v l (words obs)
    | _, _, _ => "specfail C24/unparsed"
  | "batch" :: _ =>
    match natArg? ws "head", rangesArg? ws "stored", rangesArg? ws "pruned", natArg? ws "limit" with
    | some h, some st, some pr, some l =>
      if !Lumina.Spec.C17.canonical st || !Lumina.Spec.C17.canonical pr then "specskip"
      else verdict h (union pr st) l (words obs)
    | _, _, _, _ => "specfail C24/unparsed"
  | "worker" :: _ =>
    match natArg? ws "head", rangesArg? ws "stored", rangesArg? ws "pruned", natArg? ws "limit" with
    | some h, some st, some pr, some l => verdictWorker h st pr l (words obs)
    | _, _, _, _ => "specfail C24/unparsed"
  | _ => "specskip"

def handler : Driver.Handler Unit := { init := (), step := step, spec := spec }

end Driver.C24

def main (args : List String) : IO UInt32 := Driver.run Driver.C24.handler args

import Driver.Common
import Lumina.Model.Bech32
import Lumina.Spec.C47
import Lumina.Gen.C47

open Lumina.Util Lumina.Model.Bech32

namespace Driver.C47

def kindName : Kind → String
  | .account => "acc" | .validator => "val" | .consensus => "cons"

def kindOfName (s : String) : Option Kind :=
  if s == "acc" then some .account else if s == "val" then some .validator
  else if s == "cons" then some .consensus else none

/-- `as=any|acc|val|cons` -/
def asOfName (s : String) : Option (Option Kind) :=
  if s == "any" then some none else (kindOfName s).map some

def showRes : Except Err (Kind × Bytes) → String
  | .ok (k, id) => s!"ok kind={kindName k} id={toHexOrDash id}"
  | .error .invalidAddress => "err InvalidAddress"
  | .error (.invalidAddressPrefix p) => s!"err InvalidAddressPrefix p={showNatList p}"
  | .error (.invalidAddressSize n) => s!"err InvalidAddressSize n={n}"

/-- the generated constants must spell the prefixes the model uses (checked on every op, so a
    change of a prefix in /repo makes every line disagree) -/
def constsOK : Bool :=
  let cp (s : String) : List Nat := s.toList.map Char.toNat
  cp Lumina.Gen.C47.PREFIX_ACCOUNT == PREFIX_ACC &&
  cp Lumina.Gen.C47.PREFIX_ACCOUNT ++ cp Lumina.Gen.C47.PREFIX_VALIDATOR ++ cp Lumina.Gen.C47.PREFIX_OPERATOR == PREFIX_VAL &&
  cp Lumina.Gen.C47.PREFIX_ACCOUNT ++ cp Lumina.Gen.C47.PREFIX_VALIDATOR ++ cp Lumina.Gen.C47.PREFIX_CONSENSUS == PREFIX_CONS &&
  Lumina.Gen.C47.SIGNER_SIZE == ADDRESS_SIZE

def step (_ : Unit) (line : String) : Unit × String :=
  let ws := words line
  let out : String :=
    if !constsOK then "bad-consts" else
    match ws with
    | "reset" :: _ => "ok"
    | "display" :: _ =>
      match (arg? ws "kind").bind kindOfName, hexArg? ws "id" with
      | some k, some id => s!"ok s={showNatList (addressToString k id)}"
      | _, _ => "bad-op"
    | "roundtrip" :: _ =>
      match (arg? ws "kind").bind kindOfName, hexArg? ws "id", (arg? ws "as").bind asOfName with
      | some k, some id, some as => showRes (parse as (addressToString k id))
      | _, _, _ => "bad-op"
    | "parse" :: _ =>
      match (arg? ws "as").bind asOfName, natListArg? ws "s" with
      | some as, some s => showRes (parse as s)
      | _, _ => "bad-op"
    | "corrupt" :: _ =>
      match natListArg? ws "s", natArg? ws "pos", natArg? ws "c" with
      | some s, some pos, some c =>
        s!"{showRes (parse none s)} | {showRes (parse none (s.set pos c))}"
      | _, _, _ => "bad-op"
    | _ => "bad-op"
  ((), out)

open Lumina.Spec.C47 in
def specKind : Kind → K
  | .account => .account | .validator => .validator | .consensus => .consensus

open Lumina.Spec.C47 in
def parseObs (ws : List String) : Option Obs :=
  match ws with
  | "ok" :: _ =>
    match (arg? ws "kind").bind kindOfName, hexArg? ws "id" with
    | some k, some id => some (.ok (specKind k) id)
    | _, _ => none
  | "err" :: _ => some .err
  | _ => none

def verdict (name : String) (b : Bool) : String :=
  if b then "specok" else s!"specfail {name}"

open Lumina.Spec.C47 in
def spec (_ : Unit) (op : String) (obs : String) : String :=
  let ws := words op
  let os := words obs
  match ws with
  | "reset" :: _ => "specskip"
  | "display" :: _ =>
    match (arg? ws "kind").bind kindOfName, os with
    | some k, ["ok", _] =>
      match natListArg? os "s" with
      | some s => verdict "C47/display" (specDisplay (specKind k) s)
      | none => "specfail C47/unparsed"
    | _, _ => "specfail C47/unparsed"
  | "roundtrip" :: _ =>
    match (arg? ws "kind").bind kindOfName, hexArg? ws "id", (arg? ws "as").bind asOfName, parseObs os with
    | some k, some id, some as, some o =>
      verdict (if as == none || as == some k then "C47/roundtrip" else "C47/wrong-kind-accepted")
        (specRoundTrip (specKind k) id (as.map specKind) o)
    | _, _, _, _ => "specfail C47/unparsed"
  | "parse" :: _ =>
    match (arg? ws "as").bind asOfName, natListArg? ws "s", parseObs os with
    | some as, some s, some o => verdict "C47/parse-accepts-malformed" (specParse (as.map specKind) s o)
    | _, _, _ => "specfail C47/unparsed"
  | "corrupt" :: _ =>
    match natListArg? ws "s", natArg? ws "pos", natArg? ws "c", obs.splitOn " | " with
    | some s, some pos, some c, [a, b] =>
      match parseObs (words a), parseObs (words b) with
      | some oa, some ob =>
        if !specParse none s oa then "specfail C47/parse-accepts-malformed"
        else if !specParse none (s.set pos c) ob then "specfail C47/parse-accepts-malformed"
        else verdict "C47/single-char-corruption-accepted" (specCorrupt s pos c oa ob)
      | _, _ => "specfail C47/unparsed"
    | _, _, _, _ => "specfail C47/unparsed"
  | _ => "specfail C47/unparsed"

def handler : Driver.Handler Unit := { init := (), step := step, spec := spec }

end Driver.C47

def main (args : List String) : IO UInt32 := Driver.run Driver.C47.handler args

import Driver.Common
import Lumina.Model.Util
import Lumina.Model.FailoverTrace
import Lumina.Model.FailoverObs
import Lumina.Spec.C44

open Lumina.Util Lumina.Model.Failover

namespace Driver.C44
open Lumina.Spec.C44 (Hist Ans Res CallObs)

structure St where
  m : State
  h : Hist

def St.init : St := { m := Lumina.Model.Failover.init [], h := Hist.new [] }

/-- answer kinds on the wire: `o` ok, `b` bad payload, `t` transport failure, `s<code>` status -/
def parseOutcome (s : String) : Option Outcome :=
  if s == "o" then some .ok
  else if s == "b" then some .badPayload
  else if s == "t" then some .transport
  else match s.toList with
    | 's' :: r => (String.ofList r).toNat?.map .status
    | _ => none

def showOutcome : Outcome → String
  | .ok => "o"
  | .badPayload => "b"
  | .transport => "t"
  | .status c => s!"s{c}"

def showTried (l : List (Ep × Outcome)) : String :=
  if l.isEmpty then "-" else ",".intercalate (l.map (fun p => s!"{p.1}:{showOutcome p.2}"))

def showResult : Result → String
  | .ok e => s!"ok e={e}"
  | .parseErr e => s!"parse e={e}"
  | .err code src => s!"err code={code} from={src}"
  | .panicked => "panic"

def showOrder (l : List Nat) : String :=
  if l.isEmpty then "-" else ",".intercalate (l.map toString)

/-- a probe: a call that fails with a transport error at every endpoint; it tries the register in order
    and stores nothing -/
def probeOrder (s : State) : List Ep := s.register

def step (st : St) (line : String) : St × String :=
  let ws := words line
  match ws with
  | "reset" :: _ => (St.init, "ok")
  | "new" :: _ =>
    match natArg? ws "n" with
    | some n =>
      let cfg := List.range n
      ({ m := Lumina.Model.Failover.init cfg, h := Hist.new cfg }, "ok")
    | none => (st, "bad-op")
  | "start" :: _ =>
    match natArg? ws "c" with
    | some c =>
      match Lumina.Model.Failover.step st.m (.load c) with
      | some (m', .request e) => ({ m := m', h := st.h.start c }, s!"req e={e}")
      | some (m', .finished r) => ({ st with m := m' }, s!"done {showResult r} tried=-")
      | _ => (st, "busy")
    | none => (st, "bad-op")
  | "respond" :: _ =>
    match natArg? ws "c", (arg? ws "kind").bind parseOutcome with
    | some c, some o =>
      match lookup st.m.callers c with
      | none => (st, "nocall")
      | some k =>
        match Lumina.Model.Failover.step st.m (.respond c o) with
        | some (m', .request e) => ({ st with m := m' }, s!"next e={e}")
        | some (m', .finished r) =>
          let tried := finalTried k o
          let res : Option Res := toRes r
          let h' := match res with
            | some r' => st.h.finish c r' tried.length
            | none => st.h
          ({ m := m', h := h' }, s!"done {showResult r} tried={showTried tried}")
        | _ => (st, "nocall")
    | _, _ => (st, "bad-op")
  | "drop" :: _ =>
    match natArg? ws "c" with
    | some c =>
      match Lumina.Model.Failover.step st.m (.drop c) with
      | some (m', _) => ({ m := m', h := st.h.drop c }, "ok")
      | none => (st, "nocall")
    | none => (st, "bad-op")
  | "probe" :: _ => (st, s!"order {showOrder (probeOrder st.m)}")
  | "storm" :: _ =>
    (st, "storm-needs-trace")
  | _ => (st, "bad-op")

/-! ### concurrent traces -/

def parseResult (s : String) : Option Result :=
  -- `ok<e>` | `pa<e>` | `er<code>f<e>` | `panic`
  if s == "panic" then some .panicked
  else match s.toList with
    | 'o' :: 'k' :: r => (String.ofList r).toNat?.map .ok
    | 'p' :: 'a' :: r => (String.ofList r).toNat?.map .parseErr
    | 'e' :: 'r' :: r =>
      match (String.ofList r).splitOn "f" with
      | [a, b] => match a.toNat?, b.toNat? with
        | some code, some e => some (.err code e)
        | _, _ => none
      | _ => none
    | _ => none

/-- tokens: `S<c>` `Q<c>.<e>` `A<c>.<e>.<kind>` `R<c>.<res>` `P<e0>.<e1>…` -/
def parseVis (tok : String) : Option Vis :=
  match tok.toList with
  | 'S' :: r => (String.ofList r).toNat?.map .start
  | 'Q' :: r =>
    match (String.ofList r).splitOn "." with
    | [c, e] => match c.toNat?, e.toNat? with
      | some c, some e => some (.req c e)
      | _, _ => none
    | _ => none
  | 'A' :: r =>
    match (String.ofList r).splitOn "." with
    | [c, e, k] => match c.toNat?, e.toNat?, parseOutcome k with
      | some c, some e, some o => some (.ans c e o)
      | _, _, _ => none
    | _ => none
  | 'R' :: r =>
    match (String.ofList r).splitOn "." with
    | [c, res] => match c.toNat?, parseResult res with
      | some c, some x => some (.ret c x)
      | _, _ => none
    | _ => none
  | 'P' :: r => ((String.ofList r).splitOn ".").mapM String.toNat? |>.map .probe
  | _ => none

def parseTrace (s : String) : Option (List Vis) :=
  if s == "-" then some [] else (s.splitOn ",").mapM parseVis

def stormModel (n : Nat) (tr : List Vis) : String :=
  if (traceStates (List.range n) tr).isEmpty then "not-a-run" else "done"

def stepAll (st : St) (line : String) : St × String :=
  let ws := words line
  match ws with
  | "storm" :: _ =>
    match natArg? ws "n", (arg? ws "obs").bind parseTrace with
    | some n, some tr => (st, stormModel n tr)
    | _, _ => (st, "bad-op")
  | _ => step st line

/-! ### spec on the implementation's results -/

def parseTried (s : String) : Option (List (Nat × Ans)) :=
  if s == "-" then some []
  else (s.splitOn ",").mapM (fun item =>
    match item.splitOn ":" with
    | [e, k] => match e.toNat?, parseOutcome k with
      | some e, some o => some (e, toAns o)
      | _, _ => none
    | _ => none)

/-- `done ok e=1 tried=…` | `done parse e=1 tried=…` | `done err code=14 from=2 tried=…` -/
def parseDone (os : List String) : Option CallObs :=
  match os with
  | "done" :: kind :: _ =>
    match (arg? os "tried").bind parseTried with
    | none => none
    | some tried =>
      if kind == "ok" then (natArg? os "e").map (fun e => { tried := tried, result := .ok e })
      else if kind == "parse" then (natArg? os "e").map (fun e => { tried := tried, result := .parseErr e })
      else if kind == "err" then
        match natArg? os "code", natArg? os "from" with
        | some code, some src => some { tried := tried, result := .err code src }
        | _, _ => none
      else none
  | _ => none

def verdict (name : String) (b : Bool) (why : String := "") : String :=
  if b then "specok" else s!"specfail {name} {why}"

/-- per-call observations extracted from a concurrent trace -/
def callsOf (tr : List Vis) : List CallObs :=
  tr.filterMap (fun v =>
    match v with
    | .ret c r =>
      let tried := tr.filterMap (fun w => match w with
        | .ans c' e o => if c' == c then some (e, toAns o) else none
        | _ => none)
      match r with
      | .ok e => some { tried := tried, result := .ok e }
      | .parseErr e => some { tried := tried, result := .parseErr e }
      | .err code src => some { tried := tried, result := .err code src }
      | .panicked => some { tried := tried, result := .err 0 0 }
    | _ => none)

def spec (st : St) (op : String) (obs : String) : String :=
  let ws := words op
  let os := words obs
  match ws with
  | "start" :: _ =>
    match os with
    | "req" :: _ =>
      match natArg? os "e" with
      | some e =>
        if !Lumina.Spec.C44.specFirstAny st.h.config st.h.lastFailover e then
          "specfail C44/not-first-after-failover the first endpoint tried is not the endpoint of the most recent fail-over success (any interleaving)"
        else verdict "C44/not-first" (Lumina.Spec.C44.specFirst st.h.expectFirst e)
          "the endpoint that succeeded last (in a call that overlapped no other) was not tried first"
      | none => "specfail C44/unparsed"
    | "busy" :: _ => "specskip"
    | _ => "specfail C44/unparsed"
  | "respond" :: _ =>
    match os with
    | "next" :: _ =>
      -- moving on to another endpoint is allowed only after a network error
      match (arg? ws "kind").bind parseOutcome with
      | some o => verdict "C44/failover-on-non-network" (Lumina.Spec.C44.network (toAns o))
          "the call moved on to another endpoint after an answer that is not a network error"
      | none => "specfail C44/unparsed"
    | "done" :: _ =>
      match parseDone os with
      | some co =>
        if Lumina.Spec.C44.specCall st.h.config co then "specok"
        else match co.result with
          | .err _ _ => "specfail C44/early-error an error was returned although neither every endpoint failed with a network error nor this endpoint returned a non-network error"
          | _ => "specfail C44/call the observed call does not fit its result"
      | none => "specfail C44/unparsed"
    | "nocall" :: _ => "specskip"
    | _ => "specfail C44/unparsed"
  | "probe" :: _ =>
    match os with
    | ["order", l] =>
      match (if l == "-" then some [] else (l.splitOn ",").mapM String.toNat?) with
      | some order =>
        if !Lumina.Spec.C44.specOrder st.h.config order then
          "specfail C44/endpoint-set-changed the register is not a rearrangement of the configured endpoints"
        else if !(match order with
            | e :: _ => Lumina.Spec.C44.specFirstAny st.h.config st.h.lastFailover e
            | [] => true) then
          "specfail C44/not-first-after-failover the head of the register is not the endpoint of the most recent fail-over success"
        else verdict "C44/not-first" (match order with
            | e :: _ => Lumina.Spec.C44.specFirst st.h.expectFirst e
            | [] => true)
          "the endpoint that succeeded last is not first in the register"
      | none => "specfail C44/unparsed"
    | _ => "specfail C44/unparsed"
  | "storm" :: _ =>
    match natArg? ws "n", (arg? ws "obs").bind parseTrace with
    | some n, some tr =>
      let cfg := List.range n
      let calls := callsOf tr
      let orders := tr.filterMap (fun v => match v with | .probe o => some o | _ => none)
      if os != ["done"] then "specfail C44/unparsed"
      else if !calls.all (Lumina.Spec.C44.specCall cfg) then
        "specfail C44/early-error a concurrent call's observation does not fit its result"
      else if !orders.all (Lumina.Spec.C44.specOrder cfg) then
        "specfail C44/endpoint-set-changed the register is not a rearrangement of the configured endpoints"
      else "specok"
    | _, _ => "specfail C44/unparsed"
  | _ => "specskip"

def handler : Driver.Handler St := { init := St.init, step := stepAll, spec := spec }

end Driver.C44

def main (args : List String) : IO UInt32 := Driver.run Driver.C44.handler args

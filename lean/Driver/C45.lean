import Driver.Common
import Lumina.Model.AbciProofs
import Lumina.Spec.C45

open Lumina.Util Lumina.Model.AbciProofs

namespace Driver.C45

def parseOptHex (s : String) : Option (Option Bytes) :=
  if s == "~" then some none else (fromHex s).map some

def parseEntry (fs : List String) : Option ExistenceProof :=
  match fs with
  | [k, v, ci, cs] =>
    match fromHex k, fromHex v, parseOptHex ci, parseOptHex cs with
    | some k, some v, some ci, some cs => some { key := k, value := v, calcIavl := ci, calcSimple := cs }
    | _, _, _, _ => none
  | _ => none

/-- outer `none`: unparsable; inner `none`: `D` (CommitmentProof::decode failed) -/
def parseProof (s : String) : Option (Option CProof) :=
  if s == "D" then some none
  else if s == "X" then some (some .other)
  else
    match s.splitOn "|" with
    | [] => none
    | hd :: tl =>
      if hd == "B" then
        (tl.mapM (fun t =>
          if t == "o" then some BatchEntry.other
          else match t.splitOn ":" with
            | "e" :: fs => (parseEntry fs).map BatchEntry.exist
            | _ => none)).map (fun es => some (.batch es))
      else if tl.isEmpty then
        match hd.splitOn ":" with
        | "E" :: fs => (parseEntry fs).map (fun e => some (.exist e))
        | _ => none
      else none

def parseOp (s : String) : Option RawOp :=
  match s.splitOn ";" with
  | [ty, k, p] =>
    let ty? : Option OpType := if ty == "iavl" then some .iavl else if ty == "simple" then some .simple
      else if ty == "unsup" then some .unsupported else none
    match ty?, fromHex k, parseProof p with
    | some ty, some k, some d => some { type := ty, key := k, data := d }
    | _, _, _ => none
  | _ => none

def parseOps (s : String) : Option (Option (List RawOp)) :=
  if s == "none" then some none
  else if s == "-" then some (some [])
  else ((s.splitOn "/").mapM parseOp).map some

/-- `vq=i:root:key:value:b,...` — verdicts of the real ics23 recorded by the harness -/
def parseVq (s : String) : Option Lumina.Spec.C45.VmTable :=
  if s == "-" then some []
  else (s.splitOn ",").mapM (fun e =>
    match e.splitOn ":" with
    | [i, r, k, l, b] =>
      match i.toNat?, fromHex r, fromHex k, fromHex l with
      | some i, some r, some k, some l => some (i, r, k, l, b == "1")
      | _, _, _, _ => none
    | _ => none)

def showProofErr : ProofError → String
  | .rootMismatch => "RootMismatch"
  | .abciProofMissing => "AbciProofMissing"
  | .unsupportedSpec => "UnsupportedSpec"
  | .decode => "Decode"
  | .existanceProofMissing => "ExistanceProofMissing"
  | .unevenProofsAndKeysLengths a b => s!"UnevenProofsAndKeysLengths({a},{b})"
  | .operationKeyMismatch => "OperationKeyMismatch"

structure BalanceOp where
  addr : Bytes
  hh : Nat
  appHash : Bytes
  resp : Option AbciResponse

def parseBalance (ws : List String) : Option BalanceOp :=
  match hexArg? ws "addr", natArg? ws "hh", hexArg? ws "apphash", arg? ws "call", natArg? ws "code",
        hexArg? ws "value", (arg? ws "ops").bind parseOps with
  | some addr, some hh, some ah, some call, some code, some value, some ops =>
    some { addr := addr, hh := hh, appHash := ah,
           resp := if call == "ok" then some { code := code, value := value, proofOps := ops } else none }
  | _, _, _, _, _, _, _ => none

def step (_ : Unit) (line : String) : Unit × String :=
  let ws := words line
  let out : String :=
    match ws with
    | "reset" :: _ => "ok"
    | "balance" :: _ =>
      match parseBalance ws with
      | none => "bad-op"
      | some b =>
        let req := s!"req={toHexOrDash (bankKey b.addr)}:{queryHeight b.hh}:true:store/bank/key"
        match getVerifiedBalance Ics23.verifyMembership b.addr b.appHash b.resp with
        | .panic => "panic"
        | .err e => s!"err Proof {showProofErr e} {req}"
        | .ok (.ok n) => s!"ok amount={n} denom=utia {req}"
        | .ok (.error .grpc) => s!"err grpc {req}"
        | .ok (.error (.abciQuery c)) => s!"err AbciQuery code={c} {req}"
        | .ok (.error (.proof e)) => s!"err Proof {showProofErr e} {req}"
        | .ok (.error .failedToParseResponse) => s!"err FailedToParseResponse {req}"
    | "verify" :: _ =>
      match hexArg? ws "root", hexListArg? ws "keys", hexArg? ws "leaf", (arg? ws "ops").bind parseOps with
      | some root, some keys, some leaf, some (some ops) =>
        match ProofChain.tryFrom ops with
        | .error e => s!"err {showProofErr e}"
        | .ok chain =>
          match verifyMembership Ics23.verifyMembership chain root keys leaf with
          | .ok () => "ok"
          | .err e => s!"err {showProofErr e}"
          | .panic => "panic"
      | _, _, _, _ => "bad-op"
    | _ => "bad-op"
  ((), out)

open Lumina.Spec.C45 in
def spec (_ : Unit) (op : String) (obs : String) : String :=
  let ws := words op
  let os := words obs
  match ws with
  | "reset" :: _ => "specskip"
  | "balance" :: _ =>
    match parseBalance ws with
    | none => "specfail C45/unparsed"
    | some b =>
      match os with
      | "ok" :: _ =>
        match natArg? os "amount" with
        | none => "specfail C45/unparsed"
        | some n =>
          -- `vm` = the verdicts of the REAL ics23 (`vq=`), not the model's transcription of it
          let chain := match b.resp with
            | some r => (opsOf (r.proofOps.getD [])).getD []
            | none => []
          match (arg? ws "vq").bind parseVq with
          | none => "specfail C45/unparsed"
          | some tbl =>
          if specBalance (vmOfTable chain tbl) b.addr b.appHash b.resp (.ok n) then "specok"
          else
            -- the precise class of the known defect: successful ABCI answer with an EMPTY value is
            -- reported as a verified zero balance although no proof chain backs it
            match b.resp with
            | some r =>
              if r.code == 0 && r.value.isEmpty && n == 0 then
                "specfail C45/empty-value-verified-without-proof get_verified_balance_impl returned Ok(0) for an empty response.value without verifying any proof"
              else "specfail C45/verified-without-chain a balance was reported as verified but no proof chain links (bank key, value) to the app hash"
            | none => "specfail C45/verified-without-chain verified balance although the query failed"
      | "err" :: _ => "specok"
      | _ => "specfail C45/unparsed"
  | "verify" :: _ =>
    match hexArg? ws "root", hexListArg? ws "keys", hexArg? ws "leaf", (arg? ws "ops").bind parseOps with
    | some root, some keys, some leaf, some (some ops) =>
      match os with
      | ["ok"] =>
        match opsOf ops, (arg? ws "vq").bind parseVq with
        | some chain, some tbl =>
          if specVerify (vmOfTable chain tbl) chain root keys leaf true && !chain.isEmpty then "specok"
          else "specfail C45/verify-membership-accepts-unlinked"
        | _, _ => "specfail C45/verify-membership-accepts-unlinked"
      | "err" :: _ => "specok"
      | ["panic"] =>
        -- a panic is not a pass.  The one known class: no keys at all on a non-empty chain
        -- (`current_idx - 1` underflows); anything else is a new failure
        if keys.isEmpty && !ops.isEmpty then
          "specfail C45/verify-membership-no-keys-underflow ProofChain::verify_membership(root, [], leaf) on a non-empty chain: `current_idx - 1` underflows (debug-build panic)"
        else "specfail C45/verify-membership-panic verify_membership panicked"
      | _ => "specfail C45/unparsed"
    | _, _, _, _ => "specfail C45/unparsed"
  | _ => "specfail C45/unparsed"

def handler : Driver.Handler Unit := { init := (), step := step, spec := spec }

end Driver.C45

def main (args : List String) : IO UInt32 := Driver.run Driver.C45.handler args

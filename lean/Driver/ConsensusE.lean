/-
  Line-protocol parsing shared by the C01/C02/C03 drivers: validator sets, commit entries,
  outcomes.  (Harness side: harness/src/consensus_e.rs.)
-/
import Lumina.Model.Util
import Lumina.Model.CommitBridge
import Lumina.Model.HeaderVerifyBridge

open Lumina.Util Lumina.Model.Commit

namespace Driver.ConsensusE

/-- `pk:addr:power` -/
def parseVal (s : String) : Option Validator :=
  match s.splitOn ":" with
  | [_, a, p] =>
    match fromHexChars a.toList, p.toNat? with
    | some a, some p => some { addr := a, power := p }
    | _, _ => none
  | _ => none

def parseSet (ws : List String) (pre : String) : Option ValSet :=
  match arg? ws (pre ++ "vals"), natArg? ws (pre ++ "total"), natArg? ws (pre ++ "prop") with
  | some v, some total, some prop =>
    match (if v == "-" then some [] else (v.splitOn ",").mapM parseVal) with
    | some vals => some { vals := vals, total := total, hasProposer := prop == 1 }
    | none => none
  | _, _, _ => none

/-- `0` (absent) or `flag:addr:ts:sig` with flag 1 = nil, 2 = commit, sig `-` = none -/
def parseSig (s : String) : Option CSig :=
  if s == "0" then some { flag := .absent, addr := [], hasSig := false }
  else match s.splitOn ":" with
    | [f, a, _, sg] =>
      match fromHexChars a.toList with
      | some a =>
        if f == "1" then some { flag := .nil, addr := a, hasSig := sg != "-" }
        else if f == "2" then some { flag := .commit, addr := a, hasSig := sg != "-" }
        else none
      | none => none
    | _ => none

def parseSigs (ws : List String) (pre : String) : Option (List CSig) :=
  match arg? ws (pre ++ "sigs") with
  | some v => if v == "-" then some [] else (v.splitOn ",").mapM parseSig
  | none => none

def showErr : Err → String
  | .lenMismatch => "len-mismatch"
  | .heightMismatch => "height-mismatch"
  | .neededOverflow => "needed-overflow"
  | .neededDivZero => "needed-div0"
  | .noSignature => "no-signature"
  | .sigInvalid => "sig-invalid"
  | .doubleVote => "double-vote"
  | .notEnough t n => s!"not-enough {t} {n}"

def showOutcome (o : Outcome) (bits ibits : List Nat) : String :=
  match o with
  | .ok => s!"ok bits={showNatList bits} ibits={showNatList ibits}"
  | .err e => s!"err {showErr e} bits={showNatList bits} ibits={showNatList ibits}"
  | .panic => "panic"

/-- oracle word `key` as the IMPLEMENTATION's result line reports it (recomputed by `run` with the
    real code), falling back to the op line's when the result line has none (e.g. `panic`) -/
def obsNatList (obsWs opWs : List String) (key : String) : Option (List Nat) :=
  match natListArg? obsWs key with
  | some l => some l
  | none => natListArg? opWs key

/-- first index holding `a` -/
def firstIdxFrom (a : Addr) : Nat → List Addr → Option Nat
  | _, [] => none
  | i, x :: xs => if x == a then some i else firstIdxFrom a (i + 1) xs

def firstIdx (l : List Addr) (a : Addr) : Option Nat := firstIdxFrom a 0 l

end Driver.ConsensusE

namespace Driver.ConsensusE
open Lumina.Model.HeaderVerify

def hashArg? (ws : List String) (key : String) : Option Hash :=
  match arg? ws key with
  | some "-" => some none
  | some s => (fromHexChars s.toList).map some
  | none => none

/-- `none` or `hash:pst:psh` ↦ `last_header_hash()` -/
def lastHeaderHashArg? (ws : List String) (key : String) : Option Hash :=
  match arg? ws key with
  | some "none" => some none
  | some s =>
    match s.splitOn ":" with
    | [h, _, _] => if h == "-" then some none else (fromHexChars h.toList).map some
    | _ => none
  | none => none

/-- the parts of a header line (keys prefixed by `pre`) that `verify*` reads -/
def parseHdr (ws : List String) (pre : String) : Option Hdr :=
  match natArg? ws (pre ++ "hh"), arg? ws (pre ++ "hc"), natArg? ws (pre ++ "ht"),
        hashArg? ws (pre ++ "hvh"), hashArg? ws (pre ++ "hnv"), lastHeaderHashArg? ws (pre ++ "hl"),
        hashArg? ws (pre ++ "bid"), parseSet ws pre, parseSigs ws pre with
  | some h, some c, some t, some vh, some nv, some lh, some bid, some vs, some sigs =>
    some { height := h, chainId := c.toUTF8.toList, time := (t : Int), validatorsHash := vh,
           nextValidatorsHash := nv, lastHeaderHash := lh, hash := bid, valset := vs, sigs := sigs }
  | _, _, _, _, _, _, _, _, _ => none

def parseHdrs (ws : List String) (n : Nat) : Option (List Hdr) :=
  (List.range n).mapM (fun i => parseHdr ws (toString i ++ "."))

def showVErr : VErr → String
  | .heightNotGreater => "height-not-greater"
  | .chainId => "chain-id"
  | .timeNotAfter => "time-not-after"
  | .timeFuture => "time-future"
  | .nextValidators => "next-validators"
  | .lastHeaderHash => "last-header-hash"
  | .notAdjacent => "not-adjacent"
  | .commit e => showErr e

def showVOut (o : VOut) (bits ibits : List Nat) : String :=
  match o with
  | .ok => s!"ok bits={showNatList bits} ibits={showNatList ibits}"
  | .err e => s!"err {showVErr e} bits={showNatList bits} ibits={showNatList ibits}"
  | .panic => "panic"

/-- spec-side oracle from the per-entry bits: the bit of entry j is the verdict under the FIRST
    validator of the trusted set carrying the address written in entry j -/
def validOf (tr un : Hdr) (bits : List Nat) : Nat → Nat → Bool :=
  fun i j => bits.getD j 0 == 1 && (match un.sigs[j]? with
    | some s => firstIdx (tr.valset.vals.map (·.addr)) s.addr == some i
    | none => false)

end Driver.ConsensusE

namespace Driver.ConsensusE
open Lumina.Model.HeaderVerify

/-- `Option<Hash>`: `none` | `-` (Some(Hash::None)) | hex -/
def ohashArg? (ws : List String) (key : String) : Option (Option Hash) :=
  match arg? ws key with
  | some "none" => some none
  | some "-" => some (some none)
  | some s => (fromHexChars s.toList).map (fun b => some (some b))
  | none => none

def parseHashStr (s : String) : Option Hash :=
  if s == "-" then some none else (fromHexChars s.toList).map some

def blockIdArg? (ws : List String) (key : String) : Option (Option BlockId) :=
  match arg? ws key with
  | some "none" => some none
  | some s =>
    match s.splitOn ":" with
    | [h, t, p] =>
      match parseHashStr h, t.toNat?, parseHashStr p with
      | some h, some t, some p => some (some { hash := h, pst := t, psh := p })
      | _, _, _ => none
    | _ => none
  | none => none

def parseHeaderF (ws : List String) (pre : String) : Option HeaderF :=
  let k := fun (s : String) => pre ++ s
  match (arg? ws (k "hv")).map (·.splitOn ":") with
  | some [vb, va] =>
    match vb.toNat?, va.toNat?, arg? ws (k "hc"), natArg? ws (k "hh"), natArg? ws (k "ht"),
          blockIdArg? ws (k "hl"), ohashArg? ws (k "hlc"), ohashArg? ws (k "hd") with
    | some vb, some va, some c, some h, some t, some lbi, some lch, some dh =>
      match hashArg? ws (k "hvh"), hashArg? ws (k "hnv"), hashArg? ws (k "hco"), hexArg? ws (k "hah"),
            ohashArg? ws (k "hlr"), ohashArg? ws (k "hev"), hexArg? ws (k "hpa") with
      | some vh, some nv, some co, some ah, some lr, some ev, some pa =>
        some { versionBlock := vb, versionApp := va, chainId := c.toUTF8.toList, height := h,
               time := (t : Int), lastBlockId := lbi, lastCommitHash := lch, dataHash := dh,
               validatorsHash := vh, nextValidatorsHash := nv, consensusHash := co, appHash := ah,
               lastResultsHash := lr, evidenceHash := ev, proposerAddress := pa }
      | _, _, _, _, _, _, _ => none
    | _, _, _, _, _, _, _, _ => none
  | _ => none

def parseValK (s : String) : Option ValK :=
  match s.splitOn ":" with
  | [pk, a, p] =>
    match fromHexChars pk.toList, fromHexChars a.toList, p.toNat? with
    | some pk, some a, some p => some { pk := pk, addr := a, power := p }
    | _, _, _ => none
  | _ => none

def parseSetK (ws : List String) (pre : String) : Option SetK :=
  match arg? ws (pre ++ "vals"), natArg? ws (pre ++ "total"), natArg? ws (pre ++ "prop") with
  | some v, some total, some prop =>
    match (if v == "-" then some [] else (v.splitOn ",").mapM parseValK) with
    | some vals => some { vals := vals, total := total, hasProposer := prop == 1 }
    | none => none
  | _, _, _ => none

def parseEntryF (s : String) : Option (EntryF (List UInt8)) :=
  if s == "0" then some { flag := .absent, addr := [], ts := 0, sig := none }
  else match s.splitOn ":" with
    | [f, a, t, sg] =>
      match fromHexChars a.toList, t.toNat?, (if sg == "-" then some none else (fromHexChars sg.toList).map some) with
      | some a, some t, some sg =>
        if f == "1" then some { flag := .nil, addr := a, ts := (t : Int), sig := sg }
        else if f == "2" then some { flag := .commit, addr := a, ts := (t : Int), sig := sg }
        else none
      | _, _, _ => none
    | _ => none

def parseCommitF (ws : List String) (pre : String) : Option (CommitF (List UInt8)) :=
  match natArg? ws (pre ++ "ch"), natArg? ws (pre ++ "round"), hashArg? ws (pre ++ "bid"),
        natArg? ws (pre ++ "pst"), hashArg? ws (pre ++ "psh"), arg? ws (pre ++ "sigs") with
  | some h, some r, some bid, some pst, some psh, some sg =>
    match (if sg == "-" then some [] else (sg.splitOn ",").mapM parseEntryF) with
    | some sigs => some { height := h, round := r, blockId := { hash := bid, pst := pst, psh := psh }, sigs := sigs }
    | none => none
  | _, _, _, _, _, _ => none

structure ParsedEH where
  eh : ExtHeader (List UInt8)
  prims : Prims (List UInt8)
  /-- validity bits computed through lumina's own `vote_sign_bytes` (what the model consumes) -/
  bits : List Nat
  /-- validity bits computed over the independently encoded canonical vote -/
  ibits : List Nat
  /-- the oracle words as text, for echoing -/
  words : String

/-- header + commit + set + DAH (keys prefixed by `pre` in `ws`) + the oracle words (three hashes
    computed by the real code, two kinds of validity bits), looked up in `ows` under prefix `opre` -/
def parseEHWith (ws : List String) (pre : String) (ows : List String) (opre : String) : Option ParsedEH :=
  match parseHeaderF ws pre, parseCommitF ws pre, parseSetK ws pre,
        hexListArg? ws (pre ++ "rows"), hexListArg? ws (pre ++ "cols") with
  | some h, some c, some s, some rows, some cols =>
    match hashArg? ows (opre ++ "xh"), hashArg? ows (opre ++ "xv"), hashArg? ows (opre ++ "xd"),
          natListArg? ows (opre ++ "xb") with
    | some xh, some xv, some xd, some bits =>
      let eh : ExtHeader (List UInt8) :=
        { header := h, commit := c, valset := s, dah := { rows := rows, cols := cols } }
      -- the oracle as a function of (key, signed content, signature): bit j was computed by the
      -- real code for (key of validator j, vote bytes of entry j, signature of entry j)
      let table : List (List UInt8 × VoteMsg × Option (List UInt8) × Nat) :=
        (List.range c.sigs.length).filterMap (fun j =>
          match s.vals[j]?, c.sigs[j]? with
          | some v, some e => some (v.pk, voteMsg eh e, e.sig, bits.getD j 0)
          | _, _ => none)
      some { eh := eh
             prims := { hHeader := fun _ => xh, hValset := fun _ => xv, hDah := fun _ => xd,
                        sigValid := fun pk m sg =>
                          match table.find? (fun t => t.1 == pk && t.2.1 == m && t.2.2.1 == some sg) with
                          | some t => t.2.2.2 == 1
                          | none => false }
             bits := bits
             ibits := (natListArg? ows (opre ++ "xi")).getD []
             words := " ".intercalate (["xh", "xv", "xd", "xb", "xi"].map (fun k =>
               k ++ "=" ++ (arg? ows (opre ++ k)).getD "?")) }
    | _, _, _, _ => none
  | _, _, _, _, _ => none

def parseEH (ws : List String) (pre : String) : Option ParsedEH := parseEHWith ws pre ws pre

/-- for the spec pass: oracle words from the implementation's result segment `obsSeg` when it
    carries them, else from the op line -/
def parseEHObs (ws : List String) (pre : String) (obsSeg : String) : Option ParsedEH :=
  let ows := words obsSeg
  match arg? ows "xh" with
  | some _ => parseEHWith ws pre ows ""
  | none => parseEH ws pre

def showValErr : ValErr → String
  | .versionBlock => "version-block"
  | .chainIdLen => "chain-id-len"
  | .heightZero => "height-zero"
  | .genesisLastBlockId => "genesis-last-block-id"
  | .missingLastBlockId => "missing-last-block-id"
  | .blockIdZero => "block-id-zero"
  | .noSignatures => "no-signatures"
  | .commitSigNoSignature => "commit-sig-no-signature"
  | .validatorsEmpty => "validators-empty"
  | .proposerNone => "proposer-none"
  | .validatorsHash => "validators-hash"
  | .dahHash => "dah-hash"
  | .commitHeight => "commit-height"
  | .commitBlockIdHash => "commit-block-id-hash"
  | .commit e => showErr e
  | .unsupportedAppVersion v => s!"unsupported-app-version {v}"
  | .dahColsRows => "dah-cols-rows"
  | .dahTooSmall => "dah-too-small"
  | .dahTooBig => "dah-too-big"

def showValOut : ValOut → String
  | .ok => "ok"
  | .err e => s!"err {showValErr e}"
  | .panic => "panic"

end Driver.ConsensusE

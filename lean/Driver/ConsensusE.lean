/-
  Line-protocol parsing shared by the C01/C02/C03 drivers: validator sets, commit entries,
  outcomes.  (Harness side: harness/src/consensus_e.rs.)
-/
import Lumina.Model.Util
import Lumina.Model.CommitBridge
import Lumina.Model.HeaderVerifyBridge

open Lumina.Util Lumina.Model.Commit

namespace Driver.ConsensusE

/-- `pk:addr:power` -/
def parseVal (s : String) : Option Validator :=
  match s.splitOn ":" with
  | [_, a, p] =>
    match fromHexChars a.toList, p.toNat? with
    | some a, some p => some { addr := a, power := p }
    | _, _ => none
  | _ => none

def parseSet (ws : List String) (pre : String) : Option ValSet :=
  match arg? ws (pre ++ "vals"), natArg? ws (pre ++ "total"), natArg? ws (pre ++ "prop") with
  | some v, some total, some prop =>
    match (if v == "-" then some [] else (v.splitOn ",").mapM parseVal) with
    | some vals => some { vals := vals, total := total, hasProposer := prop == 1 }
    | none => none
  | _, _, _ => none

/-- `0` (absent) or `flag:addr:ts:sig` with flag 1 = nil, 2 = commit, sig `-` = none -/
def parseSig (s : String) : Option CSig :=
  if s == "0" then some { flag := .absent, addr := [], hasSig := false }
  else match s.splitOn ":" with
    | [f, a, _, sg] =>
      match fromHexChars a.toList with
      | some a =>
        if f == "1" then some { flag := .nil, addr := a, hasSig := sg != "-" }
        else if f == "2" then some { flag := .commit, addr := a, hasSig := sg != "-" }
        else none
      | none => none
    | _ => none

def parseSigs (ws : List String) (pre : String) : Option (List CSig) :=
  match arg? ws (pre ++ "sigs") with
  | some v => if v == "-" then some [] else (v.splitOn ",").mapM parseSig
  | none => none

def showErr : Err → String
  | .lenMismatch => "len-mismatch"
  | .heightMismatch => "height-mismatch"
  | .neededOverflow => "needed-overflow"
  | .neededDivZero => "needed-div0"
  | .noSignature => "no-signature"
  | .sigInvalid => "sig-invalid"
  | .doubleVote => "double-vote"
  | .notEnough t n => s!"not-enough {t} {n}"

def showOutcome (o : Outcome) (bits : List Nat) : String :=
  match o with
  | .ok => s!"ok bits={showNatList bits}"
  | .err e => s!"err {showErr e} bits={showNatList bits}"
  | .panic => "panic"

/-- first index holding `a` -/
def firstIdxFrom (a : Addr) : Nat → List Addr → Option Nat
  | _, [] => none
  | i, x :: xs => if x == a then some i else firstIdxFrom a (i + 1) xs

def firstIdx (l : List Addr) (a : Addr) : Option Nat := firstIdxFrom a 0 l

end Driver.ConsensusE

namespace Driver.ConsensusE
open Lumina.Model.HeaderVerify

def hashArg? (ws : List String) (key : String) : Option Hash :=
  match arg? ws key with
  | some "-" => some none
  | some s => (fromHexChars s.toList).map some
  | none => none

/-- `none` or `hash:pst:psh` ↦ `last_header_hash()` -/
def lastHeaderHashArg? (ws : List String) (key : String) : Option Hash :=
  match arg? ws key with
  | some "none" => some none
  | some s =>
    match s.splitOn ":" with
    | [h, _, _] => if h == "-" then some none else (fromHexChars h.toList).map some
    | _ => none
  | none => none

/-- the parts of a header line (keys prefixed by `pre`) that `verify*` reads -/
def parseHdr (ws : List String) (pre : String) : Option Hdr :=
  match natArg? ws (pre ++ "hh"), arg? ws (pre ++ "hc"), natArg? ws (pre ++ "ht"),
        hashArg? ws (pre ++ "hvh"), hashArg? ws (pre ++ "hnv"), lastHeaderHashArg? ws (pre ++ "hl"),
        hashArg? ws (pre ++ "bid"), parseSet ws pre, parseSigs ws pre with
  | some h, some c, some t, some vh, some nv, some lh, some bid, some vs, some sigs =>
    some { height := h, chainId := c.toUTF8.toList, time := (t : Int), validatorsHash := vh,
           nextValidatorsHash := nv, lastHeaderHash := lh, hash := bid, valset := vs, sigs := sigs }
  | _, _, _, _, _, _, _, _, _ => none

def parseHdrs (ws : List String) (n : Nat) : Option (List Hdr) :=
  (List.range n).mapM (fun i => parseHdr ws (toString i ++ "."))

def showVErr : VErr → String
  | .heightNotGreater => "height-not-greater"
  | .chainId => "chain-id"
  | .timeNotAfter => "time-not-after"
  | .timeFuture => "time-future"
  | .nextValidators => "next-validators"
  | .lastHeaderHash => "last-header-hash"
  | .notAdjacent => "not-adjacent"
  | .commit e => showErr e

def showVOut (o : VOut) (bits : List Nat) : String :=
  match o with
  | .ok => s!"ok bits={showNatList bits}"
  | .err e => s!"err {showVErr e} bits={showNatList bits}"
  | .panic => "panic"

/-- spec-side oracle from the per-entry bits: the bit of entry j is the verdict under the FIRST
    validator of the trusted set carrying the address written in entry j -/
def validOf (tr un : Hdr) (bits : List Nat) : Nat → Nat → Bool :=
  fun i j => bits.getD j 0 == 1 && (match un.sigs[j]? with
    | some s => firstIdx (tr.valset.vals.map (·.addr)) s.addr == some i
    | none => false)

end Driver.ConsensusE

import Driver.Common
import Lumina.Model.Util
import Lumina.Model.PoolsView

open Lumina.Util Lumina.Model.Pools

namespace Driver.C40

def insertBy {α} (key : α → Nat) (x : α) : List α → List α
  | [] => [x]
  | y :: ys => if key x < key y then x :: y :: ys else y :: insertBy key x ys

def sortBy {α} (key : α → Nat) (l : List α) : List α := l.foldl (fun acc x => insertBy key x acc) []

def joinOrDash (sep : String) (l : List String) : String :=
  if l.isEmpty then "-" else sep.intercalate l

def showPeers (ps : List Nat) : String := joinOrDash "+" (ps.map toString)

def showPool : Nat × Pool → String
  | (h, .candidates voted cands) =>
    let cs := (sortBy (·.1) cands).map (fun e => s!"{e.1}>{showPeers e.2}")
    s!"{h}:C[{showPeers (sortBy id voted)};{joinOrDash "," cs}]"
  | (h, .validated x) => s!"{h}:V[{x}]"

/-- `BlockPeers` lists come out of hash-set / hash-map iteration: canonical form is sorted -/
def showEv : Ev → String
  | .addPeers ps => s!"A{showPeers ps}"
  | .blockPeers ps => s!"B{showPeers (sortBy id ps)}"

def showState (s : State) : String :=
  let head := match s.subjectiveHead with | none => "none" | some h => toString h
  let pools := joinOrDash "|" ((sortBy (·.1) s.hashPools).map showPool)
  let vp := joinOrDash "|" ((sortBy (·.1) s.validatedPools).map (fun e => s!"{e.1}>{showPeers e.2}"))
  let evs := joinOrDash "," (s.pendingEvents.map showEv)
  s!"head={head} pools={pools} vp={vp} ev={evs}"

def showPoll : PollRes → String
  | .pending => "pending"
  | .readyNone => "none"
  | .readyEv ev => showEv ev

def showGet : PoolRes → String
  | .ok ps => s!"ok:{showPeers ps}"
  | .candidatesNotValidated => "CandidatesNotValidated"
  | .heightTooOld => "HeightTooOld"
  | .heightNotTracked => "HeightNotTracked"
  | .panic => "panic"

/-- data hash code of the generated chain's header at height `h` (`dup=1`: heights 2k and 2k+1 share a hash) -/
def chainHash (dup : Bool) (h : Nat) : Nat := if dup then 1000 + h / 2 * 2 else 1000 + h

structure DState where
  s : State
  dup : Bool
  /-- every `notify` op so far: (peer, hash, height) -/
  notified : List (Nat × Nat × Nat)
  /-- history monitor (`Spec.C40.monStep`): the announcements that still count -/
  votes : List Lumina.Spec.C40.Vote := []
  /-- heights whose header task was made to fail with a store error -/
  storeErrs : List Nat := []

def dinit : DState := { s := init, dup := false, notified := [] }

def parseEvent (d : DState) (ws : List String) : Option Event :=
  match ws with
  | "notify" :: _ =>
    match natArg? ws "p", natArg? ws "x", natArg? ws "h" with
    | some p, some x, some h => some (.notify p x h)
    | _, _, _ => none
  | "remove" :: _ => (natArg? ws "p").map Event.removePeer
  | "poll" :: _ => some .poll
  | "store" :: _ => (natArg? ws "h").map (fun h => Event.store h (chainHash d.dup h))
  | "timeout" :: _ => (natArg? ws "h").map Event.taskTimeout
  | "storeerr" :: _ => (natArg? ws "h").map Event.taskStoreErr
  | _ => none

/-- `reset from=a to=b dup=0|1`: a store pre-filled with headers a..b (none if `to=0`), a new tracker,
    polled until `Pending` (the initial task sets the subjective head) -/
def doReset (ws : List String) : DState :=
  let dup := natArg? ws "dup" == some 1
  match natArg? ws "from", natArg? ws "to" with
  | some a, some b =>
    if b == 0 then { dinit with dup }
    else
      let hs := List.range' a (b + 1 - a)
      let s0 : State := { init with stored := hs.map (fun h => (h, chainHash dup h)) }
      { s := (poll s0).1, dup, notified := [] }
  | _, _ => { dinit with dup }

def stepOne (d : DState) (line : String) : DState × String :=
  let ws := words line
  match ws with
  | "reset" :: _ => (doReset ws, "ok")
  | "get" :: _ =>
    match natArg? ws "h" with
    | some h =>
      -- the harness reports a panic as the bare word
      if getPool d.s h == .panic then (d, "panic") else (d, s!"get={showGet (getPool d.s h)} {showState d.s}")
    | none => (d, "bad-op")
  | _ =>
    match parseEvent d ws with
    | none => (d, "bad-op")
    | some e =>
      let (s', o) := Lumina.Model.Pools.step d.s e
      -- a notification the tracker ignores (no head yet / height ten or more below the head) does not count
      let notified := match e with
        | .notify p x h => if Lumina.Spec.C40.ignored (view d.s) h then d.notified else d.notified ++ [(p, x, h)]
        | _ => d.notified
      let pre := match o.poll with | some r => s!"poll={showPoll r} " | none => ""
      let storeErrs := match e with
        | .taskStoreErr h => d.storeErrs ++ [h]
        | _ => d.storeErrs
      let mop : Lumina.Spec.C40.MonOp := match e, o.poll with
        | .notify p x h, _ => .notify p x h
        | .removePeer p, _ => .remove p
        | .poll, some (.readyEv ev) => .poll (some (viewEv ev))
        | .poll, _ => .poll none
        | _, _ => .other
      let votes := (Lumina.Spec.C40.monStep storeErrs d.votes mop (view d.s) (view s')).1
      ({ d with s := s', notified, votes, storeErrs }, s!"{pre}{showState s'}")

/-! ### spec on the implementation's output -/

open Lumina.Spec.C40

def splitDash (sep : String) (s : String) : List String := if s == "-" then [] else s.splitOn sep

def parsePeers (s : String) : Option (List Nat) := (splitDash "+" s).mapM String.toNat?

def dropFirst (s : String) : String := String.ofList (s.toList.drop 1)

/-- `h:C[v1+v2;x>p1+p2,y>p3]` or `h:V[x]` -/
def parsePool (s : String) : Option (Nat × ObsPool) :=
  match s.splitOn ":" with
  | [hs, rest] =>
    match hs.toNat? with
    | none => none
    | some h =>
      let body := String.ofList ((rest.toList.drop 2).dropLast)
      if rest.startsWith "V[" then body.toNat?.map (fun x => (h, ObsPool.validated x))
      else if rest.startsWith "C[" then
        match body.splitOn ";" with
        | [v, cs] =>
          match parsePeers v, (splitDash "," cs).mapM (fun c => match c.splitOn ">" with
              | [x, ps] => match x.toNat?, parsePeers ps with
                | some x, some ps => some (x, ps)
                | _, _ => none
              | _ => none) with
          | some voted, some cands => some (h, ObsPool.candidates voted cands)
          | _, _ => none
        | _ => none
      else none
  | _ => none

def parseEv (s : String) : Option ObsEv :=
  if s.startsWith "A" then (parsePeers (dropFirst s)).map ObsEv.add
  else if s.startsWith "B" then (parsePeers (dropFirst s)).map ObsEv.block
  else none

def parseObs (os : List String) : Option Obs :=
  match arg? os "head", arg? os "pools", arg? os "vp", arg? os "ev" with
  | some hd, some pools, some vp, some ev =>
    match (splitDash "|" pools).mapM parsePool,
          (splitDash "|" vp).mapM (fun c => match c.splitOn ">" with
              | [x, ps] => match x.toNat?, parsePeers ps with
                | some x, some ps => some (x, ps)
                | _, _ => none
              | _ => none),
          (splitDash "," ev).mapM parseEv with
    | some pools, some vp, some events => some { head := hd.toNat?, pools, vp, events }
    | _, _, _ => none
  | _, _, _, _ => none

def specOne (d : DState) (op : String) (obs : String) : String :=
  let ws := words op
  let os := words obs
  match ws with
  | "reset" :: _ => "specskip"
  | _ =>
    if obs == "panic" then
      if ws.head? == some "get" && !d.dup then
        "specfail C40/get-pool-panic get_pool panicked although data hashes differ across heights"
      else if ws.head? == some "get" then "specskip"
      else "specfail C40/panic unexpected panic"
    else
    match parseObs os with
    | none => "specfail C40/unparsed"
    | some after =>
      let before := view d.s
      let notified := match ws with
        | "notify" :: _ => match natArg? ws "p", natArg? ws "x", natArg? ws "h" with
          | some p, some x, some h => if ignored before h then d.notified else d.notified ++ [(p, x, h)]
          | _, _, _ => d.notified
        | _ => d.notified
      let stored := match ws with
        | "store" :: _ => match natArg? ws "h" with
          | some h => d.s.stored ++ [(h, chainHash d.dup h)]
          | none => d.s.stored
        | _ => d.s.stored
      let storeErrs := match ws with
        | "storeerr" :: _ => d.storeErrs ++ (natArg? ws "h").toList
        | _ => d.storeErrs
      let mop : MonOp := match ws with
        | "notify" :: _ => match natArg? ws "p", natArg? ws "x", natArg? ws "h" with
          | some p, some x, some h => .notify p x h
          | _, _, _ => .other
        | "remove" :: _ => match natArg? ws "p" with
          | some p => .remove p
          | none => .other
        | "poll" :: _ => .poll ((arg? os "poll").bind parseEv)
        | _ => .other
      let viols := (monStep storeErrs d.votes mop before after).2
      let fresh := viols.filter (fun v => match v with
        | .wrongHash vt => !vt.orphaned
        | .twice vt => !vt.orphaned)
      if !specOffered stored notified after then
        "specfail C40/offered-without-announcement a pool offers a peer that did not announce the stored header's data hash"
      else if !specWindow after then
        "specfail C40/stale-pool-kept a pool more than ten heights below the newest validated height is still tracked"
      else
        if d.dup && !viols.isEmpty then
          -- the chain of this history has neighbouring heights with the SAME data hash: `validated_pools` is keyed
          -- by hash, so the two heights share (and overwrite / evict) one peer list
          "specfail C40/shared-data-hash-across-heights two tracked heights share a data hash; their validated pool is shared, so per-height duplicate / wrong-hash bookkeeping is lost"
        else
        match fresh, viols with
        | .wrongHash vt :: _, _ =>
          s!"specfail C40/wrong-hash-never-blocked peer {vt.peer} announced hash {vt.hash} for height {vt.height}, which is now validated with another hash, and was never blocked"
        | .twice vt :: _, _ =>
          s!"specfail C40/announced-twice-never-blocked peer {vt.peer} announced for height {vt.height} again and was not blocked"
        | [], .wrongHash vt :: _ =>
          s!"specfail C40/wrong-hash-vote-forgotten-by-store-error peer {vt.peer} announced hash {vt.hash} for height {vt.height}; the pool was dropped after a store error, re-created and validated with another hash; the peer was never blocked"
        | [], .twice vt :: _ =>
          s!"specfail C40/repeat-after-store-error-not-blocked peer {vt.peer} announced for height {vt.height}, the pool was dropped after a store error, the peer announced again and was not blocked"
        | [], [] =>
        match ws with
        | "notify" :: _ =>
          match natArg? ws "p", natArg? ws "x", natArg? ws "h" with
          | some p, some x, some h =>
            if !specNotifyWrongHash before after p x h then
              "specfail C40/wrong-hash-not-blocked a peer announced another hash for a validated height and was not blocked"
            else if !specNotifyTwice before after p h then
              if (before.pools.find? (fun e => e.1 == h)).any (fun e => match e.2 with | .validated _ => true | _ => false) then
                "specfail C40/announced-twice-after-validation a peer announced twice for a validated height and was not blocked"
              else "specfail C40/announced-twice a peer announced twice and was not blocked"
            else "specok"
          | _, _, _ => "specfail C40/unparsed"
        | "poll" :: _ =>
          if !specValidation before after then
            "specfail C40/validation-not-blocked a height was validated and a peer that announced another hash was not blocked"
          else "specok"
        | "get" :: _ =>
          match natArg? ws "h", arg? os "get" with
          | some h, some g =>
            if g.startsWith "ok:" then
              match parsePeers (String.ofList (g.toList.drop 3)) with
              | some ps => if specGet stored notified h ps then "specok"
                  else "specfail C40/get-offered-without-announcement get_pool offered a peer that did not announce the stored header's data hash"
              | none => "specfail C40/unparsed"
            else "specok"
          | _, _ => "specfail C40/unparsed"
        | _ => "specok"

/-- `drain`: `poll` until it answers `Pending` (at most 64 calls); the results are joined by ` ;; `.
    The generator issues it right after every injected task failure, so that the failure is consumed before
    anything else happens (in the real tracker a task's result and the task are one thing: a header can
    not be delivered by a task that already timed out). -/
def drainLoop : Nat → DState → List String → DState × List String
  | 0, d, acc => (d, acc)
  | fuel + 1, d, acc =>
    let (d', o) := stepOne d "poll"
    if o.startsWith "poll=pending" then (d', acc ++ [o]) else drainLoop fuel d' (acc ++ [o])

def step (d : DState) (line : String) : DState × String :=
  match words line with
  | "drain" :: _ =>
    let (d', outs) := drainLoop 64 d []
    (d', " ;; ".intercalate outs)
  | _ => stepOne d line

/-- the spec of a `drain` is the spec of each of its polls, in the model state that poll started from -/
def specDrain : DState → List String → String
  | _, [] => "specok"
  | d, seg :: rest =>
    let v := specOne d "poll" seg
    if v.startsWith "specfail" then v else specDrain (stepOne d "poll").1 rest

def spec (d : DState) (op : String) (obs : String) : String :=
  match words op with
  | "drain" :: _ => if obs == "panic" then "specfail C40/panic unexpected panic" else specDrain d (obs.splitOn " ;; ")
  | _ => specOne d op obs

def handler : Driver.Handler DState := { init := dinit, step := step, spec := spec }

end Driver.C40

def main (args : List String) : IO UInt32 := Driver.run Driver.C40.handler args

import Driver.Common
import Lumina.Model.Util
import Lumina.Model.HeaderRange
import Lumina.Gen.C27
import Lumina.Spec.C27

open Lumina.Util Lumina.Model.HeaderRange

namespace Driver.C27

def cfg : Lumina.Model.Session.Cfg :=
  { minAmount := Lumina.Gen.C27.MIN_AMOUNT_PER_REQ, maxAmount := Lumina.Gen.C27.MAX_AMOUNT_PER_REQ,
    maxConcurrent := Lumina.Gen.C27.MAX_CONCURRENT_REQS }

/-- which versions of the code the tree contains -/
def FIXED_P2P : Bool := true
def FIXED_CLIENT : Bool := true

def parseBeh (s : String) : Option Beh :=
  if s == "f" then some .full
  else if s == "n" then some .notFound
  else if s == "i" then some .invalid
  else if s == "e" then some .emptyOk
  else if s == "d" then some .dropped
  else match s.toList with
    | 'p' :: rest => (String.ofList rest).toNat?.map Beh.atMost
    | _ => none

def parseBehs (s : String) : Option (List Beh) :=
  if s == "-" then some [] else (s.splitOn ",").mapM parseBeh

/-- maximal ascending runs `a-b` -/
def showRunsAux : List Nat → Nat → Nat → List String → List String
  | [], lo, hi, acc => acc ++ [if lo == hi then toString lo else s!"{lo}-{hi}"]
  | x :: xs, lo, hi, acc =>
    if x == hi + 1 then showRunsAux xs lo x acc
    else showRunsAux xs x x (acc ++ [if lo == hi then toString lo else s!"{lo}-{hi}"])

def showRuns : List Nat → String
  | [] => "-"
  | x :: xs => ",".intercalate (showRunsAux xs x x [])

def parseRuns (s : String) : Option (List Nat) :=
  if s == "-" then some [] else
  (s.splitOn ",").foldlM (fun acc item =>
    match item.splitOn "-" with
    | [a] => a.toNat?.map (fun x => acc ++ [x])
    | [a, b] => match a.toNat?, b.toNat? with
      | some x, some y => if x ≤ y then some (acc ++ List.range' x (y - x + 1)) else none
      | _, _ => none
    | _ => none) []

def parseInput (ws : List String) : Option Input :=
  match natArg? ws "from", arg? ws "fromkind", natArg? ws "amount", natArg? ws "chain",
        natListArg? ws "order", (arg? ws "beh").bind parseBehs, natArg? ws "fuel" with
  | some fh, some fk, some amount, some chain, some order, some beh, some fuel =>
    some { fromValid := fk != "invalid", fromHeight := fh, sameChain := fk == "ok", amount,
           net := { chainLen := chain, order, beh }, fuel }
  | _, _, _, _, _, _, _ => none

def showOut : Out → String
  | .ok hs steps => s!"ok {showRuns (hs.map (·.height))} steps={steps}"
  | .err e steps => s!"err {e} steps={steps}"
  | .panic => "panic"
  | .hang => "hang"

def step (_ : Unit) (line : String) : Unit × String :=
  let ws := words line
  let out : String :=
    match ws with
    | "reset" :: _ => "ok"
    | "gvr" :: _ =>
      match parseInput ws with
      | some i => showOut (getVerifiedHeadersRangeG FIXED_P2P FIXED_CLIENT cfg Lumina.Gen.C27.HASH_SIZE i)
      | none => "bad-op"
    | _ => "bad-op"
  ((), out)

def spec (_ : Unit) (op : String) (obs : String) : String :=
  let ws := words op
  match ws with
  | "gvr" :: _ =>
    match parseInput ws with
    | some i =>
      let si : Lumina.Spec.C27.In :=
        { fromValid := i.fromValid, fromHeight := i.fromHeight, sameChain := i.sameChain, amount := i.amount,
          chainLen := i.net.chainLen, progressing := i.net.beh.all Beh.progressing, fuel := i.fuel }
      let o? : Option Lumina.Spec.C27.Obs :=
        match words obs with
        | "ok" :: runs :: _ =>
          match parseRuns runs, natArg? (words obs) "steps" with
          | some hs, some st => some (.ok hs st)
          | _, _ => none
        | "err" :: _ => (natArg? (words obs) "steps").map .err
        | ["panic"] => some .panic
        | ["hang"] => some .hang
        | _ => none
      match o? with
      | none => "specfail C27/unparsed"
      | some o =>
        if Lumina.Spec.C27.specOK si o then "specok"
        else match o with
          | .panic =>
            if i.fromHeight + 1 + i.amount > U64_MAX then
              "specfail C27/range-end-overflow `height + amount - 1` overflows u64 (debug panic)"
            else "specfail C27/panic"
          | .hang =>
            if i.amount == 0 then "specfail C27/zero-amount-hang amount 0: the session asks for 0 headers and retries InvalidRequest for ever"
            else "specfail C27/served-but-hangs"
          | .ok hs st =>
            if !Lumina.Spec.C27.prompt si st then "specfail C27/not-prompt answered requests before returning: amount 0 needs none, a served call at most `amount`"
            else if hs == List.range' (i.fromHeight + 1) i.amount then "specfail C27/unverified-headers Ok although the headers do not verify against `from`"
            else "specfail C27/wrong-headers returned headers are not exactly the requested ones"
          | .err st =>
            if !Lumina.Spec.C27.prompt si st then "specfail C27/not-prompt answered requests before returning an error"
            else "specfail C27/served-but-error"
    | none => "specfail C27/unparsed"
  | "reset" :: _ => "specskip"
  | _ => "specfail C27/unparsed"

def handler : Driver.Handler Unit := { init := (), step := step, spec := spec }

end Driver.C27

def main (args : List String) : IO UInt32 := Driver.run Driver.C27.handler args

import Driver.Common
import Lumina.Model.Util
import Lumina.Model.Subs
import Lumina.Spec.C37

open Lumina.Util Lumina.Model.Subs

namespace Driver.C37

def showRange (r : List Nat) : String :=
  if r.isEmpty then "_" else "+".intercalate (r.map toString)

def showPending (p : List (List Nat)) : String :=
  if p.isEmpty then "-" else "|".intercalate (p.map showRange)

def showLast : Option Nat → String
  | none => "none"
  | some n => toString n

def showRes : Option Bool → String
  | none => "-"
  | some true => "ok"
  | some false => "err"

def showOut (s : State) (o : Out) : String :=
  s!"res={showRes o.result} sent={showNatList o.sent} last={showLast s.lastSent} pending={showPending s.pending}"

/-- `from=a to=b` (a run) or `hs=<list>` -/
def rangeArg? (ws : List String) : Option (List Nat) :=
  match natArg? ws "from", natArg? ws "to" with
  | some a, some b => some (List.range' a (b + 1 - a))
  | _, _ => natListArg? ws "hs"

def parseEvent (ws : List String) : Option Event :=
  match ws with
  | "prefill" :: _ => (rangeArg? ws).map Event.storeInsert
  | "init" :: _ => (natArg? ws "h").map Event.initBroadcast
  | "insert" :: _ =>
    match rangeArg? ws, natArg? ws "ok" with
    | some r, some ok => some (.announceInsert r (ok != 0))
    | _, _ => none
  | _ => none

def step (s : State) (line : String) : State × String :=
  let ws := words line
  match ws with
  | "reset" :: _ => (init, "ok")
  | _ =>
    match parseEvent ws with
    | none => (s, "bad-op")
    | some e =>
      let (s', o) := Lumina.Model.Subs.step s e
      if o.panic then (s', "panic") else (s', showOut s' o)

open Lumina.Spec.C37

def spec (s : State) (op : String) (obs : String) : String :=
  let ws := words op
  let os := words obs
  match ws with
  | "reset" :: _ => "specskip"
  | _ =>
    match parseEvent ws with
    | none => "specfail C37/unparsed"
    | some e =>
      if obs == "panic" then
        -- a panic of the implementation is only acceptable where the model (debug_assert / expect) panics too
        if (Lumina.Model.Subs.step s e).2.panic then "specskip" else "specfail C37/panic unexpected panic"
      else
      match natListArg? os "sent", arg? os "res" with
      | some sent, some res =>
        -- the store's answer is environment: take it from the implementation
        let e' := match e with
          | .announceInsert r _ => Event.announceInsert r (res == "ok")
          | e => e
        let stored' := (Lumina.Model.Subs.step s e').1.stored
        let log := s.sentLog ++ sent
        let head? : Option Nat := match s.firstHead, e with
          | some h, _ => some h
          | none, .initBroadcast h => some h
          | none, _ => none
        match head? with
        | none => if sent.isEmpty then "specok" else "specfail C37/sent-before-head headers were broadcast before any head was known"
        | some head =>
          if !specStream head log then
            "specfail C37/stream the received heights are not head, head+1, head+2, ..."
          else if !specStored stored' sent then
            "specfail C37/not-stored a height was broadcast that is not in the store"
          else if !specComplete head stored' log then
            "specfail C37/incomplete all heights up to H above the head are stored but the stream stopped below H"
          else "specok"
      | _, _ => "specfail C37/unparsed"

def handler : Driver.Handler State := { init := init, step := step, spec := spec }

end Driver.C37

def main (args : List String) : IO UInt32 := Driver.run Driver.C37.handler args

import Driver.Common
import Lumina.Model.Util
import Lumina.Model.Subs
import Lumina.Spec.C37

open Lumina.Util Lumina.Model.Subs

namespace Driver.C37

def showRange (r : List Nat) : String :=
  if r.isEmpty then "_" else "+".intercalate (r.map toString)

def showPending (p : List (List Nat)) : String :=
  if p.isEmpty then "-" else "|".intercalate (p.map showRange)

def showLast : Option Nat → String
  | none => "none"
  | some n => toString n

def showRes : Option Bool → String
  | none => "-"
  | some true => "ok"
  | some false => "err"

def showOut (s : State) (o : Out) : String :=
  -- `early`: heights a subscriber received before they were in the store (the model inserts before it sends)
  s!"res={showRes o.result} sent={showNatList o.sent} early=- last={showLast s.lastSent} pending={showPending s.pending}"

/-- `from=a to=b` (a run) or `hs=<list>` -/
def rangeArg? (ws : List String) : Option (List Nat) :=
  match natArg? ws "from", natArg? ws "to" with
  | some a, some b => some (List.range' a (b + 1 - a))
  | _, _ => natListArg? ws "hs"

def parseEvent (ws : List String) : Option Event :=
  match ws with
  | "prefill" :: _ => (rangeArg? ws).map Event.storeInsert
  | "init" :: _ => (natArg? ws "h").map Event.initBroadcast
  | "insert" :: _ =>
    match rangeArg? ws, natArg? ws "ok" with
    | some r, some ok => some (.announceInsert r (ok != 0))
    | _, _ => none
  | _ => none

/-- driver state: the model state plus whether the harness's subscriber is still subscribed.
    `unsub` aborts it; the real `broadcast::Sender::send` then fails and `send_range` returns at its
    "no receivers - skip sending" exit after having advanced `last_sent_height`: the model state moves
    exactly as before, only nothing is received any more (`sent=-`). -/
structure St where
  s : State := init
  recv : Bool := true

def step (st : St) (line : String) : St × String :=
  let ws := words line
  let s := st.s
  match ws with
  | "reset" :: _ => ({}, "ok")
  | "unsub" :: _ =>
    ({ st with recv := false }, s!"res=- sent=- early=- last={showLast s.lastSent} pending={showPending s.pending}")
  | _ =>
    match parseEvent ws with
    | none => (st, "bad-op")
    | some e =>
      let (s', o) := Lumina.Model.Subs.step s e
      if o.panic then ({ st with s := s' }, "panic")
      else ({ st with s := s' }, showOut s' (if st.recv then o else { o with sent := [] }))

open Lumina.Spec.C37

def spec (st : St) (op : String) (obs : String) : String :=
  let ws := words op
  let os := words obs
  let s := st.s
  match ws with
  | "reset" :: _ => "specskip"
  | "unsub" :: _ => "specskip"
  | _ =>
    match parseEvent ws with
    | none => "specfail C37/unparsed"
    | some e =>
      if obs == "panic" then
        -- a panic of the implementation is only acceptable where the model (debug_assert / expect) panics too
        if (Lumina.Model.Subs.step s e).2.panic then "specskip" else "specfail C37/panic unexpected panic"
      else if !st.recv then
        -- nobody is subscribed: the property promises nothing, but nothing may be received either
        match natListArg? os "sent" with
        | some [] => "specskip"
        | _ => "specfail C37/received-without-subscriber"
      else
      if arg? os "early" != some "-" then
        "specfail C37/received-before-stored a subscriber received a height that was not in the store at that moment"
      else
      match natListArg? os "sent", arg? os "res" with
      | some sent, some res =>
        -- the store's answer is environment: take it from the implementation
        let e' := match e with
          | .announceInsert r _ => Event.announceInsert r (res == "ok")
          | e => e
        let stored' := (Lumina.Model.Subs.step s e').1.stored
        let log := s.sentLog ++ sent
        let head? : Option Nat := match s.firstHead, e with
          | some h, _ => some h
          | none, .initBroadcast h => some h
          | none, _ => none
        match head? with
        | none => if sent.isEmpty then "specok" else "specfail C37/sent-before-head headers were broadcast before any head was known"
        | some head =>
          if !specStream head log then
            "specfail C37/stream the received heights are not head, head+1, head+2, ..."
          else if !specStored stored' sent then
            "specfail C37/not-stored a height was broadcast that is not in the store"
          else if !specComplete head stored' log then
            "specfail C37/incomplete all heights up to H above the head are stored but the stream stopped below H"
          else "specok"
      | _, _ => "specfail C37/unparsed"

def handler : Driver.Handler St := { init := {}, step := step, spec := spec }

end Driver.C37

def main (args : List String) : IO UInt32 := Driver.run Driver.C37.handler args

import Driver.Common
import Lumina.Model.TxSeq
import Lumina.Spec.C43
import Lumina.Proofs.TxSeqLedger

open Lumina.Util Lumina.Model.TxSeq

namespace Driver.C43

def optNat (s : String) : Option (Option Nat) :=
  if s == "-" then some none else s.toNat?.map some

def knownCode (c : Nat) : Bool := [2, 3, 4, 5, 11, 13, 18, 19, 20, 32].contains c || c == 0

def parseAns (s : String) : Option Ans :=
  match s.splitOn ":" with
  | ["ok"] => some .ok
  | ["seq", n] => n.toNat?.map .okSeq
  | ["price", q] => q.toNat?.map .okPrice
  | ["est", q, u] => match q.toNat?, u.toNat? with
    | some q, some u => some (.okEst q u)
    | _, _ => none
  | ["cache"] => some .cache
  | ["mis", n] => n.toNat?.map .mis
  | ["smis", n] => n.toNat?.map .mis
  | ["misbad"] => some .misbad
  | ["smisbad"] => some .misbad
  | ["code", c] =>
    match c.toNat? with
    | some c =>
      if !knownCode c then none
      else if c == 0 then some .ok else if c == 19 then some .cache
      else if c == 3 || c == 32 then some .misbad else some (.code c)
    | none => none
  | ["fail"] => some .fail
  | ["pending"] => some .pending
  | ["committed", c, h] => match c.toNat?, h.toNat? with
    | some c, some h => if knownCode c then some (.committed c h) else none
    | _, _ => none
  | ["rejected", c] => match c.toNat? with
    | some c => if knownCode c then some (.rejected c) else none
    | none => none
  | ["evicted"] => some .evicted
  | ["unknown"] => some .unknown
  | _ => none

def parseOp (ws : List String) : Option Op :=
  match ws with
  | "start" :: _ =>
    match natArg? ws "sub", (arg? ws "gl").bind optNat, (arg? ws "gp").bind optNat with
    | some i, some gl, some gp => some (.start i gl gp)
    | _, _, _ => none
  | "ans" :: _ =>
    match natArg? ws "sub", (arg? ws "a").bind parseAns with
    | some i, some a => some (.ans i a)
    | _, _ => none
  | _ => none

def showRes : Res → String
  | .ok h => s!"ok:{h}"
  | .tonic => "Tonic"
  | .broadcastFailed c => s!"BroadcastFailed({c})"
  | .seqParse => "SequenceParsingFailed"
  | .execFailed c => s!"ExecutionFailed({c})"
  | .rejected c => s!"Rejected({c})"
  | .evicted => "Evicted"
  | .notFound => "NotFound"

def showEvent : Event → String
  | .sign i k tx => s!"S{i}:{tx.seq}:{tx.gas}:{tx.fee}:t{k}"
  | .finished i r => s!"D{i}:{showRes r}"

def showPhase (s : Sub) : Option String :=
  let acc := s.acc.getD 0
  match s.phase with
  | .idle => none
  | .reqL => some "L" | .reqG => some "G" | .reqP => some "P"
  | .reqE k => some s!"E:t{k}" | .reqB k => some s!"B:t{k}"
  | .reqT => some s!"T:t{acc}" | .reqRB _ => some s!"B:t{acc}"
  | .waitChain | .waitAcct | .waitLock | .waitRollback _ => some "wait"
  | .done r => some (showRes r)

def insertSorted (p : Nat × String) : List (Nat × String) → List (Nat × String)
  | [] => [p]
  | q :: rest => if p.1 ≤ q.1 then p :: q :: rest else q :: insertSorted p rest

def render (st : St) : String :=
  let evs := st.events.map showEvent
  let sts := (st.subs.filterMap (fun (i, s) => (showPhase s).map (fun t => (i, t)))).foldr insertSorted []
  let e := if evs.isEmpty then "-" else ",".intercalate evs
  let s := if sts.isEmpty then "-" else ";".intercalate (sts.map (fun (i, t) => s!"{i}={t}"))
  s!"ev={e} st={s}"

def isReq : Phase → Bool
  | .reqL | .reqG | .reqP | .reqE _ | .reqB _ | .reqT | .reqRB _ => true
  | _ => false

def step0 (st : St) (line : String) : St × String :=
  let ws := words line
  match ws with
  | "new" :: _ => ({}, "ok")
  | "reset" :: _ => ({}, "ok")
  | "extract" :: _ =>
    match natListArg? ws "msg" with
    | some cps =>
      (st, match extractSequence (cps.map Char.ofNat) with
        | some n => s!"ok {n}"
        | none => "err")
    | none => (st, "bad-op")
  | _ =>
    match parseOp ws with
    | none => (st, "bad-op")
    | some op =>
      match op with
      | .ans i _ =>
        if !isReq (getSub st i).phase then (st, "no-pending")
        else let st' := Lumina.Model.TxSeq.step st op; (st', render st')
      | .start i _ _ =>
        if (getSub st i).phase != .idle then (st, "already-started")
        else let st' := Lumina.Model.TxSeq.step st op; (st', render st')

/-! ### spec: the ledger replayed over the IMPLEMENTATION's observed lines -/

open Lumina.Spec.C43

def parseTid (s : String) : Option Nat :=
  match s.toList with
  | 't' :: r => (String.ofList r).toNat?
  | _ => none

def parseEv (s : String) : Option OEv :=
  match s.toList with
  | 'S' :: r =>
    match (String.ofList r).splitOn ":" with
    | [i, seq, gas, fee, t] =>
      match i.toNat?, seq.toNat?, gas.toNat?, fee.toNat?, parseTid t with
      | some i, some seq, some gas, some fee, some t => some (.sign ⟨i, seq, gas, fee, t⟩)
      | _, _, _, _, _ => none
    | _ => none
  | 'D' :: r =>
    match (String.ofList r).splitOn ":" with
    | i :: rest =>
      match i.toNat? with
      | some i =>
        let res := ":".intercalate rest
        if res.startsWith "Rejected(" then
          ((res.drop 9).dropEnd 1).toString.toNat?.map (fun c => OEv.fin i (some c))
        else some (.fin i none)
      | none => none
    | _ => none
  | _ => none

def parsePend (s : String) : Option OPend :=
  match s.splitOn ":" with
  | ["L"] => some .L | ["G"] => some .G | ["P"] => some .P | ["wait"] => some .wait
  | ["E", t] => (parseTid t).map .E
  | ["B", t] => (parseTid t).map .B
  | ["T", t] => (parseTid t).map .T
  | _ => some .fin

def parseLine (obs : String) : Option OLine :=
  let os := words obs
  match arg? os "ev", arg? os "st" with
  | some e, some s =>
    let evs := if e == "-" then some [] else (e.splitOn ",").mapM parseEv
    let sts := if s == "-" then some [] else (s.splitOn ";").mapM (fun item =>
      match splitKV item with
      | some (i, p) => match i.toNat?, parsePend p with
        | some i, some p => some (i, p)
        | _, _ => none
      | none => none)
    match evs, sts with
    | some evs, some sts => some { events := evs, states := sts }
    | _, _ => none
  | _, _ => none

/-- the classification of answers and the observed line are the ones the theorems are about
    (`Props/C43.lean: ledger_accepts_every_run` is stated over `oLine` / `oAnswered`) -/
abbrev oAns := Lumina.Proofs.TxSeqLedger.oAns

/-- model step + cross-check: the line the model prints, parsed back the way the spec pass parses the
    implementation's line, must be exactly the observation `oLine` of the theorems; a difference is printed (and
    then shows up as a model/implementation disagreement) -/
def step (st : St) (line : String) : St × String :=
  let (st', out) := step0 st line
  if out.startsWith "ev=" then
    match parseLine out with
    | some l =>
      if reprStr l == reprStr (Lumina.Proofs.TxSeqLedger.oLine st') then (st', out)
      else (st', "OLINE-MISMATCH " ++ out)
    | none => (st', "OLINE-UNPARSED " ++ out)
  else (st', out)

/-- spec verdict and the ledger after the line -/
def specLine (l : Ledger) (op obs : String) : Ledger × String :=
  let ws := words op
  match ws with
  | "new" :: _ | "reset" :: _ => ({}, "specskip")
  | "extract" :: _ => (l, "specskip")
  | _ =>
    if obs == "no-pending" || obs == "already-started" || obs == "bad-op" then (l, "specskip")
    else
      match parseOp ws, parseLine obs with
      | some o, some line =>
        let answered := match o with
          | .ans i a => some (i, oAns a)
          | _ => none
        match ledgerStep l answered line with
        | .ok l' => (l', "specok")
        | .error fp => (l, s!"specfail {fp}")
      | _, _ => (l, "specfail C43/unparsed")

partial def loopSpec (inp out : IO.FS.Stream) (l : Ledger) : IO Unit := do
  let line ← inp.getLine
  if line.isEmpty then return ()
  let s := (line.dropEndWhile (fun c => c == '\n' || c == '\r')).toString
  match s.splitOn "\t=>\t" with
  | [op, obs] =>
    let (l', v) := specLine l op obs
    out.putStrLn v
    loopSpec inp out l'
  | _ =>
    out.putStrLn "specfail bad-line malformed spec line"
    loopSpec inp out l

def handler : Driver.Handler St := { init := {}, step := step, spec := fun _ _ _ => "specskip" }

end Driver.C43

def main (args : List String) : IO UInt32 := do
  match args with
  | ["spec"] =>
    let inp ← IO.getStdin
    let out ← IO.getStdout
    Driver.C43.loopSpec inp out {}
    out.flush
    return 0
  | _ => Driver.run Driver.C43.handler args

/-
  Shared by the group-D2 drivers (C07–C10): the concrete hash, the Reed–Solomon oracle (`enc` as a finite
  table of input/output pairs computed by the REAL leopard codec in the harness), line formats.
-/
import Driver.Common
import Lumina.Model.Sha256
import Lumina.Model.EdsCode

namespace Driver.D2Common
open Lumina.Util Lumina.Model.Nmt Lumina.Model.Eds Lumina.Model.EdsCode

/-- the concrete hash of the implementation -/
def sha : HashFn := Lumina.Model.Sha256.hash

/-- a finite function table: the codec calls whose results the harness recorded from the real codec -/
abbrev Table := List (List Bytes × List Bytes)

/-- the encoder defined by a table (unknown input ↦ `[]`, which can only make the model disagree) -/
def encOf (t : Table) (inp : List Bytes) : List Bytes :=
  match t.find? (fun p => p.1 == inp) with
  | some p => p.2
  | none => []

/-- the table of the `3k` encoder calls of `from_ods`, from the three parity quadrants the real codec produced
    (each row-major `k × k`): rows of Q0 ↦ rows of Q1, columns of Q0 ↦ columns of Q2, rows of Q2 ↦ rows of Q3 -/
def tableOfQuadrants (k : Nat) (q0 q1 q2 q3 : List Bytes) : Table :=
  (sqRows k q0).zip (sqRows k q1) ++ (sqCols k q0).zip (sqCols k q2) ++ (sqRows k q2).zip (sqRows k q3)

/-- the extended square (row-major, width `2k`) assembled from its four quadrants -/
def assemble (k : Nat) (q0 q1 q2 q3 : List Bytes) : List Bytes :=
  (((sqRows k q0).zip (sqRows k q1)).map (fun p => p.1 ++ p.2) ++
   ((sqRows k q2).zip (sqRows k q3)).map (fun p => p.1 ++ p.2)).flatten

def showRoots (l : List NsHash) : String := showHexList (l.map NsHash.toBytes)

def parseRoots (ws : List String) (key : String) : Option (List NsHash) :=
  (hexListArg? ws key).bind (fun l => l.mapM NsHash.ofBytes?)

def parseDah (ws : List String) : Option Dah :=
  match parseRoots ws "rows", parseRoots ws "cols" with
  | some r, some c => some ⟨r, c⟩
  | _, _ => none

def showEds (e : Eds) : String :=
  s!"ok w={e.width} par={String.ofList (e.shares.map (fun s => if s.isParity then '1' else '0'))} data={showHexList (e.shares.map Share.data)}"

end Driver.D2Common

import Driver.D2Common
import Lumina.Model.Befp
import Lumina.Spec.C07

open Lumina.Util Lumina.Model.Nmt Lumina.Model.Eds Lumina.Model.EdsCode Driver.D2Common
open Lumina.Model.Decoders (RawBefp RawBefpShare RawProof befpFromRaw Out)
open Lumina.Model.Befp (Codec validate validateUnfixed BErr)

namespace Driver.C07

def parseHexList (s : String) : Option (List Bytes) :=
  if s == "-" then some []
  else (s.splitOn ",").mapM (fun t => if t == "_" then some [] else fromHexChars t.toList)

/-- `data/hasproof/start/end/nodes/leaf/ign/proofaxis` -/
def parseShareWord (w : String) : Option RawBefpShare :=
  match w.splitOn "/" with
  | [data, hp, st, en, nodes, leaf, ign, pax] =>
    match fromHex data, pax.toInt? with
    | some d, some pa =>
      if hp == "0" then some ⟨d, none, pa⟩
      else
        match st.toNat?, en.toNat?, parseHexList nodes, fromHex leaf with
        | some st, some en, some nodes, some leaf => some ⟨d, some ⟨st, en, nodes, leaf, ign == "1"⟩, pa⟩
        | _, _, _, _ => none
    | _, _ => none
  | _ => none

def allArgs (ws : List String) (key : String) : List String :=
  ws.filterMap (fun w => match splitKV w with
    | some (k, v) => if k == key then some v else none
    | none => none)

def codecOf (ws : List String) : Codec :=
  { recon := fun _ => (hexListArg? ws "rec").getD []
    enc := fun _ => (hexListArg? ws "par").getD [] }

def showRes : Except BErr Unit → String
  | .ok () => "ok"
  | .error .panic => "panic"
  | .error (.rangeProof .panic) => "panic"
  | .error e => s!"err {e.kind}"

def runModel (unfixed : Bool) (ws : List String) : String :=
  match natArg? ws "hh", parseDah ws, natArg? ws "height", natArg? ws "index", (arg? ws "axis").bind String.toInt?,
        (allArgs ws "sh").mapM parseShareWord with
  | some hh, some dah, some height, some index, some axis, some shares =>
    let raw : RawBefp := ⟨List.replicate 32 0, height, shares, index, axis⟩
    match befpFromRaw raw with
    | .panic _ => "panic"
    | .err => "err-decode"
    | .ok p => showRes ((if unfixed then validateUnfixed else validate) sha (codecOf ws) p hh dah)
  | _, _, _, _, _, _ => "bad-op"

def step (_ : Unit) (line : String) : Unit × String :=
  let ws := words line
  match ws with
  | "reset" :: _ => ((), "ok")
  | "validate" :: _ => ((), runModel false ws)
  | "validate_u" :: _ => ((), runModel true ws)
  | _ => ((), "bad-op")

def spec (_ : Unit) (op : String) (obs : String) : String :=
  let ws := words op
  let os := words obs
  match ws with
  | "reset" :: _ => "specskip"
  | opn :: _ =>
    if opn != "validate" && opn != "validate_u" then "specfail C07/unparsed" else
    let o? : Option Lumina.Spec.C07.Obs := match os with
      | "ok" :: _ => some .ok
      | "err" :: _ => some .err
      | "err-decode" :: _ => some .err
      | "panic" :: _ => some .panic
      | _ => none
    -- ground truth: `axisdata` from the line (bound to the header below), parity and honesty from `obs=`, which the
    -- harness recomputes from the line with the real codec / nmt-rs on every run, corpus and replay lines included
    let obsParts : Option (Bool × List Bytes) :=
      match (arg? ws "obs").map (fun o => o.splitOn "/") with
      | some [h, par] => (parseHexList par).map (fun p => (h == "1", p))
      | _ => none
    match o?, arg? ws "axisdata", obsParts, parseDah ws, natArg? ws "index", (arg? ws "axis").bind String.toInt? with
    | some o, some ad, some (honest, axpar), some dah, some index, some axisI =>
      let axis : Option (List Bytes) := if ad == "none" then none else parseHexList ad
      -- (S9) `axisns=`: the namespaces the axis leaves were COMMITTED under, when the block producer did not follow the
      -- protocol's rule (first quadrant: the share's own first 29 bytes; elsewhere the parity namespace)
      let ruleNs (a : List Bytes) (i : Nat) : Bytes :=
        if index < a.length / 2 ∧ i < a.length / 2 then (a.getD i []).take 29 else List.replicate 29 255
      let committedNs : Option (List Bytes) := (arg? ws "axisns").bind parseHexList
      -- the axis shares on the line must be the ones the header commits to: their NMT root is the DAH's root
      let bound : Bool :=
        match axis with
        | none => true
        | some a =>
          let w := a.length
          let leaves := (List.range w).map (fun i =>
            let d := a.getD i []
            hashLeaf sha (match committedNs with
              | some nss => nss.getD i []
              | none => ruleNs a i) d)
          let expected := if axisI = 0 then dah.rowRoot? index else dah.colRoot? index
          match computeRoot sha true leaves with
          | .ok r => expected == some r
          | .error _ => false
      -- "a codeword CONSISTENT WITH ITS ROOT": the root must be the one the protocol's rule gives for these shares
      let consistent : Bool :=
        match axis, committedNs with
        | some a, some nss => nss == (List.range a.length).map (ruleNs a)
        | _, _ => true
      if !bound then "specfail C07/stale-ground-truth the axis shares on the line are not the ones the header's DAH commits to"
      else if o == .panic then "specfail C07/validate-panic validate panicked"
      else if !consistent then
        -- the committed root is not the root of these shares under the protocol's leaf-namespace rule: whatever the
        -- shares are, the axis is not "a codeword consistent with its root"; no soundness obligation, and an honest
        -- proof (each share proven at its own position under the namespace it was committed with) must validate
        if honest && o != .ok then
          "specfail C07/honest-fraud-proof-rejected an honest proof of an axis committed under forged leaf namespaces did not validate"
        else "specok"
      -- an axis wider than the 256 shards of the codec has no reference encoding: nothing can be proven about it, so no
      -- proof may validate (and there is no completeness obligation)
      else if Lumina.Spec.C07.specValidate (fun _ => axpar) (match axis with | some a => if a.length > 256 then none else some a | none => none)
          honest o then "specok"
      else if o == .ok then
        "specfail C07/fraud-proof-accepted-for-codeword a fraud proof validated although the indicated axis is a correctly encoded codeword (or is no axis of the block)"
      else "specfail C07/honest-fraud-proof-rejected an honest proof of a corrupted axis did not validate"
    | _, _, _, _, _, _ => "specfail C07/unparsed"
  | [] => "specfail C07/unparsed"

def handler : Driver.Handler Unit := { init := (), step := step, spec := spec }

end Driver.C07

def main (args : List String) : IO UInt32 := Driver.run Driver.C07.handler args

import Driver.Common
import Lumina.Model.Commitment
import Lumina.Spec.C12

open Lumina.Util Lumina.Model

namespace Driver.C12

def H : Merkle.HashFns Bytes := Merkle.sha256Fns
def h : Nmt.HashFn := Sha256.hash

/-- deterministic test data shared with the harness: byte i = ((seed + i) * 167 + (i / 256) * 13) mod 256 -/
def genData (seed len : Nat) : Bytes :=
  (List.range len).map (fun i => UInt8.ofNat (((seed + i) * 167 + (i / 256) * 13) % 256))

/-- `data=<hex>` or `gen=<seed>:<len>` -/
def dataArg? (ws : List String) : Option Bytes :=
  match hexArg? ws "data" with
  | some d => some d
  | none =>
    match arg? ws "gen" with
    | some s =>
      match s.splitOn ":" with
      | [a, b] => match a.toNat?, b.toNat? with
        | some a, some b => some (genData a b)
        | _, _ => none
      | _ => none
    | none => none

def parseSigner (s : String) : Option (Option Bytes) :=
  if s == "-" then some none else (fromHex s).map some

def step (_ : Unit) (line : String) : Unit × String :=
  let ws := words line
  let out : String :=
    match ws with
    | "reset" :: _ => "ok"
    | "sizes" :: _ =>
      match natArg? ws "n", natArg? ws "app" with
      | some n, some app =>
        match Commitment.subtreeRootThreshold app with
        | none => "err UnknownAppVersion"
        | some th =>
          let w := Commitment.subtreeWidth n th
          s!"ok w={w} sizes={showNatList (Commitment.merkleMountainRangeSizes n w)}"
      | _, _ => "bad-op"
    | "width" :: _ =>
      match natArg? ws "n", natArg? ws "app" with
      | some n, some app =>
        match Commitment.subtreeRootThreshold app with
        | none => "err UnknownAppVersion"
        | some th => s!"ok w={Commitment.subtreeWidth n th}"
      | _, _ => "bad-op"
    | "commit" :: _ =>
      match hexArg? ws "ns", dataArg? ws, (arg? ws "signer").bind parseSigner, natArg? ws "app" with
      | some ns, some data, some signer, some app =>
        let ver := if signer.isNone then 0 else 1
        match Commitment.fromBlob H h ns data ver signer app with
        | .error e => s!"err {e.kind}"
        | .ok c => s!"ok c={toHex c}"
      | _, _, _, _ => "bad-op"
    | "validate" :: _ =>
      match hexArg? ws "ns", dataArg? ws, (arg? ws "signer").bind parseSigner, natArg? ws "ver", natArg? ws "app",
            hexArg? ws "stored" with
      | some ns, some data, some signer, some ver, some app, some stored =>
        match Commitment.validate H h ⟨ns, data, ver, signer⟩ stored app with
        | .ok => "ok"
        | .mismatch => "mismatch"
        | .err e => s!"err {e.kind}"
      | _, _, _, _, _, _ => "bad-op"
    | _ => "bad-op"
  ((), out)

def verdict (name : String) (b : Bool) : String :=
  if b then "specok" else s!"specfail {name}"

open Lumina.Spec.C12 in
def spec (_ : Unit) (op : String) (obs : String) : String :=
  let ws := words op
  let os := words obs
  match ws with
  | "reset" :: _ => "specskip"
  | "sizes" :: _ =>
    match natArg? ws "n", natArg? ws "app", os with
    | some n, some _, "ok" :: _ =>
      if n > 200000 then "specskip"
      else
        match natArg? os "w", natListArg? os "sizes" with
        | some w, some sizes =>
          verdict "C12/sizes" (w == subtreeWidth n 64 && specSizes n w sizes && sizes == mmrSizes w n n)
        | _, _ => "specfail C12/unparsed"
    | _, _, _ => "specfail C12/unparsed"
  | "width" :: _ =>
    match natArg? ws "n", os with
    | some n, "ok" :: _ =>
      if n > 200000 then "specskip"
      else match natArg? os "w" with
        | some w => verdict "C12/width" (w == subtreeWidth n 64)
        | none => "specfail C12/unparsed"
    | _, _ => "specfail C12/unparsed"
  | "commit" :: _ =>
    match hexArg? ws "ns", dataArg? ws, (arg? ws "signer").bind parseSigner, natArg? ws "app" with
    | some ns, some data, some signer, some app =>
      if !Lumina.Spec.C11.inScope ns data signer app then "specskip"
      else
        match os with
        | "ok" :: _ =>
          match hexArg? os "c" with
          | some c => verdict "C12/commitment" (c == blobCommitment H h ns data signer 64)
          | none => "specfail C12/unparsed"
        | _ => "specfail C12/commitment"
    | _, _, _, _ => "specfail C12/unparsed"
  | "validate" :: _ =>
    match hexArg? ws "ns", dataArg? ws, (arg? ws "signer").bind parseSigner, natArg? ws "ver", natArg? ws "app",
          hexArg? ws "stored" with
    | some ns, some data, some signer, some ver, some app, some stored =>
      if !Lumina.Spec.C11.inScope ns data signer app || ver != (if signer.isSome then 1 else 0) then "specskip"
      else
        let r : VRes := match os with
          | "ok" :: _ => .ok
          | "mismatch" :: _ => .mismatch
          | _ => .err
        verdict "C12/validate" (specValidate H h ns data signer 64 stored r)
    | _, _, _, _, _, _ => "specfail C12/unparsed"
  | _ => "specfail C12/unparsed"

def handler : Driver.Handler Unit := { init := (), step := step, spec := spec }

end Driver.C12

def main (args : List String) : IO UInt32 := Driver.run Driver.C12.handler args

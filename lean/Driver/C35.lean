/-
  Driver for C35 (pruner batch selection and removal loop).

    chain times=t1,..,tn            header time of height i is t_i; empty store, no worker
    insert rs=s-e,..                store.insert of each range (insertion constraints apply)   -> ok | err
    remove hs=h,..                  store.remove_height (ignored when not stored)
    sample hs=h,..                  store.mark_as_sampled (ignored when not stored)
    meta h=H cids=c,..              store.update_sampling_metadata (ignored when not stored)
    worker sc=S pc=P                new pruner worker; S/P = the cutoffs its windows give in `run`
    batch sc=S pc=P refresh=0|1 refuse=h,..    Worker::get_next_prunable_batch; Daser refuses exactly `refuse`
    run refuse=h:k,..               Worker::run until idle; the Daser refuses the first k requests for h
  results
    batch: `ok batch=[..] cache=<afterSampling>/<afterPruning> prev=N msgs=<H12,N30,W9+,W8-|->`
    run:   `ok msgs=.. effs=<C7,C8,X5,..|-> events=<1-5,..|-> stored=[..] pruned=[..] cache=../.. prev=N`
-/
import Driver.Common
import Driver.RangesIO
import Lumina.Model.Pruner
import Lumina.Spec.C35
import Lumina.Gen.C35

open Lumina.Util Lumina.Model.Ranges Lumina.Model.Pruner Driver.RangesIO

namespace Driver.C35

def LIMIT : Nat := Lumina.Gen.C35.MAX_PRUNABLE_BATCH_SIZE

structure St where
  times : List Nat := []
  store : PStore := {}
  worker : Option Worker := none
  /-- cutoffs of the worker's windows (for `run`) -/
  wsc : Nat := 0
  wpc : Nat := 0
  /-- the cutoffs (half ticks) of the call in which the worker's cached window edges were last set:
      a cached edge is right for every cutoff at or above the one it was computed with -/
  edgeSc : Nat := 0
  edgePc : Nat := 0

def showErr : PErr → String
  | .storeNotFound => "err store-not-found"
  | .panic => "panic"
  | .diverge => "err diverge"
  | .daser => "err daser"

def showOpt : Option Nat → String
  | some n => toString n
  | none => "-"

def showCache (c : Cache) : String := s!"{showOpt c.afterSampling}/{showOpt c.afterPruning}"

def showMsg : Msg → String
  | .updateHighest h => s!"H{h}"
  | .updateNum n => s!"N{n}"
  | .wantToPrune h a => s!"W{h}{if a then "+" else "-"}"

def showList (l : List String) : String := if l.isEmpty then "-" else ",".intercalate l

def showEffs (effs : List Eff) : String :=
  showList (effs.filterMap fun e => match e with
    | .bsRemove c => some s!"C{c}"
    | .removeHeight h => some s!"X{h}"
    | .prunedEvent _ _ => none)

def showEvents (effs : List Eff) : String :=
  showList (effs.filterMap fun e => match e with
    | .prunedEvent a b => some s!"{a}-{b}"
    | _ => none)

/-- `5:2,7:999` -/
def parseCounters (s : String) : Option (List (Nat × Nat)) :=
  if s == "-" then some []
  else (s.splitOn ",").mapM fun t =>
    match t.splitOn ":" with
    | [a, b] => match a.toNat?, b.toNat? with
      | some x, some y => some (x, y)
      | _, _ => none
    | _ => none

def counter (cs : List (Nat × Nat)) (h : Nat) : Nat :=
  match cs.find? (fun p => p.1 == h) with
  | some p => p.2
  | none => 0

/-- the refusals consumed by one iteration -/
def consume (cs : List (Nat × Nat)) (msgs : List Msg) : List (Nat × Nat) :=
  cs.map fun p =>
    if msgs.any (fun m => m == Msg.wantToPrune p.1 false) then (p.1, p.2 - 1) else p

/-- the `Worker::run` loop until the batch is empty.  `fuel` only bounds the driver's loop (every
    productive iteration removes a stored height); the model functions themselves have no fuel. -/
def runLoop : Nat → PStore → Worker → Nat → Nat → Bool → List (Nat × Nat) → List Msg → List Eff →
    Except PErr (PStore × Worker × List Msg × List Eff)
  | 0, s, w, _, _, _, _, msgs, effs => .ok (s, w, msgs, effs)
  | fuel + 1, s, w, sc, pc, refresh, cs, msgs, effs =>
    match runIteration LIMIT s w sc pc refresh (fun h => counter cs h == 0) with
    | .error e => .error e
    | .ok (s', w', batch, m, e) =>
      if isEmpty batch then .ok (s', w', msgs ++ m, effs ++ e)
      else runLoop fuel s' w' sc pc false (consume cs m) (msgs ++ m) (effs ++ e)

/-- Model time runs in half ticks: header time `t` ↦ `2t`, the cutoff of a `batch` op `c` ↦ `2c`
    (ties possible), the cutoff of a `run` op ↦ `2c + 1` (the real loop computes `now − window`,
    which the harness places half a tick after tick `c`). -/
def time (times : List Nat) (h : Nat) : Nat := if h = 0 then 0 else 2 * times.getD (h - 1) 0

/-- tolerant store mutations of the harness -/
def doInsert (s : PStore) (n : Nat) (r : Range) : Option PStore :=
  if r.2 > n then none
  else
    match checkInsertionConstraints s.stored r with
    | .error _ => none
    | .ok _ =>
      match insertRelaxed s.stored r, removeRelaxed s.sampled r, removeRelaxed s.pruned r with
      | .ok st, .ok sa, .ok pr => some { s with stored := st, sampled := sa, pruned := pr }
      | _, _, _ => none

def doRemove (s : PStore) (h : Nat) : PStore :=
  match s.removeHeight h with
  | .ok s' => s'
  | .error _ => s

def doSample (s : PStore) (h : Nat) : PStore :=
  if contains s.stored h then
    match insertRelaxed s.sampled (h, h) with
    | .ok sa => { s with sampled := sa }
    | .error _ => s
  else s

def doMeta (s : PStore) (h : Nat) (cids : List Nat) : PStore :=
  if contains s.stored h then
    let old := s.cids h
    let new := cids.foldl (fun acc c => if acc.contains c then acc else acc ++ [c]) old
    { s with cids := fun x => if x = h then new else s.cids x }
  else s

def step (st : St) (line : String) : St × String :=
  let ws := words line
  match ws with
  | "reset" :: _ => ({}, "ok")
  | "chain" :: _ =>
    match natListArg? ws "times" with
    | some ts => ({ times := ts, store := { time := time ts } }, "ok")
    | none => (st, "bad-op")
  | "insert" :: _ =>
    match rangesArg? ws "rs" with
    | some rs =>
      let go := rs.foldl (fun (acc : PStore × Bool) r =>
        if acc.2 then
          match doInsert acc.1 st.times.length r with
          | some s' => (s', true)
          | none => (acc.1, false)
        else acc) (st.store, true)
      ({ st with store := go.1 }, if go.2 then "ok" else "err")
    | none => (st, "bad-op")
  | "remove" :: _ =>
    match natListArg? ws "hs" with
    | some hs => ({ st with store := hs.foldl doRemove st.store }, "ok")
    | none => (st, "bad-op")
  | "sample" :: _ =>
    match natListArg? ws "hs" with
    | some hs => ({ st with store := hs.foldl doSample st.store }, "ok")
    | none => (st, "bad-op")
  | "meta" :: _ =>
    match natArg? ws "h", natListArg? ws "cids" with
    | some h, some cids => ({ st with store := doMeta st.store h cids }, "ok")
    | _, _ => (st, "bad-op")
  | "worker" :: _ =>
    match natArg? ws "sc", natArg? ws "pc" with
    | some sc, some pc =>
      ({ st with worker := some {}, wsc := 2 * sc + 1, wpc := 2 * pc + 1, edgeSc := 0, edgePc := 0 }, "ok")
    | _, _ => (st, "bad-op")
  | "batch" :: _ =>
    match st.worker, natArg? ws "sc", natArg? ws "pc", natArg? ws "refresh", natListArg? ws "refuse" with
    | some w, some sc0, some pc0, some rf, some refuse =>
      let sc := 2 * sc0
      let pc := 2 * pc0
      let refresh := rf != 0
      match getNextPrunableBatch LIMIT st.store w sc pc refresh (fun h => !(refuse.contains h)) with
      | .error e => (st, showErr e)
      | .ok (batch, w', msgs) =>
        ({ st with worker := some w',
                   edgeSc := if w'.cache.afterSampling != w.cache.afterSampling then sc else st.edgeSc,
                   edgePc := if w'.cache.afterPruning != w.cache.afterPruning then pc else st.edgePc },
          s!"ok batch={showRanges batch} cache={showCache w'.cache} prev={w'.prevNum} msgs={showList (msgs.map showMsg)}")
    | _, _, _, _, _ => (st, "bad-op")
  | "run" :: _ =>
    match st.worker, (arg? ws "refuse").bind parseCounters with
    | some w, some cs =>
      let fuel := (heights st.store.stored).length + 2
      match runLoop fuel st.store w st.wsc st.wpc true cs [] [] with
      | .error e => (st, showErr e)
      | .ok (s', w', msgs, effs) =>
        ({ st with store := s', worker := some w',
                   edgeSc := if w'.cache.afterSampling != w.cache.afterSampling then st.wsc else st.edgeSc,
                   edgePc := if w'.cache.afterPruning != w.cache.afterPruning then st.wpc else st.edgePc },
          s!"ok msgs={showList (msgs.map showMsg)} effs={showEffs effs} events={showEvents effs} " ++
          s!"stored={showRanges s'.stored} pruned={showRanges s'.pruned} cache={showCache w'.cache} prev={w'.prevNum}")
    | _, _ => (st, "bad-op")
  | _ => (st, "bad-op")

/-! ### `specOK` on the implementation's observed results -/

open Lumina.Spec.C35

def view (st : St) (sc pc : Nat) : View :=
  { stored := heights st.store.stored, pruned := heights st.store.pruned,
    sampled := heights st.store.sampled, time := st.store.time, sc := sc, pc := pc }

/-- `W9+` ↦ (9, true) -/
def parseAnswers (s : String) : List (Nat × Bool) :=
  if s == "-" then []
  else (s.splitOn ",").filterMap fun t =>
    match t.toList with
    | 'W' :: rest =>
      let digits := rest.takeWhile Char.isDigit
      match (String.ofList digits).toNat?, rest.dropWhile Char.isDigit with
      | some h, ['+'] => some (h, true)
      | some h, ['-'] => some (h, false)
      | _, _ => none
    | _ => none

def parseLog (s : String) : Option (List Ev) :=
  if s == "-" then some []
  else (s.splitOn ",").mapM fun t =>
    match t.toList with
    | 'C' :: rest => (String.ofList rest).toNat?.map Ev.cid
    | 'X' :: rest => (String.ofList rest).toNat?.map Ev.height
    | _ => none

/-- Verdict for a result that fails the checker at the call's own cutoffs.  KNOWN class
    (`known_findings.json`): the cutoff of this call is LOWER than the cutoff at which a cached
    window edge was computed (the clock ran backwards) and the result passes the checker once each
    cutoff is replaced by the larger one the cached edge was right for.  Anything else is a new
    violation. -/
def staleVerdict (st st' : St) (sc pc : Nat) (okAt : Nat → Nat → Bool) (other : String) : String :=
  let stale := decide (sc < st'.edgeSc) || decide (pc < st'.edgePc)
  if stale && okAt (max sc st'.edgeSc) (max pc st'.edgePc) then
    s!"specfail C35/backward-clock-stale-cached-edge cutoffs {sc}/{pc} are below the cutoffs {st.edgeSc}/{st.edgePc} " ++
      "the cached window edges were computed with; heights inside the window are in the batch"
  else other

def spec (st : St) (op : String) (obs : String) : String :=
  let ws := words op
  let os := words obs
  -- the model's state after the op: tells at which cutoffs the cached edges are (still) from
  let st' := (step st op).1
  match ws with
  | "batch" :: _ =>
    match natArg? ws "sc", natArg? ws "pc" with
    | some sc0, some pc0 =>
      let sc := 2 * sc0
      let pc := 2 * pc0
      match os with
      | "ok" :: _ =>
        match (arg? os "batch").bind parseRanges, arg? os "msgs" with
        | some batch, some msgs =>
          let okAt := fun (a b : Nat) => batchOK (view st a b) (parseAnswers msgs) (heights batch)
          if okAt sc pc then "specok"
          else staleVerdict st st' sc pc okAt
            "specfail C35/batch-unsafe-height the batch contains a height that must not be removed"
        | _, _ => "specfail C35/bad-result unparsable"
      -- a failed call removes nothing (a fatal pruner error is not a violation of C35)
      | _ => "specskip"
    | _, _ => "specskip"
  | "run" :: _ =>
    match os with
    | "ok" :: _ =>
      match arg? os "msgs", (arg? os "effs").bind parseLog with
      | some msgs, some log =>
        let okAt := fun (a b : Nat) =>
          (removedHeights log).all (fun h => (view st a b).removable (lastAnswer (parseAnswers msgs)) h)
        if !orderOK st.store.cids log [] then
          "specfail C35/run-header-before-cids remove_height before the blockstore removals"
        else if okAt st.wsc st.wpc then "specok"
        else staleVerdict st st' st.wsc st.wpc okAt
          "specfail C35/run-removed-unsafe-height a removed height was not removable"
      | _, _ => "specfail C35/bad-result unparsable"
    | _ => "specskip"
  | _ => "specskip"

def handler : Driver.Handler St := { init := {}, step := step, spec := spec }

end Driver.C35

def main (args : List String) : IO UInt32 := Driver.run Driver.C35.handler args

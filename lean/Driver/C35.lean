/-
  Driver for C35 (pruner batch selection and removal loop).

    chain times=t1,..,tn            header time of height i is t_i; empty store, no worker
    insert rs=s-e,..                store.insert of each range (insertion constraints apply)   -> ok | err
    remove hs=h,..                  store.remove_height (ignored when not stored)
    sample hs=h,..                  store.mark_as_sampled (ignored when not stored)
    meta h=H cids=c,..              store.update_sampling_metadata (ignored when not stored)
    worker sc=S pc=P                new pruner worker; S/P = the cutoffs its windows give in `run`
    batch sc=S pc=P refresh=0|1 refuse=h,..    Worker::get_next_prunable_batch; Daser refuses exactly `refuse`
    run refuse=h:k,..               Worker::run until idle; the Daser refuses the first k requests for h
  results
    batch: `ok batch=[..] cache=<afterSampling>/<afterPruning> prev=N msgs=<H12,N30,W9+,W8-|->`
    run:   `ok msgs=.. effs=<C7,C8,X5,..|-> events=<1-5,..|-> stored=[..] pruned=[..] cache=../.. prev=N`
-/
import Driver.Common
import Driver.RangesIO
import Lumina.Model.Pruner
import Lumina.Spec.C35
import Lumina.Gen.C35

open Lumina.Util Lumina.Model.Ranges Lumina.Model.Pruner Driver.RangesIO

namespace Driver.C35

def LIMIT : Nat := Lumina.Gen.C35.MAX_PRUNABLE_BATCH_SIZE

structure St where
  times : List Nat := []
  store : PStore := {}
  worker : Option Worker := none
  /-- cutoffs of the worker's windows (for `run`) -/
  wsc : Nat := 0
  wpc : Nat := 0
  /-- largest cutoffs this worker has refreshed its cache with; `tainted` once a cutoff went backwards -/
  maxSc : Nat := 0
  maxPc : Nat := 0
  tainted : Bool := false

def showErr : PErr → String
  | .storeNotFound => "err store-not-found"
  | .panic => "panic"
  | .diverge => "err diverge"
  | .daser => "err daser"

def showOpt : Option Nat → String
  | some n => toString n
  | none => "-"

def showCache (c : Cache) : String := s!"{showOpt c.afterSampling}/{showOpt c.afterPruning}"

def showMsg : Msg → String
  | .updateHighest h => s!"H{h}"
  | .updateNum n => s!"N{n}"
  | .wantToPrune h a => s!"W{h}{if a then "+" else "-"}"

def showList (l : List String) : String := if l.isEmpty then "-" else ",".intercalate l

def showEffs (effs : List Eff) : String :=
  showList (effs.filterMap fun e => match e with
    | .bsRemove c => some s!"C{c}"
    | .removeHeight h => some s!"X{h}"
    | .prunedEvent _ _ => none)

def showEvents (effs : List Eff) : String :=
  showList (effs.filterMap fun e => match e with
    | .prunedEvent a b => some s!"{a}-{b}"
    | _ => none)

/-- `5:2,7:999` -/
def parseCounters (s : String) : Option (List (Nat × Nat)) :=
  if s == "-" then some []
  else (s.splitOn ",").mapM fun t =>
    match t.splitOn ":" with
    | [a, b] => match a.toNat?, b.toNat? with
      | some x, some y => some (x, y)
      | _, _ => none
    | _ => none

def counter (cs : List (Nat × Nat)) (h : Nat) : Nat :=
  match cs.find? (fun p => p.1 == h) with
  | some p => p.2
  | none => 0

/-- the refusals consumed by one iteration -/
def consume (cs : List (Nat × Nat)) (msgs : List Msg) : List (Nat × Nat) :=
  cs.map fun p =>
    if msgs.any (fun m => m == Msg.wantToPrune p.1 false) then (p.1, p.2 - 1) else p

/-- the `Worker::run` loop until the batch is empty.  `fuel` only bounds the driver's loop (every
    productive iteration removes a stored height); the model functions themselves have no fuel. -/
def runLoop : Nat → PStore → Worker → Nat → Nat → Bool → List (Nat × Nat) → List Msg → List Eff →
    Except PErr (PStore × Worker × List Msg × List Eff)
  | 0, s, w, _, _, _, _, msgs, effs => .ok (s, w, msgs, effs)
  | fuel + 1, s, w, sc, pc, refresh, cs, msgs, effs =>
    match runIteration LIMIT s w sc pc refresh (fun h => counter cs h == 0) with
    | .error e => .error e
    | .ok (s', w', batch, m, e) =>
      if isEmpty batch then .ok (s', w', msgs ++ m, effs ++ e)
      else runLoop fuel s' w' sc pc false (consume cs m) (msgs ++ m) (effs ++ e)

/-- Model time runs in half ticks: header time `t` ↦ `2t`, the cutoff of a `batch` op `c` ↦ `2c`
    (ties possible), the cutoff of a `run` op ↦ `2c + 1` (the real loop computes `now − window`,
    which the harness places half a tick after tick `c`). -/
def time (times : List Nat) (h : Nat) : Nat := if h = 0 then 0 else 2 * times.getD (h - 1) 0

/-- tolerant store mutations of the harness -/
def doInsert (s : PStore) (n : Nat) (r : Range) : Option PStore :=
  if r.2 > n then none
  else
    match checkInsertionConstraints s.stored r with
    | .error _ => none
    | .ok _ =>
      match insertRelaxed s.stored r, removeRelaxed s.sampled r, removeRelaxed s.pruned r with
      | .ok st, .ok sa, .ok pr => some { s with stored := st, sampled := sa, pruned := pr }
      | _, _, _ => none

def doRemove (s : PStore) (h : Nat) : PStore :=
  match s.removeHeight h with
  | .ok s' => s'
  | .error _ => s

def doSample (s : PStore) (h : Nat) : PStore :=
  if contains s.stored h then
    match insertRelaxed s.sampled (h, h) with
    | .ok sa => { s with sampled := sa }
    | .error _ => s
  else s

def doMeta (s : PStore) (h : Nat) (cids : List Nat) : PStore :=
  if contains s.stored h then
    let old := s.cids h
    let new := cids.foldl (fun acc c => if acc.contains c then acc else acc ++ [c]) old
    { s with cids := fun x => if x = h then new else s.cids x }
  else s

def step (st : St) (line : String) : St × String :=
  let ws := words line
  match ws with
  | "reset" :: _ => ({}, "ok")
  | "chain" :: _ =>
    match natListArg? ws "times" with
    | some ts => ({ times := ts, store := { time := time ts } }, "ok")
    | none => (st, "bad-op")
  | "insert" :: _ =>
    match rangesArg? ws "rs" with
    | some rs =>
      let go := rs.foldl (fun (acc : PStore × Bool) r =>
        if acc.2 then
          match doInsert acc.1 st.times.length r with
          | some s' => (s', true)
          | none => (acc.1, false)
        else acc) (st.store, true)
      ({ st with store := go.1 }, if go.2 then "ok" else "err")
    | none => (st, "bad-op")
  | "remove" :: _ =>
    match natListArg? ws "hs" with
    | some hs => ({ st with store := hs.foldl doRemove st.store }, "ok")
    | none => (st, "bad-op")
  | "sample" :: _ =>
    match natListArg? ws "hs" with
    | some hs => ({ st with store := hs.foldl doSample st.store }, "ok")
    | none => (st, "bad-op")
  | "meta" :: _ =>
    match natArg? ws "h", natListArg? ws "cids" with
    | some h, some cids => ({ st with store := doMeta st.store h cids }, "ok")
    | _, _ => (st, "bad-op")
  | "worker" :: _ =>
    match natArg? ws "sc", natArg? ws "pc" with
    | some sc, some pc =>
      ({ st with worker := some {}, wsc := 2 * sc + 1, wpc := 2 * pc + 1, maxSc := 0, maxPc := 0, tainted := false }, "ok")
    | _, _ => (st, "bad-op")
  | "batch" :: _ =>
    match st.worker, natArg? ws "sc", natArg? ws "pc", natArg? ws "refresh", natListArg? ws "refuse" with
    | some w, some sc0, some pc0, some rf, some refuse =>
      let sc := 2 * sc0
      let pc := 2 * pc0
      let refresh := rf != 0
      let st1 : St :=
        if refresh then
          { st with tainted := st.tainted || decide (sc < st.maxSc) || decide (pc < st.maxPc),
                    maxSc := max st.maxSc sc, maxPc := max st.maxPc pc }
        else { st with tainted := st.tainted || decide (sc < st.maxSc) || decide (pc < st.maxPc) }
      match getNextPrunableBatch LIMIT st.store w sc pc refresh (fun h => !(refuse.contains h)) with
      | .error e => (st1, showErr e)
      | .ok (batch, w', msgs) =>
        ({ st1 with worker := some w' },
          s!"ok batch={showRanges batch} cache={showCache w'.cache} prev={w'.prevNum} msgs={showList (msgs.map showMsg)}")
    | _, _, _, _, _ => (st, "bad-op")
  | "run" :: _ =>
    match st.worker, (arg? ws "refuse").bind parseCounters with
    | some w, some cs =>
      let st1 : St :=
        { st with tainted := st.tainted || decide (st.wsc < st.maxSc) || decide (st.wpc < st.maxPc),
                  maxSc := max st.maxSc st.wsc, maxPc := max st.maxPc st.wpc }
      let fuel := (heights st.store.stored).length + 2
      match runLoop fuel st.store w st.wsc st.wpc true cs [] [] with
      | .error e => (st1, showErr e)
      | .ok (s', w', msgs, effs) =>
        ({ st1 with store := s', worker := some w' },
          s!"ok msgs={showList (msgs.map showMsg)} effs={showEffs effs} events={showEvents effs} " ++
          s!"stored={showRanges s'.stored} pruned={showRanges s'.pruned} cache={showCache w'.cache} prev={w'.prevNum}")
    | _, _ => (st, "bad-op")
  | _ => (st, "bad-op")

/-! ### `specOK` on the implementation's observed results -/

open Lumina.Spec.C35

def view (st : St) (sc pc : Nat) : View :=
  { stored := heights st.store.stored, pruned := heights st.store.pruned,
    sampled := heights st.store.sampled, time := st.store.time, sc := sc, pc := pc }

/-- `W9+` ↦ (9, true) -/
def parseAnswers (s : String) : List (Nat × Bool) :=
  if s == "-" then []
  else (s.splitOn ",").filterMap fun t =>
    match t.toList with
    | 'W' :: rest =>
      let digits := rest.takeWhile Char.isDigit
      match (String.ofList digits).toNat?, rest.dropWhile Char.isDigit with
      | some h, ['+'] => some (h, true)
      | some h, ['-'] => some (h, false)
      | _, _ => none
    | _ => none

def parseLog (s : String) : Option (List Ev) :=
  if s == "-" then some []
  else (s.splitOn ",").mapM fun t =>
    match t.toList with
    | 'C' :: rest => (String.ofList rest).toNat?.map Ev.cid
    | 'X' :: rest => (String.ofList rest).toNat?.map Ev.height
    | _ => none

def spec (st : St) (op : String) (obs : String) : String :=
  let ws := words op
  let os := words obs
  match ws with
  | "batch" :: _ =>
    match natArg? ws "sc", natArg? ws "pc" with
    | some sc0, some pc0 =>
      let sc := 2 * sc0
      let pc := 2 * pc0
      -- the property presupposes a clock that does not run backwards (cutoffs never decrease
      -- during the life of a worker) — otherwise the cached window edges mean nothing
      let back := st.tainted || decide (sc < st.maxSc) || decide (pc < st.maxPc)
      if back then "specskip"
      else
        match os with
        | "ok" :: _ =>
          match (arg? os "batch").bind parseRanges, arg? os "msgs" with
          | some batch, some msgs =>
            if batchOK (view st sc pc) (parseAnswers msgs) (heights batch) then "specok"
            else "specfail C35/batch-unsafe-height the batch contains a height that must not be removed"
          | _, _ => "specfail C35/bad-result unparsable"
        | _ => "specskip"
    | _, _ => "specskip"
  | "run" :: _ =>
    let back := st.tainted || decide (st.wsc < st.maxSc) || decide (st.wpc < st.maxPc)
    if back then "specskip"
    else
      match os with
      | "ok" :: _ =>
        match arg? os "msgs", (arg? os "effs").bind parseLog with
        | some msgs, some log =>
          let v := view st st.wsc st.wpc
          if !(removedHeights log).all (fun h => v.removable (lastAnswer (parseAnswers msgs)) h) then
            "specfail C35/run-removed-unsafe-height a removed height was not removable"
          else if !orderOK st.store.cids log [] then
            "specfail C35/run-header-before-cids remove_height before the blockstore removals"
          else "specok"
        | _, _ => "specfail C35/bad-result unparsable"
      | _ => "specskip"
  | _ => "specskip"

def handler : Driver.Handler St := { init := {}, step := step, spec := spec }

end Driver.C35

def main (args : List String) : IO UInt32 := Driver.run Driver.C35.handler args

import Driver.Common
import Lumina.Model.Util
import Lumina.Model.SyncerLoop
import Lumina.Model.Session
import Lumina.Model.HeaderExClient
import Lumina.Spec.C38
import Lumina.Gen.C38

/-
  C38 line protocol: the real `Syncer` against simulated header-ex peers.

  Simulated headers: honest chain `H[1..=n]`; a fork `F` that leaves the honest chain after
  height `d` (same validator key: `F[h] = H[h]` for `h <= d`, `F[d+1]` is a child of `H[d]`);
  a foreign chain `G` (other key, other genesis); `U[h]`: `H[h]` re-signed by a fresh key
  (validates, verifies against nothing).  All chains share their timestamps: the header at `h`
  is `n + 1 - h` days old; sampling / pruning window = `sw` / `pw` days + 12 h.

    start n=N sw=K pw=J bs=B d=D      fresh store, Syncer::start, no peers
    connect                            one trusted peer connects            => headreq | ok
    head h=<height> | head h=err       answer the pending head request      => accepted|retry <state>
                                       (premise: the head trusted peers report is inside the sampling
                                       window; an older height is refused: `stale-head`, request stays pending)
    ans i=<idx> k=<kind>               answer the idx-th outstanding request (sorted by origin, descending)
         kinds: h honest | t<k> first k | f fork | g foreign | i<j> j-th invalid | u<j> j-th re-signed
                e transport error | n not-found | x gap | r reversed | m one too many | z empty
    newhead h=<height>                 header-sub announces H[h]
    disconnect                         all peers gone
    drain budget=B                     answer honestly until nothing is outstanding
    prune h=<height>|tail              the pruner removes a stored height (`Store::remove_height`) — only
                                       when C35's per-height condition holds (stored, outside the pruning
                                       window, and outside the sampling window or both neighbours synced),
                                       otherwise `refused`; `tail` = lowest stored height
    state | reset
  state line: st=<stored ranges> pr=<pruned ranges> head=<subjective head, 0 = none> out=<origin+amount,…>
              ph=<1 connected_event_loop | 0> off=<stored heights not on H>
-/
open Lumina.Util Lumina.Model.Ranges
open Lumina.Model.Store (Hdr)

namespace Driver.C38
open Lumina.Model.SyncerLoop
open Lumina.Model

def TAG : Nat := 1000000

def mkHdr (tag h : Nat) : Hdr := { id := tag * TAG + h, height := h, hash := tag * TAG + h, valid := true }

/-- header of chain `tag` (0 honest, 1 fork, 2 foreign, 3 re-signed) at height `h` -/
def simHdr (d tag h : Nat) : Hdr := if tag == 1 && h ≤ d then mkHdr 0 h else mkHdr tag h

def tagOf (x : Hdr) : Nat := x.id / TAG

/-- `ExtendedHeader::verify` on simulated headers (only adjacent pairs are ever verified) -/
def simVerify (d : Nat) (a b : Hdr) : Bool :=
  a.height + 1 == b.height &&
    ((tagOf a == tagOf b && tagOf a != 3) || (tagOf a == 0 && tagOf b == 1 && a.height == d))

structure St where
  n : Nat := 0
  sw : Nat := 0
  pw : Nat := 0
  d : Nat := 0
  s : State := {}
  headReq : Bool := false
  sess : Option (Session.State Hdr) := none

def env (st : St) : Env :=
  { verify := simVerify st.d,
    chain := { oldS := fun h => decide (st.n + 1 - h > st.sw), oldP := fun h => decide (st.n + 1 - h > st.pw) },
    slowMin := Lumina.Gen.C38.SLOW_SYNC_MIN_THRESHOLD }

def sessCfg : Session.Cfg :=
  { minAmount := Lumina.Gen.C38.MIN_AMOUNT_PER_REQ, maxAmount := Lumina.Gen.C38.MAX_AMOUNT_PER_REQ,
    maxConcurrent := Lumina.Gen.C38.MAX_CONCURRENT_REQS }

def showRanges (rs : List (Nat × Nat)) : String :=
  if rs.isEmpty then "-" else ",".intercalate (rs.map (fun r => s!"{r.1}-{r.2}"))

/-- insertion sort, descending by origin -/
def insDesc (x : Nat × Nat) : List (Nat × Nat) → List (Nat × Nat)
  | [] => [x]
  | y :: ys => if x.1 ≥ y.1 then x :: y :: ys else y :: insDesc x ys

def sortDesc (l : List (Nat × Nat)) : List (Nat × Nat) := l.foldr insDesc []

def insAsc (x : Nat) : List Nat → List Nat
  | [] => [x]
  | y :: ys => if x ≤ y then x :: y :: ys else y :: insAsc x ys

def sortAsc (l : List Nat) : List Nat := l.foldr insAsc []

def outstanding (st : St) : List (Nat × Nat) :=
  match st.sess with
  | some ss => sortDesc ss.tasks
  | none => []

def showState (st : St) : String :=
  let out := outstanding st
  let outs := if out.isEmpty then "-" else ",".intercalate (out.map (fun r => s!"{r.1}+{r.2}"))
  let head := match st.s.head with | some h => h | none => 0
  let ph := if st.s.phase == .connected then 1 else 0
  -- the model's own answer to "which stored headers are not the honest chain's": the simulated
  -- headers carry their chain in the id (0 = honest)
  let offs := sortAsc ((st.s.store.hdrs.filter (fun x => tagOf x != 0)).map (·.height))
  let off := if offs.isEmpty then "-" else ",".intercalate (offs.map toString)
  s!"st={showRanges st.s.store.storedRanges} pr={showRanges st.s.store.prunedRanges} head={head} out={outs} ph={ph} off={off}"

/-- apply one worker event; a scheduled request starts a new header session -/
def apply (st : St) (ev : Ev) : St :=
  let (s', req) := step (env st) st.s ev
  let sess := match req with
    | some r => some (Session.init sessCfg r)
    | none => if s'.ongoing.isNone then none else st.sess
  { st with s := s', sess := sess }

def toClient (x : Hdr) : HeaderExClient.Hdr := { height := x.height, hash := [x.id], id := x.id }
def ofClient (x : HeaderExClient.Hdr) : Hdr := { id := x.id, height := x.height, hash := x.id, valid := true }

def okResp (x : Hdr) : HeaderExClient.Resp := { status := 1, decoded := some (toClient x) }
def badResp : HeaderExClient.Resp := { status := 1, decoded := none }

def removeAt {α} : List α → Nat → List α
  | [], _ => []
  | _ :: xs, 0 => xs
  | x :: xs, i + 1 => x :: removeAt xs i

def setAt {α} : List α → Nat → α → List α
  | [], _, _ => []
  | _ :: xs, 0, v => v :: xs
  | x :: xs, i + 1, v => x :: setAt xs i v

/-- what the simulated peer sends for `(h, a)`: `none` = transport error -/
def peerResps (st : St) (h a : Nat) (kind : String) : Option (List HeaderExClient.Resp) :=
  let honest : List Hdr := (List.range' h a).map (mkHdr 0)
  let k := kind.toList
  let num : Nat := (String.ofList (k.drop 1)).toNat?.getD 0
  match k.head? with
  | some 'h' => some (honest.map okResp)
  | some 't' => some ((honest.take num).map okResp)
  | some 'f' => some (((List.range' h a).map (simHdr st.d 1)).map okResp)
  | some 'g' => some (((List.range' h a).map (mkHdr 2)).map okResp)
  | some 'i' => some (setAt (honest.map okResp) (num % a) badResp)
  | some 'u' => some (setAt (honest.map okResp) (num % a) (okResp (mkHdr 3 (h + num % a))))
  | some 'n' => some [{ status := 2, decoded := none }]
  | some 'x' => if a ≥ 3 then some ((removeAt honest 1).map okResp) else none
  | some 'r' => some (honest.reverse.map okResp)
  | some 'm' => if h + a ≤ st.n then some (((List.range' h (a + 1)).map (mkHdr 0)).map okResp) else none
  | some 'z' => some []
  | _ => none

/-- answer the `idx`-th outstanding request -/
def answer (st : St) (idx : Nat) (kind : String) : St :=
  match st.sess, st.s.ongoing with
  | some ss, some r =>
    match (sortDesc ss.tasks)[idx]? with
    | none => st
    | some (h, a) =>
      let ev : Session.Ev Hdr :=
        match peerResps st h a kind with
        | none => .err h a
        | some resps =>
          match HeaderExClient.decodeAndVerify { data := .origin h, amount := a } resps with
          | .ok hs => .ok h a (hs.map ofClient)
          | _ => .err h a
      let ss' := Session.step ss ev
      if Session.finished ss' then
        let hs := Session.result (fun x => x.height) ss'
        let res := if p2pAccepts (env st).verify r hs then some hs else none
        apply { st with sess := none } (.batch res)
      else { st with sess := some ss' }
  | _, _ => st

def syncedB (a : Lumina.Spec.C19.AbsStore) (h : Nat) : Bool := a.stored h || a.isPruned h

/-- C35's per-height removal condition (`Proofs/ComposeSyncerPrune.lean` `PruneSafe`), decidable -/
def pruneSafe (st : St) (h : Nat) : Bool :=
  let a := st.s.store
  let c := (env st).chain
  a.stored h && c.oldP h && (c.oldS h || (syncedB a (h - 1) && syncedB a (h + 1)))

def drain (st : St) : Nat → Nat → St × Nat
  | 0, k => (st, k)
  | fuel + 1, k => if (outstanding st).isEmpty then (st, k) else drain (answer st 0 "h") fuel (k + 1)

def step (st : St) (line : String) : St × String :=
  let ws := words line
  match ws with
  | "reset" :: _ => ({}, "ok")
  | "start" :: _ =>
    match natArg? ws "n", natArg? ws "sw", natArg? ws "pw", natArg? ws "bs", natArg? ws "d" with
    | some n, some sw, some pw, some bs, some d =>
      ({ n := n, sw := sw, pw := pw, d := d, s := { batchSize := bs } }, "ok")
    | _, _, _, _, _ => (st, "bad-op")
  | "connect" :: _ =>
    let st' := apply st (.peers 1)
    if st'.s.phase == .connecting && !st'.headReq then ({ st' with headReq := true }, "headreq")
    else (st', "ok")
  | "head" :: _ =>
    if !st.headReq then (st, "bad-op")
    else
      match arg? ws "h" with
      | some "err" => (st, s!"retry {showState st}")
      | some v =>
        match v.toNat? with
        | some h =>
          -- premise (`HeadFresh`): trusted peers report a head inside the sampling window
          if (env st).chain.oldS h then (st, "stale-head") else
          let st' := apply st (.netHead (mkHdr 0 h))
          if st'.s.phase == .connected then
            let st' := { st' with headReq := false }
            (st', s!"accepted {showState st'}")
          else (st', s!"retry {showState st'}")
        | none => (st, "bad-op")
      | none => (st, "bad-op")
  | "ans" :: _ =>
    match natArg? ws "i", arg? ws "k" with
    | some i, some k => let st' := answer st i k; (st', showState st')
    | _, _ => (st, "bad-op")
  | "newhead" :: _ =>
    match natArg? ws "h" with
    | some h => let st' := apply st (.headerSub (mkHdr 0 h)); (st', showState st')
    | none => (st, "bad-op")
  | "disconnect" :: _ => let st' := apply st (.peers 0); (st', showState st')
  | "drain" :: _ =>
    match natArg? ws "budget" with
    | some b => let (st', k) := drain st b 0; (st', s!"{showState st'} steps={k}")
    | none => (st, "bad-op")
  | "prune" :: _ =>
    let h? : Option Nat := match arg? ws "h" with
      | some "tail" => st.s.store.storedRanges.head?.map (·.1)
      | some v => v.toNat?
      | none => none
    match h? with
    | some h =>
      if pruneSafe st h then
        let st' := { st with s := { st.s with store := (st.s.store.remove h).1 } }
        (st', s!"pruned {showState st'}")
      else (st, s!"refused {showState st}")
    | none => (st, s!"refused {showState st}")
  | "state" :: _ => (st, showState st)
  | _ => (st, "bad-op")

def parseRange (s : String) : Option (Nat × Nat) :=
  match s.splitOn "-" with
  | [a, b] => match a.toNat?, b.toNat? with
    | some a, some b => some (a, b)
    | _, _ => none
  | _ => none

def parseRanges (s : String) : Option (List (Nat × Nat)) :=
  if s == "-" then some [] else (s.splitOn ",").mapM parseRange

/-- `specOK` on the implementation's observed state line -/
def spec (st : St) (op : String) (obs : String) : String :=
  let ws := words op
  let os := words obs
  match ws with
  | "reset" :: _ | "start" :: _ | "connect" :: _ => "specskip"
  | _ =>
    match natListArg? os "off", (arg? os "st").bind parseRanges, natArg? os "head" with
    | some off, some stored, some head =>
      if !Lumina.Spec.C38.specSafety off then
        "specfail C38/store-holds-header-off-the-honest-chain a stored header is not the honest chain's header of its height"
      else
        match ws with
        | "drain" :: _ =>
          -- every verdict below is about what the IMPLEMENTATION reported (`out=`, `ph=`, `st=`, `head=`)
          if arg? os "out" != some "-" then
            -- the budget (hundreds of honest answers for a 160-header chain) ran out with requests
            -- still outstanding: the syncer keeps asking without converging
            "specfail C38/drain-budget-exhausted requests still outstanding after the whole budget of honest answers"
          else if arg? os "ph" != some "1" then
            "specskip"   -- not connected: nothing is being synced, convergence is not demanded
          else if st.pw < st.sw then
            -- pruning window < sampling window: the slow-sync throttle waits for the daser, which
            -- is not part of this rig; convergence is not demanded in that regime (not proved either)
            "specskip"
          else if Lumina.Spec.C38.specConverged stored (st.n + 1 - st.sw) head then "specok"
          else "specfail C38/not-converged a height of the sampling window up to the head is missing although honest peers answered everything"
        | _ => "specok"
    | _, _, _ =>
      if os.head? == some "bad-op" || os.head? == some "stale-head" then "specskip" else "specfail C38/unparsed"

def handler : Driver.Handler St := { init := {}, step := step, spec := spec }

end Driver.C38

def main (args : List String) : IO UInt32 := Driver.run Driver.C38.handler args

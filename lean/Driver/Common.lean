/-
  Line protocol shared by every property driver.

    drv_Cxx model   : stdin = one operation per line; stdout = the MODEL's canonical
                      result for that operation, one line per input line.
    drv_Cxx spec    : stdin = `<operation>\t=>\t<implementation result>` per line;
                      stdout = `specok`, `specskip`, or `specfail <fingerprint> <why>`
                      per line: the property's decidable checker (`specOK`) evaluated on
                      what the IMPLEMENTATION returned (not on the model's answer).

  The state threaded through both modes is the model state, advanced with the model's
  own step function, so that stateful properties see the same history in both modes.
-/
namespace Driver

structure Handler (σ : Type) where
  init : σ
  /-- model step: state, op line ↦ new state, canonical output -/
  step : σ → String → σ × String
  /-- spec verdict on the implementation's observed output for this op, in the state
      *before* the op.  Must return `specok`, `specskip` or `specfail <fingerprint> …` -/
  spec : σ → String → String → String

partial def loopModel {σ} (h : Handler σ) (inp out : IO.FS.Stream) (s : σ) : IO Unit := do
  let line ← inp.getLine
  if line.isEmpty then return ()
  let l := (line.dropEndWhile (fun c => c == '\n' || c == '\r')).toString
  let (s', o) := h.step s l
  out.putStrLn o
  loopModel h inp out s'

partial def loopSpec {σ} (h : Handler σ) (inp out : IO.FS.Stream) (s : σ) : IO Unit := do
  let line ← inp.getLine
  if line.isEmpty then return ()
  let l := (line.dropEndWhile (fun c => c == '\n' || c == '\r')).toString
  match l.splitOn "\t=>\t" with
  | [op, obs] =>
    let v := h.spec s op obs
    let (s', _) := h.step s op
    out.putStrLn v
    loopSpec h inp out s'
  | _ =>
    out.putStrLn "specfail bad-line malformed spec line"
    loopSpec h inp out s

def run {σ} (h : Handler σ) (args : List String) : IO UInt32 := do
  let inp ← IO.getStdin
  let out ← IO.getStdout
  match args with
  | ["model"] => loopModel h inp out h.init; out.flush; return 0
  | ["spec"] => loopSpec h inp out h.init; out.flush; return 0
  | _ => IO.eprintln "usage: drv_Cxx model|spec"; return 2

end Driver

import Driver.Common
import Lumina.Model.Util
import Lumina.Model.HeaderExClient
import Lumina.Model.HeaderExClientView
import Lumina.Gen.C28
import Lumina.Spec.C28

open Lumina.Util Lumina.Model.HeaderExClient

namespace Driver.C28

/-- hash of pool header `id` (symbolic; pool hashes are pairwise distinct, checked by the harness) -/
def poolHash (id : Nat) : HashV := [0, id]

/-- `p<id>` = hash of pool header `id` (32 bytes); `r<hex>` = raw bytes (never a pool hash) -/
def parseHash (s : String) : Option (HashV × Nat) :=
  match s.toList with
  | 'p' :: rest => (String.ofList rest).toNat?.map (fun id => (poolHash id, 32))
  | 'r' :: rest => (fromHex (String.ofList rest)).map (fun bs => (1 :: bs.map (·.toNat), bs.length))
  | _ => none

def parseItem (s : String) : Option Resp :=
  match s.splitOn ":" with
  | [st, idS, hS] =>
    let status? : Option Int := if st.startsWith "-" then (st.drop 1).toNat?.map (fun n => -(n : Int))
      else st.toNat?.map (fun n => (n : Int))
    match status?, idS.toNat? with
    | some status, some id =>
      if hS == "x" then some { status, decoded := none }
      else hS.toNat?.map (fun h => { status, decoded := some { height := h, hash := poolHash id, id } })
    | _, _ => none
  | _ => none

def parseResps (s : String) : Option (List Resp) :=
  if s == "-" then some [] else (s.splitOn ",").mapM parseItem

def parseReq (ws : List String) : Option Request :=
  match arg? ws "kind", natArg? ws "amount" with
  | some k, some amount =>
    if k == "none" then some { data := .none, amount }
    else if k == "origin" then (natArg? ws "origin").map (fun n => { data := .origin n, amount })
    else if k == "hash" then ((arg? ws "hash").bind parseHash).map (fun (h, len) => { data := .hash h len, amount })
    else none
  | _, _ => none

def showErr : Err → String
  | .headerNotFound => "HeaderNotFound"
  | .invalidResponse => "InvalidResponse"
  | .invalidRequest => "InvalidRequest"

def showOutcome : Outcome → String
  | .ok hs => s!"ok {showNatList (hs.map (·.id))}"
  | .err e => s!"err {showErr e}"
  | .panic => "panic"

/-- which version of `decode_and_verify_responses` the tree contains -/
def FIXED : Bool := true

def step (_ : Unit) (line : String) : Unit × String :=
  let ws := words line
  let out : String :=
    match ws with
    | "reset" :: _ => "ok"
    | "dav" :: _ =>
      match parseReq ws, (arg? ws "resps").bind parseResps with
      | some req, some resps => showOutcome (decodeAndVerifyG FIXED req resps)
      | _, _ => "bad-op"
    | "valid" :: _ =>
      match parseReq ws with
      | some req => s!"valid={isValid Lumina.Gen.C28.HASH_SIZE req} head={isHeadRequest req}"
      | none => "bad-op"
    | _ => "bad-op"
  ((), out)

def spec (_ : Unit) (op : String) (obs : String) : String :=
  let ws := words op
  match ws with
  | "dav" :: _ =>
    match parseReq ws, (arg? ws "resps").bind parseResps with
    | some req, some resps =>
      let es := resps.map toEntry
      -- headers the implementation returned, by pool id: looked up among the entries
      let lookup (id : Nat) : Option Hdr := (resps.filterMap (·.decoded)).find? (fun h => h.id == id)
      let o? : Option (Lumina.Spec.C28.Obs Hdr) :=
        match words obs with
        | ["ok", ids] =>
          match (natListArg? [s!"x={ids}"] "x") with
          | some l => match l.mapM lookup with
            | some hs => some (.accepted hs)
            | none => none
          | none => none
        | "err" :: _ => some .error
        | ["panic"] => some .panic
        | _ => none
      match o? with
      | none => "specfail C28/foreign-header accepted a header that is not a validated entry of the response (or unparsable result)"
      | some .panic =>
        -- the one known way to panic: `start + headers.len()` overflowing u64
        match req.data with
        | .origin n =>
          if n + resps.length > U64_MAX then "specfail C28/height-range-overflow `start..start + n` overflows u64"
          else "specfail C28/panic"
        | _ => "specfail C28/panic"
      | some o =>
        if Lumina.Spec.C28.specStrict (·.height) (·.hash) (toKind req.data) req.amount es o then "specok"
        else if Lumina.Spec.C28.validatedPrefixClass (·.height) (·.hash) (toKind req.data) req.amount es o then
          "specfail C28/validated-prefix-accepted a bad entry follows good ones: the client accepts the good prefix instead of an error"
        else match o with
          | .accepted _ => "specfail C28/accepted-malformed accepted, but the response is not a well-formed run / single header (or the value is not its headers ascending)"
          | _ => "specfail C28/refused-well-formed a well-formed response was refused"
    | _, _ => "specfail C28/unparsed"
  | "valid" :: _ =>
    match parseReq ws with
    | some req =>
      let len := match req.data with
        | .hash _ l => l
        | _ => 0
      let v? := (arg? (words obs) "valid").map (· == "true")
      let h? := (arg? (words obs) "head").map (· == "true")
      match v?, h? with
      | some v, some h =>
        if Lumina.Spec.C28.specValid (toKind req.data) len req.amount v h then "specok"
        else "specfail C28/is-valid is_valid / is_head_request disagree with the request rules"
      | _, _ => "specfail C28/unparsed"
    | none => "specfail C28/unparsed"
  | "reset" :: _ => "specskip"
  | _ => "specfail C28/unparsed"

def handler : Driver.Handler Unit := { init := (), step := step, spec := spec }

end Driver.C28

def main (args : List String) : IO UInt32 := Driver.run Driver.C28.handler args

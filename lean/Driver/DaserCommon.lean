/-
  Line protocol shared by the C33 and C34 drivers (model `Lumina.Model.Daser`).

  ops
    reset limit=L extra=E old=K ws=w1,w2,…      new worker; chain of heights 1..N with widths wi;
                                                 heights ≤ K are outside the sampling window
    peers n=N | insert lo=A hi=B | remove h=H | prune h=H | hp v=V | np v=V
    rmgranted i=I      the pruner removes the (I mod n)-th granted-and-still-stored height (ascending)
    ans b=B k=K to=T   the network answers the (K mod m)-th pending share (sorted) of the
                       (B mod n)-th block in progress (ascending height): T=0 the sample, T=1 a timeout,
                       T=2 a P2p error other than a timeout, T=3 bytes that are not a Block, T=4 the block of a
                       different CID, T=5 the right CID around a container that is not a sample
    ridx w=W           `random_indexes(W, MAX_SAMPLES_NEEDED)` alone
  every op carries `obs=`: the shares chosen for each block started during the op, in order,
  `h:r.c+r.c+…;h:…` (`-` = none); for `ridx` the returned set `r.c+…` (`_` = empty).

  result: the observable actions in order, space separated (`-` = none)
    scan  meta:h:SH  mark:h  started:h:w:SH  req:h:SH  share:h:r.c:T  result:h:T  grant:h:1|0|err
    fatal  storeerr                                 (SH = `r.c+r.c+…` sorted, `_` = empty; T = 0|1)
-/
import Driver.Common
import Lumina.Model.Util
import Lumina.Model.Daser

open Lumina.Util Lumina.Model.Daser

namespace Driver.Daser

def shareLt (a b : Share) : Bool := a.1 < b.1 || (a.1 == b.1 && a.2 < b.2)

def insSorted (p : Share) : List Share → List Share
  | [] => [p]
  | q :: rest => if shareLt q p then q :: insSorted p rest else p :: q :: rest

def sortShares (l : List Share) : List Share := l.foldr insSorted []

def showShare (p : Share) : String := s!"{p.1}.{p.2}"

def showShares (l : List Share) : String :=
  if l.isEmpty then "_" else "+".intercalate ((sortShares l).map showShare)

def parseShare (s : String) : Option Share :=
  match s.splitOn "." with
  | [a, b] => match a.toNat?, b.toNat? with
    | some x, some y => some (x, y)
    | _, _ => none
  | _ => none

def parseShares (s : String) : Option (List Share) :=
  if s == "_" || s == "-" then some [] else (s.splitOn "+").mapM parseShare

def b01 (b : Bool) : String := if b then "1" else "0"

def showTok : Tok → String
  | .scan => "scan"
  | .metaUpd h c => s!"meta:{h}:{showShares c}"
  | .mark h => s!"mark:{h}"
  | .started h w sh => s!"started:{h}:{w}:{showShares sh}"
  | .req h sh => s!"req:{h}:{showShares sh}"
  | .share h p t => s!"share:{h}:{showShare p}:{b01 t}"
  | .result h t => s!"result:{h}:{b01 t}"
  | .grant h ok => s!"grant:{h}:{b01 ok}"
  | .grantErr h => s!"grant:{h}:err"
  | .fatal => "fatal"
  | .storeErr => "storeerr"

def showToks (ts : List Tok) : String :=
  if ts.isEmpty then "-" else " ".intercalate (ts.map showTok)

def parseBool (s : String) : Option Bool :=
  if s == "1" then some true else if s == "0" then some false else none

def parseTok (w : String) : Option Tok :=
  match w.splitOn ":" with
  | ["scan"] => some .scan
  | ["fatal"] => some .fatal
  | ["storeerr"] => some .storeErr
  | ["meta", h, c] => do some (.metaUpd (← h.toNat?) (← parseShares c))
  | ["mark", h] => do some (.mark (← h.toNat?))
  | ["started", h, w, sh] => do some (.started (← h.toNat?) (← w.toNat?) (← parseShares sh))
  | ["req", h, sh] => do some (.req (← h.toNat?) (← parseShares sh))
  | ["share", h, p, t] => do some (.share (← h.toNat?) (← parseShare p) (← parseBool t))
  | ["result", h, t] => do some (.result (← h.toNat?) (← parseBool t))
  | ["grant", h, "err"] => do some (.grantErr (← h.toNat?))
  | ["grant", h, ok] => do some (.grant (← h.toNat?) (← parseBool ok))
  | _ => none

def parseToks (line : String) : Option (List Tok) :=
  if line == "-" then some [] else (words line).mapM parseTok

/-- `obs=h:SH;h:SH` → the draws handed to the model for each started block -/
def parseObs (s : String) : Option (List (List (Nat × Nat))) :=
  if s == "-" then some []
  else (s.splitOn ";").mapM (fun e =>
    match e.splitOn ":" with
    | [_, sh] => parseShares sh
    | _ => none)

/-- driver state: the model state and the length of the header chain of the episode -/
structure DState where
  s : State
  n : Nat

def mkHdr (ws : List Nat) (old : Nat) : Nat → Hdr :=
  fun h => { width := ws.getD (h - 1) 0, fresh := decide (old < h) }

def insNat (p : Nat) : List Nat → List Nat
  | [] => [p]
  | q :: rest => if q < p then q :: insNat p rest else p :: q :: rest

def sortNat (l : List Nat) : List Nat := l.foldr insNat []

/-- granted to the pruner and still stored, ascending -/
def grantedStored (s : State) : List Nat :=
  (Lumina.Model.Ranges.heights s.w.willBePruned).filter (fun h => Lumina.Model.Ranges.contains s.store.stored h)

inductive Op where
  | ev (e : Ev)
  | noop
  /-- an answer that is neither a sample nor a timeout -/
  | badAns (h : Nat) (p : Share)
  /-- the harness has no such headers: the store is not touched -/
  | rejected
  | bad

def resolve (d : DState) (ws : List String) : Op :=
  let s := d.s
  match ws with
  | "peers" :: _ => match natArg? ws "n" with | some n => .ev (.peers n) | none => .bad
  | "insert" :: _ => match natArg? ws "lo", natArg? ws "hi" with
    | some a, some b => if b > d.n then .rejected else .ev (.insert a b)
    | _, _ => .bad
  | "remove" :: _ => match natArg? ws "h" with | some h => .ev (.remove h) | none => .bad
  | "prune" :: _ => match natArg? ws "h" with | some h => .ev (.prune h) | none => .bad
  | "hp" :: _ => match natArg? ws "v" with | some v => .ev (.setHighestPrunable v) | none => .bad
  | "np" :: _ => match natArg? ws "v" with | some v => .ev (.setNumPrunable v) | none => .bad
  | "rmgranted" :: _ =>
    match natArg? ws "i" with
    | none => .bad
    | some i =>
      let g := grantedStored s
      if g.isEmpty then .noop else .ev (.remove (g.getD (i % g.length) 0))
  | "ans" :: _ =>
    match natArg? ws "b", natArg? ws "k", natArg? ws "to" with
    | some b, some k, some to =>
      let hs := sortNat (s.w.futs.map (·.height))
      if hs.isEmpty then .noop
      else
        let h := hs.getD (b % hs.length) 0
        match s.w.futs.find? (fun f => f.height == h) with
        | none => .noop
        | some f =>
          let pend := sortShares f.pending
          if pend.isEmpty then .noop
          else if to ≥ 2 then .badAns h (pend.getD (k % pend.length) (0, 0))
          else .ev (.answer h (pend.getD (k % pend.length) (0, 0)) (to != 0))
    | _, _, _ => .bad
  | _ => .bad

def doReset (maxSamples thr : Nat) (ws : List String) : Option DState :=
  match natArg? ws "limit", natArg? ws "extra", natArg? ws "old", natListArg? ws "ws" with
  | some l, some e, some old, some widths =>
    some { s := init { limit := l, extra := e, maxSamples := maxSamples, prunerThreshold := thr } (mkHdr widths old),
           n := widths.length }
  | _, _, _, _ => none

def obsOf (ws : List String) : List (List (Nat × Nat)) :=
  match arg? ws "obs" with
  | some o => (parseObs o).getD []
  | none => []

/-- `ridx`: the observed output must be what the transcribed loop produces when it draws
    exactly these cells -/
def ridx (maxSamples : Nat) (ws : List String) : String :=
  match natArg? ws "w", (arg? ws "obs").bind parseShares with
  | some w, some out =>
    match randomIndexes w maxSamples out with
    | some r => if sortShares r == sortShares out then s!"ok n={r.length}" else "not-an-output"
    | none => "not-an-output"
  | _, _ => "bad-op"

def step (maxSamples thr : Nat) (d : DState) (line : String) : DState × String :=
  let ws := words line
  match ws with
  | "reset" :: _ =>
    match doReset maxSamples thr ws with
    | some s => (s, "ok")
    | none => (d, "ok")   -- the bare `reset` the framework appends after a corpus file
  | "ridx" :: _ => (d, ridx maxSamples ws)
  | _ =>
    match resolve d ws with
    | .bad => (d, "bad-op")
    | .noop => (d, "noop")
    | .rejected => (d, "storeerr")
    | .badAns h p =>
      let (s', toks) := onBadAnswer d.s h p
      ({ d with s := s' }, showToks toks)
    | .ev e =>
      let (s', toks) := Lumina.Model.Daser.step d.s e (obsOf ws)
      ({ d with s := s' }, showToks toks)

end Driver.Daser

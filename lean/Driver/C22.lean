import Driver.Common
import Lumina.Model.Util
import Lumina.Model.Crash
import Lumina.Model.CrashStore
import Lumina.Model.RedbCommit
import Lumina.Spec.C22

/-
  C22 line protocol.  A history starts with `reset`, then `open` (fresh fault-injecting backend,
  `RedbStore::new`), then store operations, then crash points that refer to the backend's
  write/sync event log of that history:

    open
    insert hs=a1^-,a2^a1,a3^a2          header name ^ parent name (`-` = none), ascending heights
    insert hs=_                         (S9) the empty batch
    insert hs=a9^a8,a10!a5^a9           (S9) `base!hashof`: unvalidated copy of `base` carrying the hash of `hashof`
    mark h=3 | meta h=3 cids=1,2 | remove h=3
    crash ep=<sync epoch> k=<events of that epoch issued> mask=<all|none|hdr|nohdr|last|butlast|seed> n=<ops returned> sig=<log signature> vis=<0|1>
    crashgo …same fields as crash…   (multi-crash: crash, reopen, and the history CONTINUES on the recovered database)
    crashr ep= k= mask= n=0 sig= out=<ok|corrupt|other>   (second crash DURING redb's repair-on-open of the first; in scope)
    crash0 ep= k= mask= sig= out=<ok|invalid>      (crash inside redb's Database::create, before RedbStore::new: out of scope, specskip)

  Results:  ok <dump> tr=<shape> | err <Kind> <dump> tr=<shape> | reopen ok <dump> api=ok | reopen err <why>
  shape  :  the backend write/sync trace of the operation as the redb commit-protocol model
            (`Model/RedbCommit.lean`, S5) prescribes it: `PHS` = data pages and ONE header write,
            then one `sync_data` (one-phase commit); `HS` = a commit that dirtied no page (S9: the
            empty batch); `-` = nothing (aborted transaction)
  dump   :  ver=<3|none> id=<none|id1|idnew> hdr=<h:name^parent,…|_> hts=<name:h,…|_> st=<R> sa=<R> pr=<R> meta=<h:c.c,…|_>
  R      :  a-b.c-d | _

  `vis` records which of the two admissible outcomes the implementation showed at generation time
  (in-flight transaction visible or not): the nondeterministic choice of the crash is an INPUT of
  the model step, exactly like a scheduler choice; `spec` does not use it.
-/
open Lumina.Util Lumina.Model.Crash Lumina.Model.CrashStore

namespace Driver.C22

structure DS where
  /-- states after every prefix of the current history, oldest first; `states[0]` = empty disk -/
  states : List St
  cur : St

def DS.init : DS := { states := [St.empty], cur := St.empty }

def idFirst : Nat := 1
def idNew : Nat := 999

/-! printing -/

def showRuns (s : List Nat) : String :=
  let rec go (l : List Nat) (cur : Option (Nat × Nat)) (acc : List String) : List String :=
    match l, cur with
    | [], none => acc
    | [], some (a, b) => acc ++ [s!"{a}-{b}"]
    | x :: r, none => go r (some (x, x)) acc
    | x :: r, some (a, b) => if x = b + 1 then go r (some (a, x)) acc else go r (some (x, x)) (acc ++ [s!"{a}-{b}"])
  let parts := go s none []
  if parts.isEmpty then "_" else ".".intercalate parts

def showList (l : List String) (sep : String) : String := if l.isEmpty then "_" else sep.intercalate l

def showId (n : Nat) : String := if n = 0 then "none" else if n = idNew then "idnew" else s!"id{n}"

def showSt (st : St) : String :=
  let ver := if st.opened then "3" else "none"
  let hdr := showList (st.headers.map (fun e => s!"{e.1}:{e.2.name}^{e.2.parent}")) ","
  let hts := showList (st.heights.map (fun e => s!"{e.1}:{e.2}")) ","
  let metaStr := showList (st.smeta.map (fun e => s!"{e.1}:{showList (e.2.map toString) "."}")) ","
  s!"ver={ver} id={showId st.identity} hdr={hdr} hts={hts} st={showRuns st.stored} sa={showRuns st.sampled} pr={showRuns st.pruned} meta={metaStr}"

/-! parsing -/

def heightOfName (name : String) : Option Nat := (name.drop 1).toString.toNat?

/-- `name^parent`; (S9) `base!hashof^parent` = an unvalidated copy of header `base` (its height, its
    parent link) whose hash — the key of STORE.HEIGHTS, `name` in the model — is that of `hashof` -/
def parseHdrs (s : String) : Option (List Hdr) :=
  if s == "_" then some []
  else (s.splitOn ",").mapM (fun e =>
    match e.splitOn "^" with
    | [n, p] =>
      match n.splitOn "!" with
      | [base, hashof] => (heightOfName base).map (fun h => { height := h, name := hashof, parent := p })
      | _ => (heightOfName n).map (fun h => { height := h, name := n, parent := p })
    | _ => none)

def parseRuns (s : String) : Option (List Nat) :=
  if s == "_" then some []
  else do
    let rs ← (s.splitOn ".").mapM (fun r =>
      match r.splitOn "-" with
      | [a, b] => match a.toNat?, b.toNat? with
        | some a, some b => some (a, b)
        | _, _ => none
      | _ => none)
    some (rs.flatMap (fun r => rangeList r.1 r.2))

def parseId (s : String) : Option Nat :=
  if s == "none" then some 0 else if s == "idnew" then some idNew else (s.drop 2).toString.toNat?

def parseSt (ws : List String) : Option St := do
  let ver ← arg? ws "ver"
  let ident ← (arg? ws "id").bind parseId
  let hdrS ← arg? ws "hdr"
  let headers ← if hdrS == "_" then some [] else (hdrS.splitOn ",").mapM (fun e =>
    match e.splitOn ":" with
    | [h, np] => match h.toNat?, np.splitOn "^" with
      | some h, [n, p] => (heightOfName n).map (fun hh => (h, ({ height := hh, name := n, parent := p } : Hdr)))
      | _, _ => none
    | _ => none)
  let htsS ← arg? ws "hts"
  let heights ← if htsS == "_" then some [] else (htsS.splitOn ",").mapM (fun e =>
    match e.splitOn ":" with
    | [n, h] => h.toNat?.map (fun h => (n, h))
    | _ => none)
  let st ← (arg? ws "st").bind parseRuns
  let sa ← (arg? ws "sa").bind parseRuns
  let pr ← (arg? ws "pr").bind parseRuns
  let metaS ← arg? ws "meta"
  let smeta ← if metaS == "_" then some [] else (metaS.splitOn ",").mapM (fun e =>
    match e.splitOn ":" with
    | [h, cs] => match h.toNat?, (if cs == "_" then some [] else (cs.splitOn ".").mapM String.toNat?) with
      | some h, some cs => some (h, cs)
      | _, _ => none
    | _ => none)
  some { opened := ver == "3", identity := ident, headers := headers, heights := heights,
         stored := st, sampled := sa, pruned := pr, smeta := smeta }

/-- the operation a line denotes (`none` for lines that are not store operations) -/
def opOfLine (ws : List String) : Option (Op St Err) :=
  match ws with
  | "open" :: _ => some (openTx idFirst)
  | "insert" :: _ =>
    match (arg? ws "hs").bind parseHdrs with
    | some hs => some (fun st => if !verifyBatch hs then .error .verification else insertTx hs st)
    | none => none
  | "mark" :: _ => (natArg? ws "h").map markSampledTx
  | "meta" :: _ =>
    match natArg? ws "h", natListArg? ws "cids" with
    | some h, some cs => some (updateMetaTx h cs)
    | _, _ => none
  | "remove" :: _ => (natArg? ws "h").map removeTx
  | _ => none

/-- S5: the backend trace the commit-protocol model prescribes for one durable commit, as far as
    the harness can see it.  Per sync epoch of `RedbCommit.commitEpochs`: `P` if it has page
    writes, `H` if it has header-region writes (redb's ONE 320-byte header write is the model's
    three region writes; the write buffer coalesces the two header versions of a one-phase
    commit into the last one), then `S` (the `sync_data`). -/
def commitShape (twoPhase : Bool) (dirty : Bool := true) : String :=
  let H : Lumina.Model.RedbCommit.Sums Unit Unit := ⟨fun _ => (), fun _ _ => ()⟩
  let d : Lumina.Model.RedbCommit.Disk Unit Unit :=
    { primary := false, twoPhase := false, slots := fun _ => ⟨0, [], ()⟩, pages := fun _ => ⟨(), []⟩ }
  -- (S9) `dirty = false`: a transaction that touched no table (`insert` of the empty batch returns
  -- `Ok(())` before it opens one): redb still commits it — no data page, the header, the sync
  let pl : Lumina.Model.RedbCommit.Plan Unit Unit :=
    { pages := if dirty then [(1, ⟨(), []⟩)] else [], roots := [], txid := 1 }
  String.join ((Lumina.Model.RedbCommit.commitEpochs H d pl twoPhase).map fun ep =>
    let ks := ep.map Lumina.Model.RedbCommit.Write.kind
    (if ks.contains .page then "P" else "") ++ (if ks.contains .header then "H" else "") ++ "S")

/-- what a store reopened on the state after a prefix shows: `RedbStore::new` runs its
    transaction on it -/
def reopened (s : St) : St := applyOp s (openTx idNew)

def step (ds : DS) (line : String) : DS × String :=
  let ws := words line
  match ws with
  | "reset" :: _ => (DS.init, "ok")
  | "universe" :: _ => (ds, "ok")      -- harness-side declaration of the header chains
  | "crash0" :: _ =>
    -- crash while redb's own `Database::create` runs, i.e. BEFORE `RedbStore::new` starts: outside
    -- the property (the store does not exist yet); the observed outcome is an input (`out=`)
    if arg? ws "out" == some "ok" then (ds, s!"reopen ok {showSt (reopened St.empty)} api=ok")
    else (ds, "reopen err redb-open:I/O_error:_invalid_data")
  | "crashgo" :: _ =>
    -- MULTI-CRASH: the crash + reopen of a `crash` line, after which the history CONTINUES on the
    -- recovered state: a new incarnation starts whose operation 0 (the reopen transaction,
    -- `RedbStore::new` on an initialised database: the identity) has returned.  This is one `cons`
    -- of `Props.C22.Lives`; the surviving prefix is `take (n + vis)`.
    match natArg? ws "n", natArg? ws "vis" with
    | some n, some vis =>
      if vis > 1 then (ds, "bad-op")
      else match ds.states[n + vis]? with
        | some s =>
          let s' := reopened s
          ({ states := [s', s'], cur := s' }, s!"reopen ok {showSt s'} api=ok")
        | none => (ds, "bad-op")
    | _, _ => (ds, "bad-op")
  | "crashr" :: _ =>
    -- SECOND crash while redb's repair-on-open of an earlier crash is running (RedbStore::new has
    -- not started; no operation of the new incarnation has returned: `n = 0`).  The admissible
    -- outcome is the recovered state `states[0]`.  What real redb did is an input (`out=`): `ok`,
    -- or `corrupt` = redb 2.6.3's `end_repair` left a stale allocator state behind a header that
    -- says "no recovery required" (known finding C22/redb-end-repair-double-crash; the spec
    -- reports it, the model line only has to reproduce the observed line).
    match natArg? ws "n", arg? ws "out" with
    | some n, some o =>
      if o == "ok" then
        match ds.states[n]? with
        | some s => (ds, s!"reopen ok {showSt (reopened s)} api=ok")
        | none => (ds, "bad-op")
      else if o == "corrupt" then (ds, "reopen err allocator-corrupt")
      else (ds, "reopen err unexpected")
    | _, _ => (ds, "bad-op")
  | "crash" :: _ =>
    match natArg? ws "n", natArg? ws "vis" with
    | some n, some vis =>
      if vis > 1 then (ds, "bad-op")
      else match ds.states[n + vis]? with
        | some s => (ds, s!"reopen ok {showSt (reopened s)} api=ok")
        | none => (ds, "bad-op")
    | _, _ => (ds, "bad-op")
  | _ =>
    match opOfLine ws with
    | none => (ds, "bad-op")
    | some op =>
      -- ONE write transaction on the (ideal) backend: this is `Crash.writeTx`
      let (cur', res) := writeTx (idealBackend St) ds.cur op
      -- `open` runs redb's `Database::create` as well: no trace shape for it.  lumina never
      -- asks for a two-phase commit; an aborted transaction writes nothing.
      let isOpen := ws.head? == some "open"
      -- the only store operation whose closure succeeds without writing to a table
      let dirty := !(ws.head? == some "insert" && (arg? ws "hs").bind parseHdrs == some [])
      let out := match res with
        | .ok () => if isOpen then s!"ok {showSt cur'}" else s!"ok {showSt cur'} tr={commitShape false dirty}"
        | .error e => if isOpen then s!"err {e.kind} {showSt cur'}" else s!"err {e.kind} {showSt cur'} tr=-"
      ({ states := ds.states ++ [cur'], cur := cur' }, out)

def spec (ds : DS) (op : String) (obs : String) : String :=
  let ws := words op
  let os := words obs
  match ws with
  | "reset" :: _ => "specskip"
  | "universe" :: _ => "specskip"
  | "crash0" :: _ => "specskip"
  | "crash" :: _ | "crashgo" :: _ | "crashr" :: _ =>
    match natArg? ws "n", os with
    | some n, "reopen" :: "ok" :: rest =>
      match parseSt rest with
      | none => "specfail C22/unparsed"
      | some o =>
        if !Lumina.Spec.C22.specCrashSharp (ds.states.map reopened) n true o then
          if Lumina.Spec.C22.specCrash (ds.states.map reopened) n true o then
            "specfail C22/prefix-too-long the reopened state is a later prefix than the operation in flight"
          else "specfail C22/not-a-prefix the reopened state is not the state after any admissible prefix"
        else if !Lumina.Spec.C22.consistent o then
          "specfail C22/inconsistent-indexes header/hash/range indexes of the reopened store disagree"
        else if arg? rest "api" != some "ok" then
          "specfail C22/api-inconsistent store API lookups disagree with the tables"
        else "specok"
    | some _, "reopen" :: "err" :: why :: _ =>
      -- NARROW known class: a crash INSIDE redb's repair-on-open (`crashr`) after which redb's
      -- allocator state is stale and the first write transaction panics.  Any other failed
      -- reopen, and this failure at any other kind of crash point, is reported as a fresh
      -- violation.
      if ws.head? == some "crashr" && why == "allocator-corrupt" then
        "specfail C22/redb-end-repair-double-crash second crash inside redb's end_repair: header says no recovery required, allocator state stale, RedbStore::new panics in redb"
      else "specfail C22/reopen-failed reopening after the crash failed"
    | some _, "reopen" :: "err" :: _ => "specfail C22/reopen-failed reopening after the crash failed"
    | _, _ => "specfail C22/unparsed"
  | _ =>
    match os with
    | "ok" :: rest | "err" :: _ :: rest =>
      match parseSt rest with
      | some o =>
        if Lumina.Spec.C22.consistent o then "specok"
        else "specfail C22/inconsistent-indexes-live indexes disagree after an operation (no crash)"
      | none => "specfail C22/unparsed"
    | _ => "specfail C22/unparsed"

def handler : Driver.Handler DS := { init := DS.init, step := step, spec := spec }

end Driver.C22

def main (args : List String) : IO UInt32 := Driver.run Driver.C22.handler args

import Driver.DaserCommon
import Lumina.Gen.C33
import Lumina.Model.DaserView

open Lumina.Util Lumina.Model.Daser

namespace Driver.C33
open Lumina.Spec.C33

def maxSamples : Nat := Lumina.Gen.C33.MAX_SAMPLES_NEEDED
def threshold : Nat := Lumina.Gen.C33.PRUNER_THRESHOLD

def init0 : Driver.Daser.DState :=
  { n := 0, s := (Lumina.Model.Daser.init { limit := 3, extra := 5, maxSamples := maxSamples, prunerThreshold := threshold }
    (fun _ => { width := 0, fresh := false })) }

def why : Tok → String
  | .metaUpd _ _ => "C33/chosen-shares the shares recorded for a block are not distinct, in-square and min(w^2,16) many (or the block is already in progress)"
  | .started _ _ _ => "C33/started-event SamplingStarted does not list exactly the chosen shares / the header's width"
  | .req _ _ => "C33/request-before-record a share was requested that is not recorded in the block's sampling metadata (or the requests are not the chosen shares)"
  | .result _ _ => "C33/result SamplingResult while shares are pending or with a wrong timed_out flag"
  | .mark _ => "C33/mark-without-full-success mark_as_sampled for a block whose chosen shares were not all retrieved"
  | _ => "C33/other"

def spec (d : Driver.Daser.DState) (op : String) (obs : String) : String :=
  let s := d.s
  let ws := words op
  match ws with
  | "reset" :: _ => "specskip"
  | "ridx" :: _ =>
    match natArg? ws "w", (arg? ws "obs").bind Driver.Daser.parseShares with
    | some w, some out =>
      if specIndexes w out then "specok"
      else "specfail C33/random-indexes the returned indexes are not distinct, in-square and min(w^2,16) many"
    | _, _ => "specfail C33/unparsed"
  | _ =>
    match Driver.Daser.resolve d ws with
    | .bad => "specfail C33/unparsed"
    | .noop => if obs == "noop" then "specok" else "specfail C33/acted-on-noop"
    | .rejected => if obs == "storeerr" then "specok" else "specfail C33/acted-on-noop"
    | .badAns _ _ =>
      match Driver.Daser.parseToks obs with
      | none => "specfail C33/unparsed"
      | some toks =>
        if specBadAnswer (view33 s) toks then "specok"
        else "specfail C33/after-bad-answer the worker went on sampling (or marked a block) after an answer that is neither a sample nor a timeout"
    | .ev e =>
      match Driver.Daser.parseToks obs with
      | none => if obs == "panic" then "specfail C33/panic the harness panicked" else "specfail C33/unparsed"
      | some toks =>
        if specOK (view33 s) e toks then "specok"
        else
          match firstBad (applyEv (view33 s) e (toks == [Tok.storeErr])) toks with
          | some t => "specfail " ++ why t
          | none => "specfail C33/other"

def handler : Driver.Handler Driver.Daser.DState :=
  { init := init0, step := Driver.Daser.step maxSamples threshold, spec := spec }

end Driver.C33

def main (args : List String) : IO UInt32 := Driver.run Driver.C33.handler args

import Driver.Common
import Lumina.Model.HeadSelect
import Lumina.Spec.C31
import Lumina.Gen.C31

open Lumina.Util Lumina.Model.HeadSelect

namespace Driver.C31

/-- pool of headers the answers refer to: index ↦ header -/
abbrev Pool := List (Nat × Hdr)

def parsePoolItem (s : String) : Option (Nat × Hdr) :=
  match s.splitOn ":" with
  | [i, h, hash] => do
    let i ← String.toNat? i
    let h ← String.toNat? h
    let hash ← fromHex hash
    some (i, { height := h, hash := hash })
  | _ => none

def parsePeer (id : Nat) (s : String) : Option Peer :=
  match s.toList with
  | [c, t] => some { id := id, connected := c == 'c', trusted := t == 't' }
  | _ => none

def parsePeers (s : String) : Option (List Peer) :=
  if s == "-" then some []
  else
    let items := s.splitOn ","
    (List.range items.length |>.zip items).mapM (fun (i, x) => parsePeer i x)

def parseAns (pool : Pool) (s : String) : Ans :=
  if s.startsWith "s" then
    match String.toNat? (s.drop 1).toString with
    | some i => match pool.lookup i with
      | some h => .single h
      | none => .other
    | none => .other
  else .other

def parseRounds (pool : Pool) (s : String) : List (List Ans) :=
  if s == "-" then []
  else (s.splitOn ";").map (fun r => if r == "e" then [] else (r.splitOn ",").map (parseAns pool))

def idxOf (pool : Pool) (h : Hdr) : String :=
  match pool.find? (fun p => p.2 == h) with
  | some p => toString p.1
  | none => "?"

structure Run where
  sent : List String := []
  tos : List String := []
  tfs : List String := []
  rs : List String := []
  answered : List (Nat × String) := []

def flagOf (p : Peer) : String := (if p.connected then "c" else "d") ++ (if p.trusted then "t" else "u")

/-- pad / cut the listed answers to the number of requests sent (missing = failure) -/
def fit (k : Nat) (as : List Ans) : List Ans := (as ++ List.replicate k Ans.other).take k

open Lumina.Gen.C31 in
def runOp (pool : Pool) (peers : List Peer) (callers closedN late : Nat) (rounds : List (List Ans)) : String :=
  let closed := List.range closedN
  let s0 := (List.range callers).foldl (fun s c => (step MAX_PEERS s closed (.call c)).1) init
  let eligible := (peers.filter (fun p => p.connected && p.trusted)).length
  let rec go (s : State) (rounds : List (List Ans)) (first : Bool) (acc : Run) : Run :=
    match rounds with
    | [] => acc
    | as :: rest =>
      let (s1, outs) := step MAX_PEERS s closed (.schedule peers)
      let to := outs.filterMap (fun o => match o with | .sent t => some t | _ => none) |>.flatten
      let tf := to.filterMap (fun i => (peers.find? (fun p => p.id == i)).map flagOf)
      let tfStr := if tf.isEmpty then "-" else ".".intercalate tf
      let s2 := if first then (List.range late).foldl (fun s c => (step MAX_PEERS s closed (.call (callers + c))).1) s1 else s1
      let toStr := if eligible > 10 then "*" else showNatList to
      if to.isEmpty then
        go s2 rest false { acc with sent := acc.sent ++ ["0"], tos := acc.tos ++ [toStr], tfs := acc.tfs ++ [tfStr], rs := acc.rs ++ ["none"] }
      else
        let (s3, outs2) := step MAX_PEERS s2 closed (.done (fit to.length as))
        let ans := outs2.filterMap (fun o => match o with | .answer c h => some (c, h) | _ => none)
        let r := match ans.head? with
          | some (_, h) => idxOf pool h
          | none => "none"
        go s3 rest false { sent := acc.sent ++ [toString to.length], tos := acc.tos ++ [toStr], tfs := acc.tfs ++ [tfStr],
                           rs := acc.rs ++ [r],
                           answered := acc.answered ++
                             ((ans.filter (fun a => !closed.contains a.1)).map (fun a => (a.1, idxOf pool a.2))) }
  let run := go s0 rounds true {}
  let live := callers - closedN + (if rounds.isEmpty then 0 else late)
  let ansStr := if run.answered.isEmpty then "-" else ",".intercalate (run.answered.map (fun a => s!"{a.1}:{a.2}"))
  s!"sent={"/".intercalate run.sent} to={"/".intercalate run.tos} tf={"/".intercalate run.tfs} bad=0 dup=0 r={"/".intercalate run.rs} ans={ansStr} of={live}"

def step (pool : Pool) (line : String) : Pool × String :=
  let ws := words line
  match ws with
  | "reset" :: _ => ([], "ok")
  | "pool" :: _ =>
    match arg? ws "h" with
    | some s => match (s.splitOn ",").mapM parsePoolItem with
      | some p => (p, s!"ok {p.length}")
      | none => (pool, "bad-op")
    | none => (pool, "bad-op")
  | "head" :: _ =>
    match (arg? ws "peers").bind parsePeers, natArg? ws "callers", natArg? ws "closed", natArg? ws "late", arg? ws "rounds" with
    | some peers, some callers, some closedN, some late, some rounds =>
      (pool, runOp pool peers callers closedN late (parseRounds pool rounds))
    | _, _, _, _, _ => (pool, "bad-op")
  | _ => (pool, "bad-op")

/-! ### spec on the implementation's result -/

def specHdr (h : Hdr) : Lumina.Spec.C31.Hdr := { height := h.height, hash := h.hash }

open Lumina.Spec.C31 in
def spec (pool : Pool) (op : String) (obs : String) : String :=
  let ws := words op
  let os := words obs
  match ws with
  | "head" :: _ =>
    if os == ["panic"] then "specfail C31/panic the client handler panicked" else
    match (arg? ws "peers").bind parsePeers, natArg? ws "callers", natArg? ws "closed", natArg? ws "late", arg? ws "rounds",
          arg? os "sent", arg? os "to", arg? os "tf", natArg? os "bad", natArg? os "dup", arg? os "r", arg? os "ans", natArg? os "of" with
    | some peers, some callers, some closedN, some late, some rounds,
      some sent, some to, some tf, some bad, some dup, some r, some ansS, some live =>
      let rds := parseRounds pool rounds
      let sents := (sent.splitOn "/").filterMap String.toNat?
      let tos := to.splitOn "/"
      let tfs := tf.splitOn "/"
      let rs := r.splitOn "/"
      let infos : List PeerInfo := peers.map (fun p => { id := p.id, connected := p.connected, trusted := p.trusted })
      -- recipients of every round
      -- `tf` = the connected/trusted flags of the real recipients: every one must be a connected trusted peer
      let flagsOk := (tfs.zip sents).all (fun (f, k) =>
        let fl := if f == "-" then [] else f.splitOn "."
        fl.all (· == "ct") && fl.length == k)
      let recipOk := bad == 0 && dup == 0 && flagsOk && tos.length == sents.length && tfs.length == sents.length &&
        (tos.zip sents).all (fun (t, k) =>
        if t == "*" then
          -- more than 10 eligible peers: which ten are asked is HashMap order; exactly 10 must be asked
          decide (k ≤ 10) && (k == 0 || k == 10)
        else match (if t == "-" then some [] else (t.splitOn ",").mapM String.toNat?) with
          | some l => (l.isEmpty || specRecipients infos l) && l.length == k
          | none => false)
      if !recipOk then "specfail C31/recipients a HEAD request went to a peer that is not connected and trusted, or eligible peers were left out" else
      -- the round that produced the head: rule over the answers of that round
      let rec check (rds : List (List Ans)) (sents : List Nat) (rs : List String) (answered : Bool) : Option String :=
        match rds, sents, rs with
        | as :: rds', k :: sents', r :: rs' =>
          if answered then
            (if k == 0 && r == "none" then check rds' sents' rs' true else some "C31/request-after-answer")
          else
            let reported := (valid (fit k as)).map specHdr
            let res : Option (Option Lumina.Spec.C31.Hdr) :=
              if r == "none" then some none
              else match String.toNat? r with
                | some i => (pool.lookup i).map (fun h => some (specHdr h))
                | none => none
            match res with
            | none => some "C31/unknown-head"
            | some res =>
              if k == 0 then (if r == "none" then check rds' sents' rs' false else some "C31/answer-without-request")
              else if specBestHead reported res then check rds' sents' rs' (r != "none")
              else some "C31/best-head-rule"
        | [], [], [] => none
        | _, _, _ => some "C31/unparsed"
      match check rds sents rs false with
      | some fp => s!"specfail {fp} the resolved head is not the one the best-head rule prescribes"
      | none =>
        -- fan-out: every caller waiting when the head was resolved received exactly that head, once
        let expectLive := callers - closedN + (if rds.isEmpty then 0 else late)
        let waiting : List Nat := (List.range callers).filter (fun c => decide (closedN ≤ c)) ++
          (if rds.isEmpty then [] else (List.range late).map (· + callers))
        let dummy : Lumina.Spec.C31.Hdr := { height := 0, hash := [] }
        let answers? : Option (List (Nat × Lumina.Spec.C31.Hdr)) :=
          if ansS == "-" then some []
          else (ansS.splitOn ",").mapM (fun a => match a.splitOn ":" with
            | [c, v] => (String.toNat? c).map (fun c =>
                (c, match (String.toNat? v).bind (fun i => pool.lookup i) with | some h => specHdr h | none => dummy))
            | _ => none)
        let head? : Option Lumina.Spec.C31.Hdr :=
          match rs.find? (· != "none") with
          | some v => ((String.toNat? v).bind (fun i => pool.lookup i)).map specHdr
          | none => none
        match answers? with
        | none => "specfail C31/unparsed"
        | some answers =>
          if live != expectLive then "specfail C31/unparsed"
          else match head? with
            | some h =>
              if specFanout waiting h answers then "specok"
              else if answers.any (fun a => a.2 != h) then
                "specfail C31/fanout-different-answer a waiting caller received something other than the chosen head"
              else "specfail C31/fanout-missed-caller the callers answered are not exactly the waiting callers, each once"
            | none =>
              if answers.isEmpty then "specok"
              else "specfail C31/fanout-different-answer a caller was answered although no head was resolved"
    | _, _, _, _, _, _, _, _, _, _, _, _, _ => "specfail C31/unparsed"
  | _ => "specskip"

def handler : Driver.Handler Pool := { init := [], step := step, spec := spec }

end Driver.C31

def main (args : List String) : IO UInt32 := Driver.run Driver.C31.handler args

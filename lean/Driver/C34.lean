import Driver.DaserCommon
import Lumina.Gen.C34
import Lumina.Model.DaserView

open Lumina.Util Lumina.Model.Daser

namespace Driver.C34
open Lumina.Spec.C34

def maxSamples : Nat := Lumina.Gen.C34.MAX_SAMPLES_NEEDED
def threshold : Nat := Lumina.Gen.C34.PRUNER_THRESHOLD

def init0 : Driver.Daser.DState :=
  { n := 0, s := (Lumina.Model.Daser.init
    { limit := Lumina.Gen.C34.DEFAULT_CONCURENCY_LIMIT, extra := Lumina.Gen.C34.DEFAULT_ADDITIONAL_HEADER_SUB_CONCURENCY,
      maxSamples := maxSamples, prunerThreshold := threshold }
    (fun _ => { width := 0, fresh := false })) }

/-- which clause of `startOK` a rejected start breaks (diagnostics only) -/
def whyStart (v : View) (h : Nat) : String :=
  if !(v.alive && v.connected) then "C34/start-while-disconnected a block was started while the sampler had no peers"
  else if !v.stored h then "C34/start-not-stored the started block is not in the store"
  else if !eligible v h then "C34/start-ineligible the started block is sampled, in progress, promised to the pruner, timed out or unknown"
  else if !(above v h).all (fun x => !eligible v x) then "C34/start-not-highest a higher eligible height exists"
  else if !v.fresh h then "C34/start-outside-window the started block is older than the sampling window"
  else if decide (h ≤ v.highestPrunable.getD 0) && decide (v.numPrunable ≥ 512) then
    "C34/start-prunable-backlog a prunable block was started while the pruner backlog is at least 512"
  else "C34/start-over-limit the concurrency limit (plus head allowance) was already reached"

/-- the view in which the first rejected action was evaluated -/
def viewAt (v : View) : List Tok → View
  | [] => v
  | t :: ts => match onTok v t with
    | none => v
    | some v' => viewAt v' ts

def spec (d : Driver.Daser.DState) (op : String) (obs : String) : String :=
  let s := d.s
  let ws := words op
  match ws with
  | "reset" :: _ => "specskip"
  | "ridx" :: _ => "specskip"
  | _ =>
    match Driver.Daser.resolve d ws with
    | .bad => "specfail C34/unparsed"
    | .noop => if obs == "noop" then "specok" else "specfail C34/acted-on-noop"
    | .rejected => if obs == "storeerr" then "specok" else "specfail C34/acted-on-noop"
    | .badAns _ _ =>
      match Driver.Daser.parseToks obs with
      | none => "specfail C34/unparsed"
      | some toks =>
        if specBadAnswer (view34 s) toks then "specok"
        else "specfail C34/after-bad-answer the worker went on sampling (or marked a block) after an answer that is neither a sample nor a timeout"
    | .ev e =>
      match Driver.Daser.parseToks obs with
      | none => if obs == "panic" then "specfail C34/panic the harness panicked" else "specfail C34/unparsed"
      | some toks =>
        if specOK (view34 s) e toks then "specok"
        else
          let v0 := applyEv (view34 s) e (toks == [Tok.storeErr])
          match firstBad v0 toks with
          | some (.metaUpd h _) => "specfail " ++ whyStart (viewAt v0 toks) h
          | some (.started h _ _) => "specfail " ++ whyStart (viewAt v0 toks) h
          | some (.req h _) => "specfail " ++ whyStart (viewAt v0 toks) h
          | _ => "specfail C34/other"

def handler : Driver.Handler Driver.Daser.DState :=
  { init := init0, step := Driver.Daser.step maxSamples threshold, spec := spec }

end Driver.C34

def main (args : List String) : IO UInt32 := Driver.run Driver.C34.handler args

import Driver.D2Common
import Lumina.Model.EdsCode
import Lumina.Spec.C08

open Lumina.Util Lumina.Model.Nmt Lumina.Model.Eds Lumina.Model.EdsCode Driver.D2Common

namespace Driver.C08

/-- the reference encoder of one `extend` line: every encoder call the real codec was asked in the harness — rows
    of Q0, columns of Q0, rows of Q2 (the three passes) and, independently, the columns of Q1 (`q3c`) -/
def tableOf (ws : List String) (ods : List Bytes) : Table :=
  match hexListArg? ws "q1", hexListArg? ws "q2", hexListArg? ws "q3", hexListArg? ws "q3c" with
  | some q1, some q2, some q3, some q3c =>
    let k := isqrt ods.length
    tableOfQuadrants k ods q1 q2 q3 ++ (sqCols k q1).zip (sqCols k q3c)
  | _, _, _, _ => []

def maskOf (s : String) : List Bool := s.toList.map (fun c => c == '1')

def step (_ : Unit) (line : String) : Unit × String :=
  let ws := words line
  let out : String :=
    match ws with
    | "reset" :: _ => "ok"
    | "extend" :: _ =>
      match natArg? ws "ver", hexListArg? ws "ods" with
      | some ver, some ods =>
        match fromOds (encOf (tableOf ws ods)) ver ods with
        | .ok e => showEds e
        | .error e => s!"err {e.kind}"
      | _, _ => "bad-op"
    | "new" :: _ =>
      match natArg? ws "ver", hexListArg? ws "data" with
      | some ver, some data =>
        match edsNew ver data with
        | .ok _ => "ok"
        | .error e => s!"err {e.kind}"
      | _, _ => "bad-op"
    | "recon" :: _ =>
      match natArg? ws "k", hexListArg? ws "full", arg? ws "mask" with
      | some k, some full, some m =>
        let erased := Lumina.Spec.C08.erase (maskOf m) full
        match leopardReconstructPre erased k with
        | .err => "err"
        | _ => s!"ok {showHexList full}"      -- MDS: a codeword with at least `k` symbols present comes back whole
      | _, _, _ => "bad-op"
    | "linear" :: _ => "ok"                    -- linearity of the codec is a hypothesis of the model
    | _ => "bad-op"
  ((), out)

def parseObs (os : List String) : Option Lumina.Spec.C08.Obs :=
  match os with
  | "err" :: _ => some .err
  | "ok" :: _ =>
    match natArg? os "w", hexListArg? os "data" with
    | some w, some d => some (.ok w d)
    | _, _ => none
  | _ => none

def spec (_ : Unit) (op : String) (obs : String) : String :=
  let ws := words op
  let os := words obs
  match ws with
  | "reset" :: _ => "specskip"
  | "extend" :: _ =>
    match natArg? ws "ver", hexListArg? ws "ods", parseObs os with
    | some ver, some ods, some o =>
      let accepted := o != .err
      if !Lumina.Spec.C08.specExtend (encOf (tableOf ws ods)) ods o then
        "specfail C08/extension-not-a-2d-code the first quadrant is not the original square or some row/column is not a codeword of the reference codec"
      else if !Lumina.Spec.C08.specRejects (Lumina.Spec.C08.malformedOds ver ods) accepted then
        "specfail C08/malformed-ods-accepted"
      else if natArg? ws "valid" == some 1 && !accepted then
        -- known limitation (open finding): the GF(2^8) codec cannot extend squares wider than 128 although app versions
        -- from 6 on allow up to 512
        (if isqrt ods.length > 128 then "specfail C08/valid-ods-wider-than-codec-rejected a valid original square wider than 128 cannot be extended"
         else "specfail C08/valid-ods-rejected")
      else "specok"
    | _, _, _ => if os.head? == some "panic" then "specfail C08/extend-panic" else "specfail C08/unparsed"
  | "new" :: _ =>
    match natArg? ws "ver", hexListArg? ws "data" with
    | some ver, some data =>
      let accepted := os.head? == some "ok"
      if os.head? == some "panic" then "specfail C08/new-panic"
      else if !Lumina.Spec.C08.specRejects (Lumina.Spec.C08.malformedEds ver data) accepted then
        "specfail C08/malformed-eds-accepted"
      -- validity is DECIDED here from the shares (not taken from the generator): every valid square must be accepted
      else if !Lumina.Spec.C08.specAccepts (Lumina.Spec.C08.validEds ver data) accepted then "specfail C08/valid-eds-rejected"
      else if natArg? ws "valid" == some 1 && !accepted then "specfail C08/valid-eds-rejected"
      else "specok"
    | _, _ => "specfail C08/unparsed"
  | "recon" :: _ =>
    match natArg? ws "k", hexListArg? ws "full", arg? ws "mask" with
    | some k, some full, some m =>
      let present := ((maskOf m).filter id).length
      if present < k then "specskip"            -- fewer than half: nothing is promised
      else
        let o : Option (List Bytes) := match os with
          | ["ok", l] => hexListArg? [s!"x={l}"] "x"
          | _ => none
        if Lumina.Spec.C08.specReconstruct full o then "specok"
        else "specfail C08/half-does-not-reconstruct at least half of a codeword's shares did not reconstruct the axis"
    | _, _, _ => "specfail C08/unparsed"
  | "linear" :: _ => if os == ["ok"] then "specok" else "specfail C08/codec-not-linear the real codec violates the linearity hypothesis"
  | _ => "specfail C08/unparsed"

def handler : Driver.Handler Unit := { init := (), step := step, spec := spec }

end Driver.C08

def main (args : List String) : IO UInt32 := Driver.run Driver.C08.handler args

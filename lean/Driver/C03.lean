import Driver.Common
import Driver.ConsensusE
import Lumina.Model.Commit
import Lumina.Spec.C03
import Lumina.Gen.C03

open Lumina.Util Lumina.Model.Commit Driver.ConsensusE

namespace Driver.C03

def run (line : String) : String :=
  let ws := words line
  match ws with
  | "light" :: _ =>
    match parseSet ws "", parseSigs ws "", natArg? ws "h", natArg? ws "ch", natListArg? ws "bits" with
    | some vs, some sigs, some h, some ch, some bits =>
      let ok := fun (_ j : Nat) => bits.getD j 0 == 1
      showOutcome (verifyCommitLight ok Lumina.Gen.C03.LIGHT_NUM Lumina.Gen.C03.LIGHT_DEN vs h ch sigs) bits
        ((natListArg? ws "ibits").getD [])
    | _, _, _, _, _ => "bad-op"
  | "trusting" :: _ =>
    match parseSet ws "", parseSigs ws "", natArg? ws "tn", natArg? ws "td", natListArg? ws "bits" with
    | some vs, some sigs, some tn, some td, some bits =>
      let ok := fun (_ j : Nat) => bits.getD j 0 == 1
      showOutcome (verifyCommitLightTrusting ok tn td vs sigs) bits ((natListArg? ws "ibits").getD [])
    | _, _, _, _, _ => "bad-op"
  | "reset" :: _ => "ok"
  | _ => "bad-op"

def step (_ : Unit) (line : String) : Unit × String := ((), run line)

open Lumina.Spec.C03 in
def spec (_ : Unit) (op : String) (obs : String) : String :=
  let ws := words op
  let ows := words obs
  let accepted := ows.head? == some "ok"
  -- validity bits as the implementation's result line reports them (recomputed by `run`):
  -- `bits` through lumina's own vote_sign_bytes, `ibits` over the independently encoded canonical vote
  let signBytesFail := "specfail C03/sign-bytes signature validity through lumina's vote_sign_bytes differs from validity over the canonical vote"
  match ws with
  | "light" :: _ =>
    match parseSet ws "", parseSigs ws "", natArg? ws "h", natArg? ws "ch", obsNatList ows ws "bits", obsNatList ows ws "ibits" with
    | some vs, some sigs, some h, some ch, some lbits, some bits =>
      if lbits != bits then signBytesFail
      else if !vs.wf then "specskip"
      else
        let inp := specInput vs h ch sigs
        let valid := fun (i j : Nat) => i == j && bits.getD j 0 == 1
        if !specLightSound inp valid accepted then "specfail C03/light-sound accepted without 2/3 of valid power"
        else if !specLightExact inp valid accepted then "specfail C03/light-exact verdict differs from (signing power > 2/3)"
        else "specok"
    | _, _, _, _, _, _ => "specfail C03/unparsed"
  | "trusting" :: _ =>
    match parseSet ws "", parseSigs ws "", natArg? ws "tn", natArg? ws "td", obsNatList ows ws "bits", obsNatList ows ws "ibits" with
    | some vs, some sigs, some tn, some td, some lbits, some bits =>
      if lbits != bits then signBytesFail
      else if !vs.wf then "specskip"
      else if tn != 1 || td != 3 then
        -- other trust levels: the same two clauses at level tn/td
        let inp := specInput vs 0 0 sigs
        let addrs := vs.vals.map (·.addr)
        let valid := fun (i j : Nat) =>
          bits.getD j 0 == 1 && (match sigs[j]? with
            | some s => firstIdx addrs s.addr == some i
            | none => false)
        if !specTrustingSoundLevel tn td inp valid accepted then
          s!"specfail C03/trusting-sound-level accepted without {tn}/{td} of valid trusted power"
        else if !specTrustingExactLevel tn td inp valid accepted then
          s!"specfail C03/trusting-exact-level verdict differs from (distinct trusted signing power > {tn}/{td})"
        else "specok"
      else
        let inp := specInput vs 0 0 sigs
        let addrs := vs.vals.map (·.addr)
        -- the bit of entry j is the verdict under the FIRST trusted validator with that address
        let valid := fun (i j : Nat) =>
          bits.getD j 0 == 1 && (match sigs[j]? with
            | some s => firstIdx addrs s.addr == some i
            | none => false)
        if !specTrustingSound inp valid accepted then "specfail C03/trusting-sound accepted without 1/3 of valid trusted power"
        else if !specTrustingExact inp valid accepted then "specfail C03/trusting-exact verdict differs from (distinct trusted signing power > 1/3)"
        else "specok"
    | _, _, _, _, _, _ => "specfail C03/unparsed"
  | "reset" :: _ => "specskip"
  | _ => "specfail C03/unparsed"

def handler : Driver.Handler Unit := { init := (), step := step, spec := spec }

end Driver.C03

def main (args : List String) : IO UInt32 := Driver.run Driver.C03.handler args

/-
  Driver for C36 (pruner window-edge search).

    chain times=t1,t2,…        header time of height i is t_i (heights 1..n); empties the store
    store rs=s-e,s-e,…          the store now holds exactly these heights
    find cutoff=C prev=-|P [snap=s-e,…]   find_height_after_window
    fast cutoff=C prev=-|P [snap=…]       find_height_after_window_fast
    slow cutoff=C [snap=…]                find_height_after_window_slow
  `snap` = the `stored_headers` argument when it is NOT the store's current content (stale
  snapshot; exercises the NotFound path).  Results: `ok none | ok some H | ok search |
  err store-not-found | err diverge | panic`.
-/
import Driver.Common
import Driver.RangesIO
import Lumina.Model.Pruner
import Lumina.Spec.C36

open Lumina.Util Lumina.Model.Ranges Lumina.Model.Pruner Driver.RangesIO

namespace Driver.C36

structure St where
  times : List Nat := []
  stored : Ranges := []

def St.time (s : St) (h : Nat) : Nat := if h = 0 then 0 else s.times.getD (h - 1) 0

def St.store (s : St) (h : Nat) : Option Nat :=
  if contains s.stored h && decide (h ≤ s.times.length) then some (s.time h) else none

def showErr : PErr → String
  | .storeNotFound => "err store-not-found"
  | .panic => "panic"
  | .diverge => "err diverge"
  | .daser => "err daser"

def showFind : PRes (Option Nat) → String
  | .ok none => "ok none"
  | .ok (some h) => s!"ok some {h}"
  | .error e => showErr e

def showFast : PRes (Option (Option Nat)) → String
  | .ok none => "ok search"
  | .ok (some none) => "ok none"
  | .ok (some (some h)) => s!"ok some {h}"
  | .error e => showErr e

/-- `prev=-` ↦ none, `prev=7` ↦ some 7 -/
def prevArg? (ws : List String) : Option (Option Nat) :=
  match arg? ws "prev" with
  | none => none
  | some "-" => some none
  | some s => s.toNat?.map some

/-- the `stored_headers` argument: `snap=` if given (must be a well-formed `BlockRanges`), else the store's -/
def snapArg (s : St) (ws : List String) : Option Ranges :=
  match arg? ws "snap" with
  | none => some s.stored
  | some t => match parseRanges t with
    | some v => match fromVec v with
      | .ok v => some v
      | .error _ => none
    | none => none

def step (s : St) (line : String) : St × String :=
  let ws := words line
  match ws with
  | "reset" :: _ => ({}, "ok")
  | "chain" :: _ =>
    match natListArg? ws "times" with
    | some ts => ({ times := ts, stored := [] }, "ok")
    | none => (s, "bad-op")
  | "store" :: _ =>
    match rangesArg? ws "rs" with
    | some v => match fromVec v with
      | .ok v => ({ s with stored := v }, "ok")
      | .error _ => (s, "bad-op")
    | none => (s, "bad-op")
  | "find" :: _ =>
    match natArg? ws "cutoff", prevArg? ws, snapArg s ws with
    | some c, some p, some snap => (s, showFind (find s.store snap c p))
    | _, _, _ => (s, "bad-op")
  | "fast" :: _ =>
    match natArg? ws "cutoff", prevArg? ws, snapArg s ws with
    | some c, some p, some snap => (s, showFast (findFast s.store snap c p))
    | _, _, _ => (s, "bad-op")
  | "slow" :: _ =>
    match natArg? ws "cutoff", snapArg s ws with
    | some c, some snap => (s, showFind (findSlow s.store snap c))
    | _, _ => (s, "bad-op")
  | _ => (s, "bad-op")

open Lumina.Spec.C36 in
/-- `specOK` on the implementation's observed answer -/
def spec (s : St) (op : String) (obs : String) : String :=
  let ws := words op
  let os := words obs
  let stored := heights s.stored
  let verdict (c : Nat) (prev : Option Nat) (fp : String) : String :=
    if (arg? ws "snap").isSome then "specskip"
    else if !(timesIncrease stored s.time && admissible stored s.time c prev) then "specskip"
    else
      match os with
      | ["ok", "search"] => "specok"
      | ["ok", "none"] =>
        if answerOK stored s.time c none then "specok"
        else s!"specfail C36/{fp}-none-but-older-header-stored an older header is stored"
      | ["ok", "some", h] =>
        match h.toNat? with
        | some h =>
          if answerOK stored s.time c (some h) then "specok"
          else s!"specfail C36/{fp}-wrong-edge answer {h} is not the window edge"
        | none => "specfail C36/bad-result unparsable"
      | _ => s!"specfail C36/{fp}-failed search failed on admissible input: {obs}"
  match ws with
  | "reset" :: _ => "specskip"
  | "chain" :: _ => "specskip"
  | "store" :: _ => "specskip"
  | "find" :: _ =>
    match natArg? ws "cutoff", prevArg? ws with
    | some c, some p => verdict c p "find"
    | _, _ => "specskip"
  | "fast" :: _ =>
    match natArg? ws "cutoff", prevArg? ws with
    | some c, some p => verdict c p "fast"
    | _, _ => "specskip"
  | "slow" :: _ =>
    match natArg? ws "cutoff" with
    | some c => verdict c none "slow"
    | none => "specskip"
  | _ => "specskip"

def handler : Driver.Handler St := { init := {}, step := step, spec := spec }

end Driver.C36

def main (args : List String) : IO UInt32 := Driver.run Driver.C36.handler args

/-
  Line protocol shared by the drivers of C19 / C20 / C21 (header stores).

  Every operation line is executed on the three models: `MemStore`, `RedbStore` (printed,
  compared with the real stores) and the abstract store of `Spec/C19.lean` (used by the spec
  verdicts).  After every mutating operation the full observable state is dumped by running
  every query of the `Store` trait over the universe of the history's header pool, exactly
  like `harness/src/shared/store_hist.rs` does on the real stores.
-/
import Driver.Common
import Lumina.Model.Util
import Lumina.Model.Store
import Lumina.Spec.C19

open Lumina.Util
open Lumina.Model.Store
open Lumina.Spec.C19 (AbsStore)

namespace Driver.StoreCommon

/-- does the in-memory store of /repo contain the C20 fix (hash pre-check in `insert`)? -/
def fixedMem : Bool := true

inductive Mode where
  | c19 | c20 | c21
deriving DecidableEq

structure St where
  mode : Mode
  pool : Array Hdr
  nextHash : Nat
  /-- verification oracle accumulated from the `vok=` arguments: `ok[a]` = ids `b` with `a.verify(b) = Ok` -/
  ok : Array (List Nat)
  mem : MemStore
  redb : Tables
  abs : AbsStore

def St.init (mode : Mode) : St :=
  { mode, pool := #[], nextHash := 0, ok := #[], mem := MemStore.new, redb := RedbStore.new,
    abs := Lumina.Spec.C19.init }

def St.verify (s : St) (a b : Hdr) : Bool := (s.ok.getD a.id []).contains b.id

/-! ## rendering -/

def rerrName : RErr → String
  | .unsorted => "Unsorted" | .invalid => "Invalid" | .overlap => "Overlap" | .noAdjacent => "NoAdjacent"

def errName : Err → String
  | .notFound => "NotFound"
  | .headersVerificationFailed => "HeadersVerificationFailed"
  | .neighborsVerificationFailed => "NeighborsVerificationFailed"
  | .constraintsNotMet k => s!"ConstraintsNotMet({rerrName k})"
  | .hashExists q => s!"HashExists({q})"
  | .storedDataError => "StoredDataError"
  | .panic => "panic"

def joinOrDash (l : List String) : String := if l.isEmpty then "-" else ",".intercalate l

def showRanges (r : List (Nat × Nat)) : String := joinOrDash (r.map (fun p => s!"{p.1}-{p.2}"))

/-- run-length compression of an ascending list: `1-3,7-7` -/
def compressGo : Nat → Nat → List Nat → List String
  | s, e, [] => [s!"{s}-{e}"]
  | s, e, x :: rest => if x == e + 1 then compressGo s x rest else s!"{s}-{e}" :: compressGo x x rest

def compress : List Nat → String
  | [] => "-"
  | x :: rest => ",".intercalate (compressGo x x rest)

def showMeta : Option (List Cid) → String
  | none => "none"
  | some [] => "[]"
  | some l => ".".intercalate (l.map toString)

/-- result of one call, as the harness prints it; `none` = the call panicked -/
def showRes : Res → Option String
  | .err .panic => none
  | .err e => some s!"err:{errName e}"
  | .ok .unit => some "ok"
  | .ok (.hdr x) => some s!"ok:{x.id}"
  | .ok (.bool b) => some (toString b)
  | .ok (.nat n) => some s!"ok:{n}"
  | .ok (.md m) => some s!"ok:{showMeta m}"
  | .ok (.hdrs l) => some s!"ok:{joinOrDash (l.map (fun x => toString x.id))}"
  | .ok (.ranges r) => some s!"ok:{showRanges r}"

def orPanic : Option String → String
  | some s => s
  | none => "panic"

/-- the full observable state through the query function `q` (a store frozen in some state) -/
def dump (q : Op → Res) (verify : Hdr → Hdr → Bool) (univ nHashes : Nat) : String := Id.run do
  let mut panicked := false
  let rs (r : Res) : String × Bool := match r with
    | .ok (.ranges x) => (showRanges x, false)
    | .err .panic => ("", true)
    | .err e => (s!"!{errName e}", false)
    | _ => ("?", false)
  let (st, p1) := rs (q .storedRanges)
  let (sa, p2) := rs (q .sampledRanges)
  let (pr, p3) := rs (q .prunedRanges)
  panicked := p1 || p2 || p3
  let hh := match q .headHeight with
    | .ok (.nat n) => toString n
    | .err .panic => "PANIC"
    | .err e => s!"!{errName e}"
    | _ => "?"
  let head := match q .head with
    | .ok (.hdr x) => toString x.id
    | .err .panic => "PANIC"
    | .err e => s!"!{errName e}"
    | _ => "?"
  if hh == "PANIC" || head == "PANIC" then panicked := true
  let mut byh : Array String := #[]
  let mut at_ : Array Nat := #[]
  let mut md : Array String := #[]
  let mut got : Array (Nat × Hdr) := #[]
  for h in List.range (univ + 1) do
    match q (.getByHeight h) with
    | .ok (.hdr x) => byh := byh.push s!"{h}:{x.id}"; got := got.push (h, x)
    | .err .notFound => pure ()
    | .err .panic => panicked := true
    | .err e => byh := byh.push s!"{h}:!{errName e}"
    | _ => pure ()
    match q (.hasAt h) with
    | .ok (.bool true) => at_ := at_.push h
    | _ => pure ()
    match q (.getMeta h) with
    | .err .notFound => pure ()
    | .err .panic => panicked := true
    | .err e => md := md.push s!"{h}:!{errName e}"
    | .ok (.md m) => md := md.push s!"{h}:{showMeta m}"
    | _ => pure ()
  let mut byq : Array String := #[]
  let mut has : Array Nat := #[]
  for k in List.range nHashes do
    match q (.getByHash k) with
    | .ok (.hdr x) => byq := byq.push s!"{k}:{x.id}"
    | .err .notFound => pure ()
    | .err .panic => panicked := true
    | .err e => byq := byq.push s!"{k}:!{errName e}"
    | _ => pure ()
    match q (.has k) with
    | .ok (.bool true) => has := has.push k
    | _ => pure ()
  -- C21: consecutive stored headers verify as adjacent; the hash index returns the same header
  let mut adj : Array Nat := #[]
  let mut hidx : Array Nat := #[]
  for (h, x) in got do
    match got.find? (fun p => p.1 == h + 1) with
    | some (_, y) => if !verifyAdjacent verify x y then adj := adj.push h
    | none => pure ()
    let okq := match q (.getByHash x.hash) with
      | .ok (.hdr z) => z == x && z.height == h
      | _ => false
    let hasq := match q (.has x.hash) with
      | .ok (.bool true) => true
      | _ => false
    if !okq || !hasq then hidx := hidx.push h
  if panicked then return "panic"
  return s!"st={st} sa={sa} pr={pr} hh={hh} head={head} byh={joinOrDash byh.toList} at={compress at_.toList} md={joinOrDash md.toList} byq={joinOrDash byq.toList} has={compress has.toList} adj={compress adj.toList} hidx={compress hidx.toList}"

/-! ## parsing -/

def parseBound (s : String) : Option Bound :=
  if s == "u" then some .unbounded
  else match s.toList with
    | 'i' :: rest => (String.ofList rest).toNat?.map .included
    | 'e' :: rest => (String.ofList rest).toNat?.map .excluded
    | _ => none

def parsePairs (s : String) : Option (List (Nat × Nat)) :=
  if s == "-" then some []
  else (s.splitOn ",").mapM (fun t => match t.splitOn ">" with
    | [a, b] => match a.toNat?, b.toNat? with
      | some x, some y => some (x, y)
      | _, _ => none
    | _ => none)

def St.universe (s : St) : Nat := (s.pool.foldl (fun m h => max m h.height) 0) + 1

/-- the operation a (non-`gen`, non-`reset`) line denotes -/
def parseOp (s : St) (ws : List String) : Option Op :=
  match ws with
  | "insert" :: _ => do
    let ids ← natListArg? ws "ids"
    let hs ← ids.mapM (fun i => s.pool[i]?)
    pure (.insert hs)
  | "remove" :: _ => (natArg? ws "h").map .remove
  | "mark" :: _ => (natArg? ws "h").map .mark
  | "meta" :: _ => do
    let h ← natArg? ws "h"
    let c ← natListArg? ws "cids"
    pure (.updMeta h c)
  | "get_by_height" :: _ => (natArg? ws "h").map .getByHeight
  | "has_at" :: _ => (natArg? ws "h").map .hasAt
  | "get_by_hash" :: _ => (natArg? ws "q").map .getByHash
  | "has" :: _ => (natArg? ws "q").map .has
  | "get_meta" :: _ => (natArg? ws "h").map .getMeta
  | "head" :: _ => some .head
  | "head_height" :: _ => some .headHeight
  | "get_range" :: _ => do
    let lo ← (arg? ws "lo").bind parseBound
    let hi ← (arg? ws "hi").bind parseBound
    pure (.getRange lo hi)
  | _ => none

/-- the headers a `gen` line adds to the pool: `(height, hash, valid)` each; `none` hash = fresh -/
def genSpec (s : St) (ws : List String) : Option (List (Nat × Option Hash × Bool)) :=
  match arg? ws "kind" with
  | some "chain" => do
    let n ← natArg? ws "n"
    pure ((List.range n).map (fun i => (i + 1, none, true)))
  | some "fork" => do
    let f ← natArg? ws "from"
    let n ← natArg? ws "n"
    let p ← s.pool[f]?
    pure ((List.range n).map (fun i => (p.height + 1 + i, none, true)))
  | some "another" => do
    let o ← natArg? ws "of"
    let p ← s.pool[o]?
    pure [(p.height, none, true)]
  | some "unverify" => do
    -- re-signed by another validator set: fresh hash; an unvalidated original stays invalid
    let o ← natArg? ws "of"
    let p ← s.pool[o]?
    pure [(p.height, none, p.valid)]
  | some "duphash" => do
    let o ← natArg? ws "of"
    let y ← natArg? ws "hashof"
    let p ← s.pool[o]?
    let r ← s.pool[y]?
    pure [(p.height, some r.hash, false)]
  | some "relink" => do
    -- a copy of `of` pointing to another predecessor: same hash, unvalidated
    let o ← natArg? ws "of"
    let _ ← natArg? ws "prev"
    let p ← s.pool[o]?
    pure [(p.height, some p.hash, false)]
  | some "setheight" => do
    let o ← natArg? ws "of"
    let h ← natArg? ws "h"
    let p ← s.pool[o]?
    pure [(h, some p.hash, false)]
  | _ => none

def doGen (s : St) (ws : List String) : St × String :=
  match genSpec s ws with
  | none => (s, "bad-op")
  | some specs =>
    let (s', parts) := specs.foldl (fun (acc : St × List String) (sp : Nat × Option Hash × Bool) =>
      let (st, out) := acc
      let id := st.pool.size
      let (q, nh) := match sp.2.1 with
        | some q => (q, st.nextHash)
        | none => (st.nextHash, st.nextHash + 1)
      ({ st with pool := st.pool.push { id, height := sp.1, hash := q, valid := sp.2.2 }, nextHash := nh,
                 ok := st.ok.push [] },
       out ++ [s!"{id}:{sp.1}:{q}:{if sp.2.2 then 1 else 0}"])) (s, [])
    (s', s!"ok {joinOrDash parts}")

def addOracle (s : St) (pairs : List (Nat × Nat)) : St :=
  { s with ok := pairs.foldl (fun ok p =>
      if p.1 < ok.size then
        let l := ok.getD p.1 []
        if l.contains p.2 then ok else ok.set! p.1 (p.2 :: l)
      else ok) s.ok }

/-- result part of one store for a mutating op (`withPre` = C20 mode) -/
def mutPart (s : St) (q0 q1 : Op → Res) (r : Res) : String :=
  let u := s.universe
  let res := orPanic (showRes r)
  let post := dump q1 s.verify u s.nextHash
  let base := s!"{res} ; {post}"
  if s.mode == .c20 && res != "ok" then s!"{base} ; pre {dump q0 s.verify u s.nextHash}" else base

/-- model step: returns the new state, the printed line, and the abstract store's part (for specs) -/
def stepFull (s : St) (line : String) : St × String × String :=
  let ws := words line
  match ws with
  | "reset" :: _ => (St.init s.mode, "ok", "")
  | "gen" :: _ => let (s', o) := doGen s ws; (s', o, "")
  | "dump" :: _ =>
    let u := s.universe
    let m := dump (fun op => (MemStore.stepWith fixedMem s.verify s.mem op).2) s.verify u s.nextHash
    let r := dump (fun op => (RedbStore.stepL id s.verify s.redb op).2) s.verify u s.nextHash
    let a := dump (fun op => (AbsStore.step s.verify s.abs op).2) s.verify u s.nextHash
    (s, s!"mem ok ; {m} || redb ok ; {r}", s!"ok ; {a}")
  | _ =>
    -- the oracle of an insert line is known before the call
    let s := match ws with
      | "insert" :: _ => match (arg? ws "vok").bind parsePairs with
        | some ps => addOracle s ps
        | none => s
      | _ => s
    match parseOp s ws with
    | none => (s, "bad-op", "")
    | some op =>
      let v := s.verify
      let (mem', rm) := MemStore.stepWith fixedMem v s.mem op
      let (redb', rr) := RedbStore.stepL id v s.redb op
      let (abs', ra) := AbsStore.step v s.abs op
      let s' := { s with mem := mem', redb := redb', abs := abs' }
      if op.mutating then
        let m := mutPart s (fun o => (MemStore.stepWith fixedMem v s.mem o).2) (fun o => (MemStore.stepWith fixedMem v mem' o).2) rm
        let r := mutPart s (fun o => (RedbStore.stepL id v s.redb o).2) (fun o => (RedbStore.stepL id v redb' o).2) rr
        let a := mutPart s (fun o => (AbsStore.step v s.abs o).2) (fun o => (AbsStore.step v abs' o).2) ra
        (s', s!"mem {m} || redb {r}", a)
      else
        (s', s!"mem {orPanic (showRes rm)} || redb {orPanic (showRes rr)}", orPanic (showRes ra))

def step (s : St) (line : String) : St × String :=
  let (s', o, _) := stepFull s line
  (s', o)

/-- split an observed line into the in-memory and the redb part -/
def splitObs (obs : String) : Option (String × String) :=
  match obs.splitOn " || redb " with
  | [m, r] => if m.startsWith "mem " then some ((m.drop 4).toString, r) else none
  | _ => none

def isStoreOp (line : String) : Bool :=
  match words line with
  | "reset" :: _ => false
  | "gen" :: _ => false
  | [] => false
  | _ => true

end Driver.StoreCommon

import Driver.Common
import Lumina.Model.Framing
import Lumina.Spec.C30
import Lumina.Gen.C30

open Lumina.Util Lumina.Model.Framing
open Lumina.Spec.C30 (Obs)

namespace Driver.C30

def adler (b : Bytes) : Nat :=
  let (a, s) := b.foldl (fun (p : Nat × Nat) x =>
    let a := (p.1 + x.toNat) % 65521
    (a, (p.2 + a) % 65521)) (1, 0)
  s * 65536 + a

def showReq (r : HeaderRequest) : String :=
  let d := match r.data with
    | .none => "none"
    | .origin o => s!"o:{o}"
    | .hash h => s!"h:{toHexOrDash h}"
  s!"a={r.amount} d={d}"

def digest (r : HeaderResponse) : String :=
  s!"{r.status}:{r.body.length}:{adler r.body}:{if r.body.length ≤ 32 then toHexOrDash r.body else "+"}"

def showResps (rs : List HeaderResponse) : String :=
  s!"n={rs.length} {",".intercalate (rs.map digest)}"

def wireShow (w : Bytes) : String :=
  s!"wl={w.length} wa={adler w} w={if w.length ≤ 256 then toHexOrDash w else "+"}"

def parseReq (ws : List String) : Option HeaderRequest := do
  let a ← natArg? ws "a"
  let d ← arg? ws "d"
  if d == "none" then some { amount := a, data := .none }
  else if d.startsWith "o:" then
    (String.toNat? (d.drop 2).toString).map (fun o => { amount := a, data := .origin o })
  else if d.startsWith "h:" then
    (fromHex (d.drop 2).toString).map (fun h => { amount := a, data := .hash h })
  else none

def parseItem (s : String) : Option HeaderResponse :=
  match s.splitOn ":" with
  | [st, len, fill, pre] => do
    let st ← String.toInt? st
    let len ← String.toNat? len
    let fill ← fromHexChars fill.toList
    let pre ← fromHex pre
    match fill with
    | [f] => if pre.length > len then none
             else some { status := st, body := pre ++ List.replicate (len - pre.length) f }
    | _ => none
  | _ => none

def parseItems (s : String) : Option (List HeaderResponse) :=
  if s == "-" then some [] else (s.splitOn ",").mapM parseItem

def truncOf (ws : List String) (w : Bytes) : Bytes :=
  match natArg? ws "trunc" with
  | some k => w.take k
  | none => w

def showReadReq (o : Option HeaderRequest) : String :=
  match o with
  | some r => s!"ok {showReq r}"
  | none => "err"

def showReadResp (o : Option (List HeaderResponse)) : String :=
  match o with
  | some rs => s!"ok {showResps rs}"
  | none => "err"

/-- (S9) reader events beside plain chunking, all on one `read` call (0-based index):
    `pend=i`  the i-th call never completes: `timeout` fires (`Err(_) => break`) — for the buffer the
              same as EOF at that call (the model does not model time): the schedule is cut there by a 0;
    `block=i` the i-th call delivers its chunk only after the time limit has passed: the next
              loop iteration finds no time left (`checked_sub` → `break`): EOF right after that call;
    `fail=i`  the i-th call returns an I/O error: `readRequestFail` / `readResponsesFail`. -/
def effCuts (ws : List String) (cuts : List Nat) : List Nat :=
  match natArg? ws "pend", natArg? ws "block" with
  | some i, _ => cuts.take i ++ [0]
  | none, some i => cuts.take (i + 1) ++ [0]
  | none, none => cuts

def readReqOp (ws : List String) (limit : Nat) (data : Bytes) (cuts : List Nat) : Option HeaderRequest :=
  match natArg? ws "fail" with
  | some f => readRequestFail limit data (effCuts ws cuts) f
  | none => readRequest limit data (effCuts ws cuts)

def readRespOp (ws : List String) (limit : Nat) (data : Bytes) (cuts : List Nat) : Option (List HeaderResponse) :=
  match natArg? ws "fail" with
  | some f => readResponsesFail limit data (effCuts ws cuts) f
  | none => readResponses limit data (effCuts ws cuts)

/-- the op carries a reader event under which "no value" is always legitimate (the network did not
    deliver): the property only demands that a value, if one is read, is the right one -/
def hasReaderEvent (ws : List String) : Bool :=
  (natArg? ws "fail").isSome || (natArg? ws "pend").isSome || (natArg? ws "block").isSome

open Lumina.Gen.C30 in
def step (_ : Unit) (line : String) : Unit × String :=
  let ws := words line
  let cuts := (natListArg? ws "cuts").getD []
  let out : String :=
    match ws with
    | "reset" :: _ => "ok"
    | "delim" :: _ =>
      match hexArg? ws "data" with
      | some d => match parseDelimiter d with
        | some (len, rest) => s!"some {len} {toHexOrDash rest}"
        | none => "none"
      | none => "bad-op"
    | "req" :: _ =>
      match parseReq ws with
      | some r =>
        let w := writeRequest r
        s!"{wireShow w} {showReadReq (readReqOp ws REQUEST_SIZE_LIMIT (truncOf ws w) cuts)}"
      | none => "bad-op"
    | "resp" :: _ =>
      match (arg? ws "items").bind parseItems with
      | some rs =>
        let w := writeResponses rs
        s!"{wireShow w} {showReadResp (readRespOp ws RESPONSE_SIZE_LIMIT (truncOf ws w) cuts)}"
      | none => "bad-op"
    | "rawreq" :: _ =>
      match hexArg? ws "data" with
      | some d => showReadReq (readReqOp ws REQUEST_SIZE_LIMIT d cuts)
      | none => "bad-op"
    | "rawresp" :: _ =>
      match hexArg? ws "data" with
      | some d => showReadResp (readRespOp ws RESPONSE_SIZE_LIMIT d cuts)
      | none => "bad-op"
    | _ => "bad-op"
  ((), out)

/-! ### spec on the IMPLEMENTATION's result -/

/-- words after the first `ok`, or `none` for `err` -/
def splitObs (os : List String) : Option (Obs (List String)) :=
  if os.contains "err" && !os.contains "ok" then some .err
  else match os.dropWhile (· != "ok") with
    | _ :: rest => some (.ok rest)
    | [] => none

def obsResps (os : List String) : Option (Obs (List String)) :=
  match splitObs os with
  | some .err => some .err
  | some (.ok [_, ds]) => some (.ok (ds.splitOn ","))
  | _ => none

def obsReq (os : List String) : Option (Obs String) :=
  match splitObs os with
  | some .err => some .err
  | some (.ok [a, d]) => some (.ok s!"{a} {d}")
  | _ => none

open Lumina.Gen.C30 Lumina.Spec.C30 in
def spec (_ : Unit) (op : String) (obs : String) : String :=
  let ws := words op
  let os := words obs
  if os == ["panic"] then "specfail C30/panic the codec panicked" else
  match ws with
  | "reset" :: _ => "specskip"
  | "delim" :: _ =>
    -- `parse_delimiter` against the textbook base-128 definition
    match hexArg? ws "data" with
    | some d =>
      let expected : String := match specDelimiter d with
        | some (len, used) => s!"some {len} {toHexOrDash (d.drop used)}"
        | none => "none"
      if obs == expected then "specok"
      else "specfail C30/delimiter parse_delimiter disagrees with the base-128 length definition"
    | none => "specfail C30/unparsed"
  | "req" :: _ =>
    match parseReq ws, natArg? os "wl", obsReq os with
    | some r, some wl, some o =>
      let cut := (natArg? ws "trunc").getD wl
      if hasReaderEvent ws && o == .err then "specok"
      else if cut < wl then
        (if specTruncated o then "specok" else "specfail C30/request-truncated-not-error a strict prefix of a written request was read as a value")
      else if wl ≤ 1024 then
        (if specRoundTrip (showReq r) true o then "specok"
         else "specfail C30/request-roundtrip the request read back differs from the one written")
      else
        -- does not fit the 1024-byte limit: it is read as a strict prefix, which must be an error
        (if specTruncated o then "specok"
         else "specfail C30/request-over-limit-not-error a request longer than the size limit was read as a value")
    | _, _, _ => "specfail C30/unparsed"
  | "resp" :: _ =>
    match (arg? ws "items").bind parseItems, natArg? os "wl", obsResps os with
    | some rs, some wl, some o =>
      let sent := rs.map digest
      let lens := rs.map (fun r => (lengthDelimited (encodeResponse r)).length)
      if lens.foldl (· + ·) 0 != wl then
        "specfail C30/wire-length the written stream is not the concatenation of the length-delimited responses"
      else
      let cut := (natArg? ws "trunc").getD wl
      let limit := 10 * 1024 * 1024
      if hasReaderEvent ws && o == .err then "specok"
      else if cut < wl then
        -- truncated stream (chunks are positive in `resp` ops: the reader gets min cut limit bytes)
        if specTruncated o then "specok"
        else if completeCount lens (min cut limit) ≥ 1 && specTruncatedExact lens sent (min cut limit) o then
          "specfail C30/read_response-truncated-after-complete-frame a truncated response stream was read as exactly the list of the frames complete before the cut, not as an error"
        else "specfail C30/response-truncated-wrong-value a truncated response stream was read as something else than an error or exactly the frames complete before the cut"
      else if wl ≤ limit then
        if specRoundTrip sent true o then "specok"
        else if rs.isEmpty && wl == 0 && o == .err then
          "specfail C30/read_response-empty-list-is-error the empty response list is written as zero bytes and read back as an error"
        else "specfail C30/response-roundtrip the response list read back differs from the one written"
      else
        -- does not fit the limit: no claim of the property, but never a wrong value: exactly the frames
        -- complete within the first `limit` bytes, an error if there is none
        if specTruncatedExact lens sent limit o then "specok"
        else "specfail C30/response-over-limit-wrong-value a response list over the size limit was read as something else than the frames complete within the limit"
    | _, _, _ => "specfail C30/unparsed"
  | "rawreq" :: _ | "rawresp" :: _ =>
    match hexArg? ws "data", splitObs os with
    | some d, some o =>
      let isOk := match o with | .ok _ => true | .err => false
      if specGarbage d isOk then "specok"
      else "specfail C30/garbage-accepted a stream that does not begin with a well-delimited frame was read as a value"
    | _, _ => "specfail C30/unparsed"
  | _ => "specfail C30/unparsed"

def handler : Driver.Handler Unit := { init := (), step := step, spec := spec }

end Driver.C30

def main (args : List String) : IO UInt32 := Driver.run Driver.C30.handler args

import Driver.D2Common
import Lumina.Model.ShwapHasher
import Lumina.Spec.C10
import Lumina.Spec.C04
import Lumina.Spec.C05
import Lumina.Spec.C06

open Lumina.Util Lumina.Model.Nmt Lumina.Model.Eds Lumina.Model.ShwapId Lumina.Model.Decoders
open Lumina.Model.ShwapHasher Driver.D2Common

namespace Driver.C10

/-- one stored header: its DAH and — known to the harness, which built the header from it — the square the DAH
    commits to (width, row-major share bytes) -/
structure Stored where
  dah : Dah
  w : Nat
  sq : List Bytes

/-- stored headers: height `i + 1` ↦ `st[i]` (`none`: removed from the store) -/
abbrev St := List (Option Stored)

def squareOf (st : St) (h : Nat) : Option Stored := if h = 0 then none else (st[h - 1]?).bind id
def storeOf (st : St) (h : Nat) : Option Dah := (squareOf st h).map Stored.dah

def intArg? (ws : List String) (key : String) : Option Int := (arg? ws key).bind String.toInt?

def parseRawProof (ws : List String) : Option (Option RawProof) :=
  match natArg? ws "hasproof" with
  | some 0 => some none
  | some _ =>
    match natArg? ws "start", natArg? ws "end", hexListArg? ws "nodes", hexArg? ws "leaf", natArg? ws "ign" with
    | some st, some en, some nodes, some leaf, some ign => some (some ⟨st, en, nodes, leaf, ign == 1⟩)
    | _, _, _, _, _ => none
  | none => none

/-- the protobuf / codec oracle of one op line (what prost and leopard did to this input in the harness) -/
def paramsOf (ws : List String) : Params :=
  let blk : Option (Bytes × Bytes) :=
    if natArg? ws "blk" == some 1 then
      match hexArg? ws "bcid", hexArg? ws "bcont" with
      | some c, some k => some (c, k)
      | _, _ => none
    else none
  let cont : Bytes := (blk.map Prod.snd).getD []
  let cdec := natArg? ws "cdec" == some 1
  let sample : Option RawSample :=
    if !cdec then none else
    match intArg? ws "axis", arg? ws "share", parseRawProof ws with
    | some ax, some sh, some pr =>
      let share? : Option (Option Bytes) := if sh == "none" then some none else (fromHex sh).map some
      share?.map (fun s => ⟨s, pr, ax⟩)
    | _, _, _ => none
  let row : Option RawRow :=
    if !cdec then none else
    match intArg? ws "side", hexListArg? ws "halves" with
    | some side, some halves => some ⟨halves, side⟩
    | _, _ => none
  let rnd : Option RawRnd :=
    if !cdec then none else
    match hexListArg? ws "shares", parseRawProof ws with
    | some shares, some pr => some ⟨shares, pr⟩
    | _, _ => none
  let ext : List Bytes := (hexListArg? ws "ext").getD []
  { decodeBlock := fun _ => blk
    decodeSample := fun b => if b == cont then sample else none
    decodeRow := fun b => if b == cont then row else none
    decodeRnd := fun b => if b == cont then rnd else none
    codec := { enc := fun _ _ => ext, recon := fun _ _ => ext } }

def showMh : Except MhErr Bytes → String
  | .ok h => s!"ok {toHex h}"
  | .error .panic => "panic"
  | .error e => s!"err {e.kind}"

def step (st : St) (line : String) : St × String :=
  let ws := words line
  match ws with
  | "reset" :: _ => ([], "ok")
  | "header" :: _ =>
    match parseDah ws, natArg? ws "w", hexListArg? ws "data" with
    | some d, some w, some sq =>
      -- `at=N`: (re)store at height N — the next height, or the top height after it was removed
      let hAt := (natArg? ws "at").getD (st.length + 1)
      if hAt = st.length + 1 then (st ++ [some ⟨d, w, sq⟩], s!"ok h={hAt}")
      else if hAt = st.length ∧ hAt ≥ 1 ∧ ((st[hAt - 1]?).bind id).isNone then
        (st.set (hAt - 1) (some ⟨d, w, sq⟩), s!"ok h={hAt}")
      else (st, "bad-op")
    | _, _, _ => (st, "bad-op")
  | "unstore" :: _ =>
    match natArg? ws "h" with
    | some h =>
      if (squareOf st h).isSome then (st.set (h - 1) none, "ok") else (st, "err")
    | none => (st, "bad-op")
  | "hash" :: _ =>
    match natArg? ws "code", hexArg? ws "input" with
    | some code, some input => (st, showMh (multihash sha (paramsOf ws) (storeOf st) code input))
    | _, _ => (st, "bad-op")
  | "container" :: _ =>
    match hexArg? ws "expected", hexArg? ws "input" with
    | some exp, some input =>
      match Cid.read exp with
      | none => (st, "bad-op")
      | some e =>
        (st, match getBlockContainer (paramsOf ws).decodeBlock e input with
          | some c => s!"ok {toHexOrDash c}"
          | none => "err")
    | _, _ => (st, "bad-op")
  | _ => (st, "bad-op")

def parseObs (os : List String) : Option Lumina.Spec.C10.Obs :=
  match os with
  | ["ok", h] => (fromHex h).map .hash
  | ["err", "UnknownMultihashCode"] => some .unknownCode
  | "err" :: _ => some .err
  | "panic" :: _ => some .panic
  | _ => none

/-- INDEPENDENT soundness judgement of an accepted block (does not use the multihasher model nor the containers'
    `verify`): the block's own CID names a height and a place; the harness knows the square it stored at that height;
    the payload prost decoded from the container must be what a brute-force scan of that square finds at that place —
    the scan-based specs of C04 (sample), C05 (row), C06 (row namespace data). -/
def acceptedInSquare (st : St) (ws : List String) (code : Nat) : Bool :=
  let P := paramsOf ws
  match hexArg? ws "bcid", hexArg? ws "bcont" with
  | some cidB, some cont =>
    match Cid.read cidB with
    | none => false
    | some cid =>
      if code = Lumina.Gen.C15.SAMPLE_ID_MULTIHASH_CODE then
        match SampleId.ofCid cid, P.decodeSample cont with
        | .ok id, some raw =>
          match squareOf st id.row.eds.height, raw.share with
          | some s, some share => Lumina.Spec.C04.specVerify s.w s.sq id.row.index id.column share true
          | _, _ => false
        | _, _ => false
      else if code = Lumina.Gen.C15.ROW_ID_MULTIHASH_CODE then
        match RowId.ofCid cid with
        | .ok id =>
          match squareOf st id.eds.height, hexListArg? ws "ext" with
          | some s, some full =>
            -- the row the codec completed from the half on the wire must be row `index` of the stored square
            Lumina.Spec.C05.specVerify
              (if id.index < s.w then some ((List.range s.w).map (fun c => s.sq.getD (id.index * s.w + c) [])) else none)
              full true
          | _, _ => false
        | _ => false
      else
        match RowNamespaceDataId.ofCid cid, P.decodeRnd cont with
        | .ok id, some raw =>
          match squareOf st id.row.eds.height with
          | some s => Lumina.Spec.C06.specRow s.w s.sq id.ns id.row.index raw.shares true
          | none => false
        | _, _ => false
  | _, _ => false

def spec (st : St) (op : String) (obs : String) : String :=
  let ws := words op
  let os := words obs
  match ws with
  | "hash" :: _ =>
    match natArg? ws "code", hexArg? ws "input", parseObs os with
    | some code, some input, some o =>
      if o == .panic then "specfail C10/hash-panic the multihasher panicked instead of reporting an error"
      else if (match o with | .hash _ => !acceptedInSquare st ws code | _ => false) then
        "specfail C10/accepted-block-not-in-square a hash was yielded for a block whose payload is not what the stored square holds at the place its CID names (scan specs of C04/C05/C06)"
      else if Lumina.Spec.C10.specHash (knownCode code) (allowed sha (paramsOf ws) (storeOf st) code input) o then "specok"
      else
        match o with
        | .hash _ => "specfail C10/hash-yielded-without-verification a hash was yielded although id/container/header/verification does not hold (or it is not the id hash)"
        | .unknownCode => "specfail C10/known-code-reported-unknown"
        | _ => "specfail C10/valid-block-rejected everything the property lists holds but an error was reported"
    | _, _, _ => "specfail C10/unparsed"
  | "container" :: _ =>
    match hexArg? ws "expected", hexArg? ws "input" with
    | some exp, some input =>
      match Cid.read exp with
      | none => "specskip"
      | some e =>
        let o : Option (Option Bytes) := match os with
          | ["ok", h] => (fromHex h).map some
          | "err" :: _ => some none
          | _ => none
        match o with
        | some o =>
          if Lumina.Spec.C10.specContainer ((paramsOf ws).decodeBlock input) Cid.read e o then "specok"
          else "specfail C10/container-cid-equality"
        | none => "specfail C10/unparsed"
    | _, _ => "specfail C10/unparsed"
  | _ => "specskip"

def handler : Driver.Handler St := { init := [], step := step, spec := spec }

end Driver.C10

def main (args : List String) : IO UInt32 := Driver.run Driver.C10.handler args

import Driver.D2Common
import Lumina.Model.ShwapHasher
import Lumina.Spec.C10

open Lumina.Util Lumina.Model.Nmt Lumina.Model.Eds Lumina.Model.ShwapId Lumina.Model.Decoders
open Lumina.Model.ShwapHasher Driver.D2Common

namespace Driver.C10

/-- stored headers: height `i + 1` ↦ `dahs[i]` -/
abbrev St := List Dah

def storeOf (st : St) (h : Nat) : Option Dah := if h = 0 then none else st[h - 1]?

def intArg? (ws : List String) (key : String) : Option Int := (arg? ws key).bind String.toInt?

def parseRawProof (ws : List String) : Option (Option RawProof) :=
  match natArg? ws "hasproof" with
  | some 0 => some none
  | some _ =>
    match natArg? ws "start", natArg? ws "end", hexListArg? ws "nodes", hexArg? ws "leaf", natArg? ws "ign" with
    | some st, some en, some nodes, some leaf, some ign => some (some ⟨st, en, nodes, leaf, ign == 1⟩)
    | _, _, _, _, _ => none
  | none => none

/-- the protobuf / codec oracle of one op line (what prost and leopard did to this input in the harness) -/
def paramsOf (ws : List String) : Params :=
  let blk : Option (Bytes × Bytes) :=
    if natArg? ws "blk" == some 1 then
      match hexArg? ws "bcid", hexArg? ws "bcont" with
      | some c, some k => some (c, k)
      | _, _ => none
    else none
  let cont : Bytes := (blk.map Prod.snd).getD []
  let cdec := natArg? ws "cdec" == some 1
  let sample : Option RawSample :=
    if !cdec then none else
    match intArg? ws "axis", arg? ws "share", parseRawProof ws with
    | some ax, some sh, some pr =>
      let share? : Option (Option Bytes) := if sh == "none" then some none else (fromHex sh).map some
      share?.map (fun s => ⟨s, pr, ax⟩)
    | _, _, _ => none
  let row : Option RawRow :=
    if !cdec then none else
    match intArg? ws "side", hexListArg? ws "halves" with
    | some side, some halves => some ⟨halves, side⟩
    | _, _ => none
  let rnd : Option RawRnd :=
    if !cdec then none else
    match hexListArg? ws "shares", parseRawProof ws with
    | some shares, some pr => some ⟨shares, pr⟩
    | _, _ => none
  let ext : List Bytes := (hexListArg? ws "ext").getD []
  { decodeBlock := fun _ => blk
    decodeSample := fun b => if b == cont then sample else none
    decodeRow := fun b => if b == cont then row else none
    decodeRnd := fun b => if b == cont then rnd else none
    codec := { enc := fun _ _ => ext, recon := fun _ _ => ext } }

def showMh : Except MhErr Bytes → String
  | .ok h => s!"ok {toHex h}"
  | .error .panic => "panic"
  | .error e => s!"err {e.kind}"

def step (st : St) (line : String) : St × String :=
  let ws := words line
  match ws with
  | "reset" :: _ => ([], "ok")
  | "header" :: _ =>
    match parseDah ws with
    | some d => (st ++ [d], s!"ok h={st.length + 1}")
    | none => (st, "bad-op")
  | "hash" :: _ =>
    match natArg? ws "code", hexArg? ws "input" with
    | some code, some input => (st, showMh (multihash sha (paramsOf ws) (storeOf st) code input))
    | _, _ => (st, "bad-op")
  | "container" :: _ =>
    match hexArg? ws "expected", hexArg? ws "input" with
    | some exp, some input =>
      match Cid.read exp with
      | none => (st, "bad-op")
      | some e =>
        (st, match getBlockContainer (paramsOf ws).decodeBlock e input with
          | some c => s!"ok {toHexOrDash c}"
          | none => "err")
    | _, _ => (st, "bad-op")
  | _ => (st, "bad-op")

def parseObs (os : List String) : Option Lumina.Spec.C10.Obs :=
  match os with
  | ["ok", h] => (fromHex h).map .hash
  | ["err", "UnknownMultihashCode"] => some .unknownCode
  | "err" :: _ => some .err
  | "panic" :: _ => some .panic
  | _ => none

def spec (st : St) (op : String) (obs : String) : String :=
  let ws := words op
  let os := words obs
  match ws with
  | "hash" :: _ =>
    match natArg? ws "code", hexArg? ws "input", parseObs os with
    | some code, some input, some o =>
      if o == .panic then "specfail C10/hash-panic the multihasher panicked instead of reporting an error"
      else if Lumina.Spec.C10.specHash (knownCode code) (allowed sha (paramsOf ws) (storeOf st) code input) o then "specok"
      else
        match o with
        | .hash _ => "specfail C10/hash-yielded-without-verification a hash was yielded although id/container/header/verification does not hold (or it is not the id hash)"
        | .unknownCode => "specfail C10/known-code-reported-unknown"
        | _ => "specfail C10/valid-block-rejected everything the property lists holds but an error was reported"
    | _, _, _ => "specfail C10/unparsed"
  | "container" :: _ =>
    match hexArg? ws "expected", hexArg? ws "input" with
    | some exp, some input =>
      match Cid.read exp with
      | none => "specskip"
      | some e =>
        let o : Option (Option Bytes) := match os with
          | ["ok", h] => (fromHex h).map some
          | "err" :: _ => some none
          | _ => none
        match o with
        | some o =>
          if Lumina.Spec.C10.specContainer ((paramsOf ws).decodeBlock input) Cid.read e o then "specok"
          else "specfail C10/container-cid-equality"
        | none => "specfail C10/unparsed"
    | _, _ => "specfail C10/unparsed"
  | _ => "specskip"

def handler : Driver.Handler St := { init := [], step := step, spec := spec }

end Driver.C10

def main (args : List String) : IO UInt32 := Driver.run Driver.C10.handler args

import Driver.Common
import Lumina.Model.Util
import Lumina.Model.PeerTrackerView
import Lumina.Spec.C39

open Lumina.Util Lumina.Model.PeerTracker

namespace Driver.C39

/-- insertion sort by a Nat key (stable) -/
def insertBy {α} (key : α → Nat) (x : α) : List α → List α
  | [] => [x]
  | y :: ys => if key x < key y then x :: y :: ys else y :: insertBy key x ys

def sortBy {α} (key : α → Nat) (l : List α) : List α := l.foldl (fun acc x => insertBy key x acc) []

def joinOrDash (sep : String) (l : List String) : String :=
  if l.isEmpty then "-" else sep.intercalate l

def showKind : NodeKind → String
  | .unknown => "unknown" | .bridge => "bridge" | .full => "full" | .light => "light"

def showOptNat : Option Nat → String
  | none => "x"
  | some n => toString n

def showPeer (p : Peer) : String :=
  let conns := joinOrDash "+" ((sortBy (·.1) p.conns).map (fun e => s!"{e.1}.{showOptNat e.2}"))
  let tags := joinOrDash "+" ((sortBy id p.prot).map toString)
  let flags := (if p.trusted then "T" else "t") ++ (if p.archival then "A" else "a")
  let disc := match p.disconnectedAt with | none => "c" | some a => toString a
  s!"{p.id}/{conns}/{tags}/{flags}/{showKind p.kind}/{showOptNat p.bestPing}/{disc}"

def showState (s : State) : String :=
  let i := s.info
  let prot := joinOrDash "+" ((sortBy (·.1) s.protectCounter).map (fun e => s!"{e.1}:{e.2}"))
  let peers := joinOrDash "|" ((sortBy (·.id) s.peers).map showPeer)
  s!"info={i.connected},{i.trusted},{i.full},{i.archival} prot={prot} peers={peers}"

def showEv : NodeEv → String
  | .connected id t => s!"C{id}{if t then "T" else "t"}"
  | .disconnected id t => s!"D{id}{if t then "T" else "t"}"

def showOut (o : Out) : String :=
  let r := match o.ret with | none => "-" | some true => "t" | some false => "f"
  s!"ret={r} ev={joinOrDash "+" (o.events.map showEv)}"

def parseEvent (ws : List String) : Option Event :=
  match ws with
  | "add_peer" :: _ => (natArg? ws "p").map Event.addPeerId
  | "trust" :: _ =>
    match natArg? ws "p", natArg? ws "v" with
    | some p, some v => some (.setTrusted p (v != 0))
    | _, _ => none
  | "protect" :: _ =>
    match natArg? ws "p", natArg? ws "tag" with
    | some p, some t => some (.protect p t)
    | _, _ => none
  | "unprotect" :: _ =>
    match natArg? ws "p", natArg? ws "tag" with
    | some p, some t => some (.unprotect p t)
    | _, _ => none
  | "conn" :: _ =>
    match natArg? ws "p", natArg? ws "c" with
    | some p, some c => some (.addConnection p c)
    | _, _ => none
  | "disc" :: _ =>
    match natArg? ws "p", natArg? ws "c" with
    | some p, some c => some (.removeConnection p c)
    | _, _ => none
  | "agent" :: _ =>
    match natArg? ws "p", arg? ws "s" with
    | some p, some s => some (.agentVersion p (if s == "@" then "" else s))
    | _, _ => none
  | "ping" :: _ =>
    match natArg? ws "p", natArg? ws "c", arg? ws "ms" with
    | some p, some c, some ms => some (.ping p c ms.toNat?)
    | _, _, _ => none
  | "archival" :: _ => (natArg? ws "p").map Event.markArchival
  | "gc" :: _ => some .gc
  | "advance" :: _ => (natArg? ws "secs").map Event.advance
  | _ => none

def step (s : State) (line : String) : State × String :=
  let ws := words line
  match ws with
  | "reset" :: _ => (init, "ok")
  | "plen" :: _ =>
    match natArg? ws "tag" with
    | some t => (s, s!"n={protectedLen s t} {showState s}")
    | none => (s, "bad-op")
  | _ =>
    match parseEvent ws with
    | none => (s, "bad-op")
    | some e =>
      let (s', o) := Lumina.Model.PeerTracker.step s e
      if o.panic then (s', "panic") else (s', s!"{showOut o} {showState s'}")

/-! ### spec on the implementation's output -/

open Lumina.Spec.C39

def splitDash (sep : String) (s : String) : List String := if s == "-" then [] else s.splitOn sep

def parseObsPeer (s : String) : Option ObsPeer :=
  match s.splitOn "/" with
  | [ids, conns, tags, flags, kind, _bp, _disc] =>
    match ids.toNat?, (splitDash "+" tags).mapM String.toNat? with
    | some id, some tags =>
      some { id, nConns := (splitDash "+" conns).length, tags,
             trusted := flags.toList.contains 'T', archival := flags.toList.contains 'A',
             full := kind == "full" || kind == "bridge" }
    | _, _ => none
  | _ => none

def parseInfo (s : String) : Option ObsInfo :=
  match (s.splitOn ",").mapM String.toNat? with
  | some [a, b, c, d] => some ⟨a, b, c, d⟩
  | _ => none

def parseProt (s : String) : Option (List (Nat × Nat)) :=
  (splitDash "+" s).mapM (fun e => match e.splitOn ":" with
    | [a, b] => match a.toNat?, b.toNat? with
      | some a, some b => some (a, b)
      | _, _ => none
    | _ => none)

structure Observed where
  peers : List ObsPeer
  info : ObsInfo
  prot : List (Nat × Nat)

def parseObserved (os : List String) : Option Observed :=
  match arg? os "info", arg? os "prot", arg? os "peers" with
  | some i, some pr, some ps =>
    match parseInfo i, parseProt pr, (splitDash "|" ps).mapM parseObsPeer with
    | some info, some prot, some peers => some { peers, info, prot }
    | _, _, _ => none
  | _, _, _ => none

def canonPeer (p : ObsPeer) : ObsPeer := { p with tags := sortBy id p.tags }

def reportedLen (prot : List (Nat × Nat)) (tag : Nat) : Nat :=
  ((prot.find? (fun e => e.1 == tag)).map (·.2)).getD 0

def spec (s : State) (op : String) (obs : String) : String :=
  let ws := words op
  let os := words obs
  match ws with
  | "reset" :: _ => "specskip"
  | _ =>
    if obs == "panic" then "specfail C39/panic the tracker panicked"
    else match parseObserved os with
    | none => "specfail C39/unparsed"
    | some o =>
      let tags := (o.prot.map (·.1)) ++ o.peers.flatMap (·.tags) ++ ((natArg? ws "tag").toList)
      if !specDistinct o.peers then "specfail C39/duplicate-peer a peer id is tracked twice"
      else if !specInfo o.peers o.info then
        "specfail C39/info-recount published statistics differ from a recount of the tracked peers"
      else if !tags.all (fun t => specProtected o.peers t (reportedLen o.prot t)) then
        "specfail C39/protect-count a per-tag protected count differs from the number of peers protected with that tag"
      else if ws.head? == some "plen" &&
          !(match natArg? ws "tag", natArg? os "n" with
            | some t, some n => specProtected o.peers t n
            | _, _ => false) then
        "specfail C39/protected-len protected_len differs from the number of peers protected with that tag"
      else if ws.head? == some "gc" &&
          !specGc ((s.peers.map viewPeer).map canonPeer) (o.peers.map canonPeer) then
        "specfail C39/gc-forgot garbage collection forgot a connected or protected peer"
      else "specok"

def handler : Driver.Handler State := { init := init, step := step, spec := spec }

end Driver.C39

def main (args : List String) : IO UInt32 := Driver.run Driver.C39.handler args

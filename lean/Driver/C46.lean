import Driver.DCommon
import Lumina.Model.RoundTrip
import Lumina.Model.RoundTripExt
import Lumina.Model.Commitment
import Lumina.Spec.C46

open Lumina.Util Lumina.Model.Nmt Lumina.Model.Eds Lumina.Model.Decoders Lumina.Model.RoundTrip
open Lumina.Model

namespace Driver.C46

def flag {α} [DecidableEq α] (x : α) : Option α → String
  | some y => if y = x then "same" else "diff"
  | none => "err"

def semi (s : String) : String := s.replace " " ";"

def showI (x : Int) : String := toString x

def parseInt (s : String) : Option Int := s.toInt?

def parseHexList (s : String) : Option (List Bytes) :=
  if s == "-" then some []
  else (s.splitOn ",").mapM (fun t => if t == "_" then some [] else fromHexChars t.toList)

def allArgs (ws : List String) (key : String) : List String :=
  ws.filterMap (fun w => match splitKV w with
    | some (k, v) => if k == key then some v else none
    | none => none)

/-! raw proof forms -/

def showRawProofFields (p : RawProof) : String :=
  s!"start={p.start} end={p.end_} nodes={showHexList p.nodes} leaf={toHexOrDash p.leafHash} ign={if p.ign then 1 else 0}"

def showRawProofSlash : Option RawProof → String
  | none => "0/0/0/-/-/0"
  | some p => s!"1/{p.start}/{p.end_}/{showHexList p.nodes}/{toHexOrDash p.leafHash}/{if p.ign then 1 else 0}"

def parseSlashProof : List String → Option (Option RawProof)
  | [hp, st, en, nodes, leaf, ign] =>
    if hp == "0" then some none
    else
      match st.toNat?, en.toNat?, parseHexList nodes, fromHex leaf with
      | some st, some en, some nodes, some leaf => some (some ⟨st, en, nodes, leaf, ign == "1"⟩)
      | _, _, _, _ => none
  | _ => none

def showNmtWord (p : RawNmtProof) : String :=
  s!"sp={showI p.start}/{showI p.end_}/{showHexList p.nodes}/{toHexOrDash p.leafHash}"

def parseNmtWord (w : String) : Option RawNmtProof :=
  match w.splitOn "/" with
  | [st, en, nodes, leaf] =>
    match parseInt st, parseInt en, parseHexList nodes, fromHex leaf with
    | some st, some en, some nodes, some leaf => some ⟨st, en, nodes, leaf⟩
    | _, _, _, _ => none
  | _ => none

def showMerkleWord (p : RawMerkleProof) : String :=
  s!"mp={showI p.index}/{showI p.total}/{toHexOrDash p.leafHash}/{showHexList p.aunts}"

def parseMerkleWord (w : String) : Option RawMerkleProof :=
  match w.splitOn "/" with
  | [i, t, leaf, aunts] =>
    match parseInt i, parseInt t, fromHex leaf, parseHexList aunts with
    | some i, some t, some leaf, some aunts => some ⟨i, t, leaf, aunts⟩
    | _, _, _, _ => none
  | _ => none

def showRowProofFields (p : RawRowProof) : String :=
  let base := s!"roots={showHexList p.rowRoots} start={p.startRow} end={p.endRow} root={toHexOrDash p.root}"
  p.proofs.foldl (fun acc m => acc ++ " " ++ showMerkleWord m) base

def parseRowProof (ws : List String) : Option RawRowProof :=
  match hexListArg? ws "roots", natArg? ws "start", natArg? ws "end", hexArg? ws "root",
        (allArgs ws "mp").mapM parseMerkleWord with
  | some roots, some st, some en, some root, some mps => some ⟨roots, mps, st, en, root⟩
  | _, _, _, _, _ => none

def showShareProofFields (p : RawShareProof) : String :=
  let base := s!"data={showHexList p.data} nsid={toHexOrDash p.namespaceId} nsver={p.namespaceVersion}"
  let withSp := p.shareProofs.foldl (fun acc m => acc ++ " " ++ showNmtWord m) base
  match p.rowProof with
  | some r => withSp ++ " hasrp=1 " ++ showRowProofFields r
  | none => withSp ++ " hasrp=0"

def i32OfU32 (v : Nat) : Int := if v < 2147483648 then (v : Int) else (v : Int) - 4294967296
def u32OfI32 (x : Int) : Nat := (x % 4294967296).toNat

def parseBefpWord (w : String) : Option RawBefpShare :=
  match w.splitOn "/" with
  | [data, hp, st, en, nodes, leaf, ign, pax] =>
    match fromHex data, parseSlashProof [hp, st, en, nodes, leaf, ign], pax.toNat? with
    | some d, some pf, some pa => some ⟨d, pf, i32OfU32 pa⟩
    | _, _, _ => none
  | _ => none

def showBefpFields (p : RawBefp) : String :=
  let base := s!"hash={toHexOrDash p.headerHash} height={p.height} index={p.index} axis={u32OfI32 p.axis}"
  p.shares.foldl (fun acc s =>
    acc ++ s!" sh={toHexOrDash s.data}/{showRawProofSlash s.proof}/{u32OfI32 s.proofAxis}") base

def parseBefpRaw (ws : List String) : Option RawBefp :=
  match hexArg? ws "hash", natArg? ws "height", natArg? ws "index", natArg? ws "axis",
        (allArgs ws "sh").mapM parseBefpWord with
  | some hash, some height, some index, some axis, some shares => some ⟨hash, height, shares, index, i32OfU32 axis⟩
  | _, _, _, _, _ => none

/-- a stand-in for prost in the model's JSON layer of fraud proofs: the canonical field line as UTF-8 bytes
    (any encoder with a left inverse would do; the real prost bytes are exercised on the implementation side) -/
def lineCodec : PbCodec :=
  { enc := fun r => (showBefpFields r).toUTF8.toList
    dec := fun bs => (String.fromUTF8? (ByteArray.mk bs.toArray)).bind (fun s => parseBefpRaw (words s)) }

def sameBefp (a b : BefpFull) : Bool := showBefpFields (befpToRaw a) == showBefpFields (befpToRaw b)

def showRanges (rs : List (Nat × Nat)) : String :=
  if rs.isEmpty then "-" else ";".intercalate (rs.map (fun r => s!"{r.1}-{r.2}"))

def parseRanges (s : String) : Option (List (Nat × Nat)) :=
  if s == "-" then some []
  else (s.splitOn ",").mapM (fun t =>
    match t.splitOn "-" with
    | [a, b] => match a.toNat?, b.toNat? with
      | some a, some b => some (a, b)
      | _, _ => none
    | _ => none)

/-! strengthening round: Blob and ExtendedHeader conversion layers (`Model/RoundTripExt.lean`) -/

/-- `Commitment::from_blob` = C12's model with SHA-256 -/
def commitC12 (ns data : Bytes) (sv : Nat) (signer : Option Bytes) (av : Nat) : Except Commitment.CErr Bytes :=
  Commitment.fromBlob Merkle.sha256Fns Sha256.hash ns data sv signer av

def optHex (s : String) : Option (Option Bytes) :=
  if s == "-" then some none else (fromHex s).map some

def showRawBlob (r : RawBlob) : String :=
  s!"nsid={toHexOrDash r.namespaceId};nsver={r.namespaceVersion};data={toHexOrDash r.data};sv={r.shareVersion};signer={toHexOrDash r.signer}"

def blobErrKind : BlobErr Commitment.CErr → String
  | .ns _ => "ns"
  | .shareVersionRange => "share-version"
  | .commitment (.blob (.unsupportedShareVersion _)) => "share-version"
  | .commitment (.blob .signerNotSupported) => "signer-not-supported"
  | .commitment (.blob .missingSigner) => "missing-signer"
  | .commitment _ => "other"

def showIndex : Option Nat → String
  | none => "none"
  | some i => toString i

/-- value → RawBlob → `Blob::from_raw` (prost itself is the identity at this level) -/
def blobConvFlag (b : BlobV Bytes) (av : Nat) : String :=
  match blobFromRaw commitC12 (blobToRaw b) av with
  | .ok q => if q = b then "same" else "diff"
  | .error _ => "err"

def blobJsonFlag (b : BlobV Bytes) : String :=
  match blobToJson b with
  | none => "err"
  | some j =>
    match blobFromJson j with
    | .ok q => if q = b then "same" else "diff"
    | .error _ => "err"

def b64Arg (s : String) : List Char := if s == "-" then [] else s.toList

def ehErrKind : EhErr → String
  | .missingHeader => "MissingHeader"
  | .missingCommit => "MissingCommit"
  | .missingValidatorSet => "MissingValidatorSet"
  | .missingDah => "MissingDah"
  | _ => "other"

/-- the third-party conversions as oracles: a raw message is the bit "it converts" -/
def oracleConv : TmConv Unit Unit Unit Bool Bool Bool :=
  { hTo := fun _ => true, hFrom := fun b => if b then some () else none,
    cTo := fun _ => true, cFrom := fun b => if b then some () else none,
    vTo := fun _ => true, vFrom := fun b => if b then some () else none }

def oracleMsg (s : String) : Option (Option Bool) :=
  if s == "none" then some none else if s == "ok" then some (some true) else if s == "err" then some (some false) else none

def stepExt (ws : List String) : Option String :=
  match ws with
  | "blobv" :: _ =>
    some <|
    match hexArg? ws "ns", hexArg? ws "data", (arg? ws "signer").bind optHex, arg? ws "index", natArg? ws "av" with
    | some nsb, some data, some signer, some idx, some av =>
      match Namespace.fromRaw nsb with
      | .error _ => "bad-op"
      | .ok ns =>
        -- `AccAddress::try_from(&bytes[..]).ok()`: anything but 20 bytes is no signer
        let signer := signer.bind signerOfRaw
        let sv := if signer.isNone then 0 else 1
        let index? : Option (Option Nat) := if idx == "none" then some none else idx.toNat?.map some
        match index? with
        | none => "bad-op"
        | some index =>
          match commitC12 ns data sv signer av with
          | .error _ => "err-decode"
          | .ok c =>
            let b : BlobV Bytes := ⟨ns, data, sv, c, index, signer⟩
            let conv := blobConvFlag b av
            s!"ok raw={showRawBlob (blobToRaw b)} commit={toHex c} conv={conv} pb={conv} json={blobJsonFlag b}"
    | _, _, _, _, _ => "bad-op"
  | "blobraw" :: _ =>
    some <|
    match natArg? ws "nsver", hexArg? ws "nsid", hexArg? ws "data", natArg? ws "sv", hexArg? ws "signer", natArg? ws "av" with
    | some nv, some nid, some data, some sv, some signer, some av =>
      match blobFromRaw commitC12 ⟨nid, nv, data, sv, signer⟩ av with
      | .error e => s!"err-decode kind={blobErrKind e}"
      | .ok b =>
        s!"ok raw={showRawBlob (blobToRaw b)} commit={toHex b.commitment} index={showIndex b.index} pb={blobConvFlag b av} json={blobJsonFlag b}"
    | _, _, _, _, _, _ => "bad-op"
  | "blobjson" :: _ =>
    some <|
    match arg? ws "ns", arg? ws "data", natArg? ws "sv", arg? ws "commit", arg? ws "index", arg? ws "signer" with
    | some ns, some data, some sv, some c, some idx, some signer =>
      let index? : Option (Option Int) := if idx == "absent" then some none else idx.toInt?.map some
      let signer : Option (List Char) := if signer == "absent" || signer == "null" then none else some (b64Arg signer)
      match index? with
      | none => "bad-op"
      | some index =>
        match blobFromJson ⟨b64Arg ns, b64Arg data, sv, b64Arg c, index, signer⟩ with
        | .error _ => "err-decode"
        | .ok b =>
          let sg := match b.signer with
            | some x => toHexOrDash x
            | none => "-"
          s!"ok ns={toHex b.ns} data={toHexOrDash b.data} sv={b.shareVersion} commit={toHexOrDash b.commitment} index={showIndex b.index} signer={sg} json={blobJsonFlag b}"
    | _, _, _, _, _, _ => "bad-op"
  | "ehraw" :: _ =>
    some <|
    match (arg? ws "h").bind oracleMsg, (arg? ws "c").bind oracleMsg, (arg? ws "v").bind oracleMsg, arg? ws "d",
          natArg? ws "valid" with
    | some h, some c, some v, some d, some valid =>
      let rd? : Option (Option RawDah) :=
        if d == "none" then some none
        else match hexListArg? ws "rows", hexListArg? ws "cols" with
          | some rows, some cols => some (some ⟨rows, cols⟩)
          | _, _ => none
      match rd? with
      | none => "bad-op"
      | some rd =>
        match ehFromRaw oracleConv (fun _ => valid == 1) ⟨h, c, v, rd⟩ with
        | .ok _ => "ok"
        | .error e => s!"err-decode kind={ehErrKind e}"
    | _, _, _, _, _ => "bad-op"
  | _ => none

def step (_ : Unit) (line : String) : Unit × String :=
  let ws := words line
  let out : String :=
    match stepExt ws with
    | some r => r
    | none =>
    match ws with
    | "reset" :: _ => "ok"
    | "ns" :: _ =>
      match hexArg? ws "bytes" with
      | none => "bad-op"
      | some b =>
        match Namespace.fromRaw b with
        | .error _ => "err-decode"
        | .ok ns => s!"ok raw=bytes={toHex ns} pb=- json={flag ns (Namespace.deserialize (Namespace.serialize ns))}"
    | "share" :: _ =>
      match hexArg? ws "data", natArg? ws "parity" with
      | some d, some par =>
        let v? : Option Share := if par == 1 then (match Sample.shareParity d with | .ok s => some s | .error _ => none)
                                 else shareFromRaw d
        match v? with
        | none => "err-decode"
        | some s =>
          let f := flag s (shareFromRaw (shareToRaw s))
          s!"ok raw=data={toHexOrDash (shareToRaw s)} conv={f} pb={f} json={f}"
      | _, _ => "bad-op"
    | "dah" :: _ =>
      match hexListArg? ws "rows", hexListArg? ws "cols" with
      | some rows, some cols =>
        match dahFromRaw ⟨rows, cols⟩ with
        | none => "err-decode"
        | some d =>
          let raw := dahToRaw d
          let f := flag d (dahFromRaw raw)
          let sh (l : List Bytes) := (showHexList l).replace "," ";"
          s!"ok raw=rows={sh raw.rowRoots},cols={sh raw.colRoots} pb={f} json={f}"
      | _, _ => "bad-op"
    | "nsproof" :: _ =>
      match Driver.DCommon.parseProof ws with
      | none => "err-decode"
      | some p =>
        let raw := proofToRaw p
        let f := match proofFromRaw raw with
          | .ok q => if q = p then "same" else "diff"
          | _ => "err"
        s!"ok raw={semi (showRawProofFields raw)} conv={f} pb={f} json={f}"
    | "nmtproof" :: _ =>
      match Driver.DCommon.parseProof ws with
      | none => "err-decode"
      | some p =>
        let raw := nmtProofToRaw p
        let f := flag p (nmtProofFromRaw raw)
        s!"ok raw={showNmtWord raw} conv={f} pb={f} json={f}"
    | "merkle" :: _ =>
      match (arg? ws "mp").bind parseMerkleWord with
      | none => "bad-op"
      | some raw =>
        match merkleFromRaw raw with
        | none => "err-decode"
        | some p => s!"ok raw={showMerkleWord (merkleToRaw p)} pb=- json={flag p (merkleFromRaw (merkleToRaw p))}"
    | "rowproof" :: _ =>
      match parseRowProof ws with
      | none => "bad-op"
      | some raw =>
        match rowProofFromRaw raw with
        | none => "err-decode"
        | some p =>
          let f := flag p (rowProofFromRaw (rowProofToRaw p))
          s!"ok raw={semi (showRowProofFields (rowProofToRaw p))} pb={f} json={f}"
    | "shareproof" :: _ =>
      match hexListArg? ws "data", hexArg? ws "nsid", natArg? ws "nsver", (allArgs ws "sp").mapM parseNmtWord,
            natArg? ws "hasrp" with
      | some data, some nsid, some nsver, some sps, some hasrp =>
        let rp? : Option (Option RawRowProof) := if hasrp == 1 then (parseRowProof ws).map some else some none
        match rp? with
        | none => "bad-op"
        | some rp =>
          match shareProofFromRaw ⟨data, nsid, nsver, sps, rp⟩ with
          | none => "err-decode"
          | some p =>
            let f := flag p (shareProofFromRaw (shareProofToRaw p))
            s!"ok raw={semi (showShareProofFields (shareProofToRaw p))} pb={f} json={f}"
      | _, _, _, _, _ => "bad-op"
    | "befp" :: _ =>
      match parseBefpRaw ws with
      | none => "bad-op"
      | some rawIn =>
        match befpFromRawFull rawIn with
        | none => "err-decode"
        | some p =>
          let raw := befpToRaw p
          let f := match befpFromRawFull raw with
            | some q => if sameBefp q p then "same" else "diff"
            | none => "err"
          -- the JSON form: `Proof::BadEncoding(p)` -> RawFraudProof -> { proof_type, base64(data) } and back
          let j := fraudToJson lineCodec p
          let fj := match fraudFromJson lineCodec j with
            | some q => if sameBefp q p then "same" else "diff"
            | none => "err"
          let jd := if Namespace.b64Decode j.data == some (lineCodec.enc raw) then "same" else "diff"
          s!"ok raw={semi (showBefpFields raw)} pb={f} json={fj} jtype={j.proofType} jdata={jd}"
    | "fraudjson" :: _ =>
      match arg? ws "type", parseBefpRaw ws with
      | some ty, some rawIn =>
        let ty := if ty == "-" then "" else ty
        let j : JsonFraudProof := ⟨ty, Namespace.b64Encode (lineCodec.enc rawIn)⟩
        match fraudFromJson lineCodec j with
        | none => "err-decode"
        | some p =>
          let fj := match fraudFromJson lineCodec (fraudToJson lineCodec p) with
            | some q => if sameBefp q p then "same" else "diff"
            | none => "err"
          s!"ok raw={semi (showBefpFields (befpToRaw p))} json={fj}"
      | _, _ => "bad-op"
    | "ranges" :: _ =>
      match (arg? ws "v").bind parseRanges with
      | none => "bad-op"
      | some v =>
        match Ranges.fromVec v with
        | .error _ => "err-decode"
        | .ok rs =>
          let f := match Ranges.fromVec rs with
            | .ok rs' => if rs' = rs then "same" else "diff"
            | .error _ => "err"
          s!"ok raw=v={showRanges rs} pb=- json={f}"
    -- correspondence-only types: third-party conversions, no model
    | "blob" :: _ => "ok pb=same json=same"
    | "eh" :: _ => "ok pb=same json=same"
    | _ => "bad-op"
  ((), out)

/-- `specOK` on the implementation's observed result -/
def spec (_ : Unit) (op : String) (obs : String) : String :=
  let ws := words op
  let os := words obs
  match ws.head?, os.head? with
  | some opn, some res =>
    if opn == "reset" then "specskip"
    else if res == "err-decode" || res == "bad-op" then "specskip"      -- not a valid value of the type
    else if res != "ok" then "specfail C46/unparsed"
    else
      let parity := opn == "share" && natArg? ws "parity" == some 1
      -- the forms every kind of value must have been taken through (a missing or `-` word is a failure)
      let required : List String :=
        if opn == "share" || opn == "nsproof" || opn == "nmtproof" || opn == "blobv" then ["conv", "pb", "json"]
        else if opn == "dah" || opn == "rowproof" || opn == "shareproof" || opn == "befp" || opn == "blob"
                || opn == "blobraw" || opn == "eh" then ["pb", "json"]
        else if opn == "ns" || opn == "merkle" || opn == "ranges" || opn == "fraudjson" || opn == "blobjson" then ["json"]
        else []
      let formOf (k : String) : Lumina.Spec.C46.Form := if k == "json" then .json else .protobuf
      let bad := (required ++ (["conv", "pb", "json"].filter (fun k => !required.contains k))).filter (fun k =>
        match arg? os k with
        | none => required.contains k
        | some w =>
          if w == "-" then required.contains k else
          match Lumina.Spec.C46.parseObs w with
          | some o => if opn == "share" then !Lumina.Spec.C46.specShareOK parity (formOf k) o else !Lumina.Spec.C46.specOK o
          | none => true)
      -- the JSON form of a fraud proof also has to carry the one type tag and the protobuf payload
      let bad := if opn == "befp" && (arg? os "jtype" != some "badencoding" || arg? os "jdata" != some "same")
                 then bad ++ ["jsonfields"] else bad
      if bad.isEmpty then "specok"
      else
        -- fingerprints of the two wire-format findings, everything else by type and form
        let absent := natArg? ws "absent"
        let ign := natArg? ws "ign"
        if opn == "share" && parity && !bad.contains "json" then
          "specfail C46/share-parity-not-on-protobuf shwap.Share / RawShare carry no parity flag: a parity share comes back from the protobuf form as a data share (or is refused)"
        else if (opn == "nsproof" || opn == "nmtproof") && absent == some 2 then
          s!"specfail C46/nsproof-absence-without-leaf the {opn} forms cannot carry an absence proof without a leaf"
        else if opn == "nmtproof" && ign == some 0 then
          "specfail C46/nmtproof-ignore-max-ns-not-on-wire NMTProof has no is_max_namespace_ignored field"
        else if opn == "blobv" && (arg? ws "index").getD "none" != "none" && !bad.contains "json" then
          "specfail C46/blob-index-not-on-wire BlobProto has no index field: a blob retrieved from chain comes back from the protobuf form without its index"
        else s!"specfail C46/{opn}-{"-".intercalate bad} encode -> decode did not give back an equal value"
  | _, _ => "specfail C46/unparsed"

def handler : Driver.Handler Unit := { init := (), step := step, spec := spec }

end Driver.C46

def main (args : List String) : IO UInt32 := Driver.run Driver.C46.handler args

import Driver.Common
import Lumina.Model.Util
import Lumina.Model.SyncerGate
import Lumina.Spec.C25
import Lumina.Gen.C25

/-
  C25 line protocol.  The honest chain has heights `1..=n`; the header at height `h` is
  `n + 1 - h` days old.  `sw=K` / `pw=J`: sampling / pruning window of `K` / `J` days + 12 h,
  so the header at `h` is outside the sampling window iff `n + 1 - h > K`, and at or before the
  pruning cutoff iff `n + 1 - h > J`.

    init n=N sw=K pw=J bs=B h0=H   fresh store holding the network head H, worker with head H, 1 peer
    ins a=A b=B | prune h=H | sample a=A b=B | head h=H | slow h=H|none | peers n=P | bs n=B
    advance d=D                    D days pass: every header is D days older from now on
    fetch | fetchkeep | cancel | deliver ok=0|1 | state | reset
  A fetch line ends with `edge=E`: the highest height whose header is outside the sampling
  window at that moment — computed by the harness from the real header times and the real clock,
  by the model from `n`, `sw` and the days advanced; the spec judges against the harness's.
-/
open Lumina.Util Lumina.Model.Ranges Lumina.Model.SyncerGate

namespace Driver.C25

structure St where
  n : Nat := 0
  sw : Nat := 0
  pw : Nat := 0
  /-- days passed since `init` -/
  adv : Nat := 0
  s : State := {}

def chain (st : St) : Chain :=
  { oldS := fun h => decide (st.n + 1 - h + st.adv > st.sw),
    oldP := fun h => decide (st.n + 1 - h + st.adv > st.pw) }

/-- highest height of the chain whose header is outside the sampling window now -/
def edge (st : St) : Nat := min st.n (st.n + st.adv - st.sw)

def slowMin : Nat := Lumina.Gen.C25.SLOW_SYNC_MIN_THRESHOLD

def showRanges (rs : Ranges) : String :=
  if rs.isEmpty then "-" else ",".intercalate (rs.map (fun r => s!"{r.1}-{r.2}"))

def showOpt : Option Nat → String
  | some h => toString h
  | none => "none"

def showDecision : Decision → String
  | .idle _ => "none"
  | .request r => s!"req {r.1}-{r.2}"

def showOut : Out → String
  | .ok => "ok"
  | .err => "err"
  | .panic => "panic"
  | .decision d => showDecision d

/-- the part of the store a fetch decision is judged against -/
def showView (st : St) : String :=
  s!"st={showRanges st.s.stored} pr={showRanges st.s.pruned} edge={edge st}"

def doStep (st : St) (op : Op) : St × Out :=
  let (s', o) := Lumina.Model.SyncerGate.step slowMin (chain st) st.s op
  ({ st with s := s' }, o)

/-- `sample a..b`: number of heights marked -/
def sampleRange (st : St) : Nat → Nat → Nat → St × Nat
  | _, 0, acc => (st, acc)
  | h, fuel + 1, acc =>
    let (st', o) := doStep st (.sample h)
    sampleRange st' (h + 1) fuel (if o == .ok then acc + 1 else acc)

def step (st : St) (line : String) : St × String :=
  let ws := words line
  match ws with
  | "reset" :: _ => ({}, "ok")
  | "init" :: _ =>
    match natArg? ws "n", natArg? ws "sw", natArg? ws "pw", natArg? ws "bs", natArg? ws "h0" with
    | some n, some sw, some pw, some bs, some h0 =>
      let s : State := { stored := [(h0, h0)], head := some h0, peers := 1, batchSize := bs }
      ({ n := n, sw := sw, pw := pw, s := s }, "ok")
    | _, _, _, _, _ => (st, "bad-op")
  | "ins" :: _ =>
    match natArg? ws "a", natArg? ws "b" with
    | some a, some b => let (st', o) := doStep st (.insert (a, b)); (st', showOut o)
    | _, _ => (st, "bad-op")
  | "prune" :: _ =>
    -- `h=<num> | tail | htail | head`, resolved against the stored ranges
    let h? : Option Nat := match arg? ws "h" with
      | some "tail" => st.s.stored.head?.map (·.1)
      | some "htail" => st.s.stored.getLast?.map (·.1)
      | some "head" => st.s.stored.getLast?.map (·.2)
      | some v => v.toNat?
      | none => none
    match h? with
    | some h => let (st', o) := doStep st (.prune h); (st', showOut o)
    | none => (st, "err")
  | "sample" :: _ =>
    match natArg? ws "a", natArg? ws "b" with
    | some a, some b =>
      let (st', k) := sampleRange st a (b + 1 - a) 0
      (st', s!"ok n={k}")
    | _, _ => (st, "bad-op")
  | "head" :: _ =>
    match natArg? ws "h" with
    | some h => let (st', _) := doStep st (.setHead h); (st', s!"ok head={showOpt st'.s.head}")
    | none => (st, "bad-op")
  | "slow" :: _ =>
    match arg? ws "h" with
    | some v =>
      let (st', _) := doStep st (.setSlow (if v == "none" then none else v.toNat?))
      (st', "ok")
    | none => (st, "bad-op")
  | "peers" :: _ =>
    match natArg? ws "n" with
    | some n => let (st', _) := doStep st (.setPeers n); (st', "ok")
    | none => (st, "bad-op")
  | "bs" :: _ =>
    match natArg? ws "n" with
    | some n => let (st', _) := doStep st (.setBatch n); (st', "ok")
    | none => (st, "bad-op")
  | "advance" :: _ =>
    match natArg? ws "d" with
    | some d => ({ st with adv := st.adv + d }, "ok")
    | none => (st, "bad-op")
  | "fetch" :: _ => let (st', o) := doStep st (.fetch false); (st', s!"{showOut o} {showView st}")
  | "fetchkeep" :: _ => let (st', o) := doStep st (.fetch true); (st', s!"{showOut o} {showView st}")
  | "cancel" :: _ => let (st', o) := doStep st .cancel; (st', showOut o)
  | "deliver" :: _ =>
    match natArg? ws "ok" with
    | some k =>
      let (st', o) := doStep st (.deliver (k != 0))
      (st', if o == .ok then s!"ok slow={showOpt st'.s.slowSync}" else showOut o)
    | none => (st, "bad-op")
  | "state" :: _ =>
    (st, s!"st={showRanges st.s.stored} pr={showRanges st.s.pruned} sa={showRanges st.s.sampled} head={showOpt st.s.head} slow={showOpt st.s.slowSync}")
  | _ => (st, "bad-op")

def parseRange (s : String) : Option (Nat × Nat) :=
  match s.splitOn "-" with
  | [a, b] => match a.toNat?, b.toNat? with
    | some a, some b => some (a, b)
    | _, _ => none
  | _ => none

def parseRanges (s : String) : Option (List (Nat × Nat)) :=
  if s == "-" then some [] else (s.splitOn ",").mapM parseRange

def parseObs (os : List String) : Option Lumina.Spec.C25.Obs :=
  match os with
  | "none" :: _ => some .nothing
  | "req" :: r :: _ => (parseRange r).map (fun (a, b) => .request a b)
  | _ => none

/-- `specOK` on the implementation's observed decision, in the state before the op -/
def spec (st : St) (op : String) (obs : String) : String :=
  let ws := words op
  match ws with
  | "fetch" :: _ | "fetchkeep" :: _ =>
    -- the view is the IMPLEMENTATION's own store (printed with the decision), not the model's
    let os := words obs
    match parseObs os, (arg? os "st").bind parseRanges, (arg? os "pr").bind parseRanges, natArg? os "edge" with
    | some o, some stored, some pruned, some e =>
      -- `old` from the header times the harness read, not from the declared `n=`/`sw=`
      let v : Lumina.Spec.C25.View := { stored := stored, pruned := pruned, old := fun h => decide (h ≤ e) }
      if Lumina.Spec.C25.specFetch v o then "specok"
      else if Lumina.Spec.C25.belowPrunedOldBound v o then
        "specfail C25/request-below-pruned-old-bound batch requested although the header just above it was pruned and is older than the sampling window"
      else "specfail C25/request-below-old-synced-header batch requested below a synced header older than the sampling window"
    | _, _, _, _ => "specfail C25/unparsed"
  | _ => "specskip"

def handler : Driver.Handler St := { init := {}, step := step, spec := spec }

end Driver.C25

def main (args : List String) : IO UInt32 := Driver.run Driver.C25.handler args

import Driver.Common
import Lumina.Model.Retry
import Lumina.Spec.C32
import Lumina.Gen.C32

open Lumina.Util Lumina.Model.Retry

namespace Driver.C32

structure St where
  s : State := init
  peers : List Peer := []

def parsePeer (w : String) : Option Peer :=
  match w.toList with
  | [c, t, a] => some { connected := c == 'c', trusted := t == 't', archival := a == 'a' }
  | _ => none

def kindStr : Kind → String
  | .any => "any" | .archival => "arch" | .trusted => "tr" | .trustedArchival => "trarch"

def ansStr : Answer → String
  | .ok => "ok" | .headerNotFound => "nf" | .invalidResponse => "ir" | .invalidRequest => "iq"
  | .outboundFailure => "of" | .requestCancelled => "rc"

def b01 (b : Bool) : String := if b then "1" else "0"

/-- recipient flags, projected on what the kind requires -/
def flagStr (k : Kind) (p : Peer) : String :=
  match k with
  | .any => s!"c{b01 p.connected}"
  | .archival => s!"c{b01 p.connected}a{b01 p.archival}"
  | .trusted => s!"c{b01 p.connected}t{b01 p.trusted}"
  | .trustedArchival => s!"c{b01 p.connected}t{b01 p.trusted}a{b01 p.archival}"

def countPend (s : State) (k : Kind) : Nat :=
  s.recs.countP (fun r => r.phase == .pending && r.kind == k)

def showOuts (s : State) (outs : List Out) : String :=
  let sent := outs.filterMap (fun o => match o with
    | .sent id att _ _ p => some s!"{id}:{att}:{if att ≥ 3 then s!"c{b01 p.connected}a{b01 p.archival}" else s!"c{b01 p.connected}"}"
    | _ => none)
  let ans := outs.filterMap (fun o => match o with
    | .answer id a => some s!"{id}:{ansStr a}"
    | _ => none)
  let pend := s!"{countPend s .any},{countPend s .archival},{countPend s .trusted},{countPend s .trustedArchival}"
  let infl := s.recs.countP (fun r => r.phase == .inflight)
  s!"sent={if sent.isEmpty then "-" else ",".intercalate sent} ans={if ans.isEmpty then "-" else ",".intercalate ans} pend={pend} infl={infl}"

def parseRes (s : String) : Option Res :=
  if s == "ok" then some .ok else if s == "nf" then some .headerNotFound
  else if s == "ir" then some .invalidResponse else if s == "of" then some .outboundFailure else none

def setAt (l : List Peer) (i : Nat) (f : Peer → Peer) : List Peer :=
  (List.range l.length |>.zip l).map (fun (j, p) => if j == i then f p else p)

/-- op line ↦ model event (and the new peer population) -/
def evOf (st : St) (ws : List String) : Option (Option Ev × List Peer) :=
  match ws with
  | "peers" :: _ =>
    match arg? ws "p" with
    | some s => (if s == "-" then some [] else (s.splitOn ",").mapM parsePeer).map (fun ps => (none, ps))
    | none => none
  | "conn" :: _ => (natArg? ws "i").map (fun i => (none, setAt st.peers i (fun p => { p with connected := true })))
  | "disc" :: _ => (natArg? ws "i").map (fun i => (none, setAt st.peers i (fun p => if p.connected then { p with connected := false, archival := false } else p)))
  | "req" :: _ => (natArg? ws "v").map (fun v => (some (.request (v == 1)), st.peers))
  | "sched" :: _ => some (some (.schedule st.peers id), st.peers)
  | "out" :: _ =>
    match natArg? ws "r", arg? ws "att", (arg? ws "res").bind parseRes with
    | some r, some att, some res =>
      let cur := match st.s.recs[r]? with | some x => x.sends | none => 0
      let a := if att == "old" then cur - 1 else cur
      some (some (.outcome r a res), st.peers)
    | _, _, _ => none
  | "close" :: _ => (natArg? ws "r").map (fun r => (some (.close r), st.peers))
  | "stop" :: _ => some (some .stop, st.peers)
  | _ => none

def step (st : St) (line : String) : St × String :=
  let ws := words line
  match ws with
  | "reset" :: _ => ({}, "ok")
  | _ =>
    match evOf st ws with
    | none => (st, "bad-op")
    | some (none, ps) => ({ st with peers := ps }, showOuts st.s [])
    | some (some ev, ps) =>
      let (s', outs) := Lumina.Model.Retry.step st.s ev
      ({ s := s', peers := ps }, showOuts s' outs)

open Lumina.Spec.C32 in
def knownOf (r : Rec) : Known :=
  { id := r.id, sends := r.sends, answered := decide (1 ≤ r.answers), closed := r.closed,
    waiting := r.phase == .pending, inflight := r.phase == .inflight }

def parseSent (s : String) : Option Lumina.Spec.C32.Sent :=
  match s.splitOn ":" with
  | [id, _, fl] =>
    (String.toNat? id).map (fun i =>
      { id := i, toConnected := (fl.splitOn "c1").length > 1, toArchival := (fl.splitOn "a1").length > 1 })
  | _ => none

open Lumina.Spec.C32 in
def spec (st : St) (op : String) (obs : String) : String :=
  let ws := words op
  let os := words obs
  match ws with
  | "reset" :: _ => "specskip"
  | _ =>
    if os == ["panic"] then "specfail C32/panic the client handler panicked" else
    match evOf st ws, arg? os "sent", arg? os "ans" with
    | some (ev?, _), some sentS, some ansS =>
      let known := st.s.recs.map knownOf ++
        (match ev? with
         | some (.request _) => [{ id := st.s.recs.length, sends := 0, answered := false, closed := false, waiting := false, inflight := false }]
         | _ => [])
      let sent? := if sentS == "-" then some [] else (sentS.splitOn ",").mapM parseSent
      let kindOf (k : String) : Option AnsKind :=
        if k == "ok" then some .ok else if k == "nf" then some .headerNotFound else if k == "ir" then some .invalidResponse
        else if k == "iq" then some .invalidRequest else if k == "of" then some .outboundFailure
        else if k == "rc" then some .requestCancelled else none
      let answers? : Option (List (Nat × AnsKind)) := if ansS == "-" then some []
        else (ansS.splitOn ",").mapM (fun a => match a.splitOn ":" with
          | [i, k] => match String.toNat? i, kindOf k with
            | some i, some k => some (i, k)
            | _, _ => none
          | _ => none)
      let resKindOf : Res → AnsKind
        | .ok => .ok | .headerNotFound => .headerNotFound | .invalidResponse => .invalidResponse
        | .outboundFailure => .outboundFailure
      match sent?, answers? with
      | some sent, some answers =>
        let ans := answers.map (·.1)
        -- what the callers are told (kind included), per kind of step
        let contentOk : Bool := match ev? with
          | some (.request v) => specRequestAnswers st.s.recs.length st.s.stopped v answers
          | some (.outcome id att res) =>
            let cur := match st.s.recs[id]? with | some x => att == x.sends | none => false
            specOutcomeAnswers known id cur (resKindOf res) answers
          | some .stop => specStopAnswers answers
          | _ => specQuietStep answers
        if !contentOk then
          "specfail C32/answer-content a caller was told something other than the first valid response / the final error / cancelled, or was answered at the wrong moment"
        else
        if !specSends known sent then
          "specfail C32/sends a request was sent more than three times, to a peer that is not connected, with its third attempt to a non-archival peer, or after its answer"
        else if !specAnswers known ans then
          "specfail C32/answered-twice a caller received a second answer"
        else match ev? with
          | some (.schedule ps _) =>
            if specScheduleProgress known (ps.any (·.connected)) (ps.any (fun p => p.connected && p.archival)) sent then "specok"
            else "specfail C32/not-scheduled a waiting request was not sent although a peer of the required kind is connected"
          | some .stop =>
            if specStopProgress known ans then "specok"
            else "specfail C32/stop-without-answer a caller was left without an answer when the client stopped"
          | _ => "specok"
      | _, _ => "specfail C32/unparsed"
    | _, _, _ => "specfail C32/unparsed"

def handler : Driver.Handler St := { init := {}, step := step, spec := spec }

end Driver.C32

def main (args : List String) : IO UInt32 := Driver.run Driver.C32.handler args

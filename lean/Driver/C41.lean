import Driver.Common
import Lumina.Model.Util
import Lumina.Model.CounterObs
import Lumina.Spec.C41

open Lumina.Util Lumina.Model.Counter

namespace Driver.C41

/-- driver state: the model state of the sequential history + the spec-side history `Hist`
    (`track`: from the op and the OUTCOME CLASS the model assigns to it — ok / refused —, since the
    framework threads the model's state through the spec pass; an implementation that disagrees on
    that class is reported as a model disagreement on that very line) -/
structure St where
  m : State
  h : Lumina.Spec.C41.Hist

def St.init : St := { m := Lumina.Model.Counter.init, h := .empty }

def parseSeq (ws : List String) : Option SeqOp :=
  match ws with
  | "guard" :: _ => some .guard
  | "drop" :: _ => (natArg? ws "i").map .drop
  | "dec" :: _ => (natArg? ws "i").map .dec
  | "notify" :: _ => (natArg? ws "i").map .notify
  | "wait" :: _ => some .wait
  | "poll" :: _ => some .poll
  | "cancel" :: _ => some .cancel
  | _ => none

def b01 (b : Bool) : String := if b then "1" else "0"

def showSeq (s' : State) : SeqOp → SeqOut → String
  | .guard, .ok => s!"ok g={s'.guards.length - 1} count={holders s'}"
  | _, .ok => s!"ok count={holders s'} woken={b01 (woken s')}"
  | _, .borrowed => "borrowed"
  | _, .noguard => "noguard"
  | _, .busy => "busy"
  | _, .nofuture => "nofuture"
  | _, .finished => "finished"
  | _, .ready => s!"ready count={holders s'}"
  | _, .pending => s!"pending count={holders s'}"

/-- parse `c,pb,pP,pR,b<i>,e<i>` -/
def parseVis (tok : String) : Option Vis :=
  if tok == "c" then some .call
  else if tok == "pb" then some .pollBegin
  else if tok == "pP" then some .pollPending
  else if tok == "pR" then some .pollReady
  else match tok.toList with
    | 'b' :: r => (String.ofList r).toNat?.map .dropBegin
    | 'e' :: r => (String.ofList r).toNat?.map .dropEnd
    | _ => none

def parseTrace (s : String) : Option (List Vis) :=
  if s == "-" then some [] else (s.splitOn ",").mapM parseVis

/-- model's answer for a concurrent run whose observed trace is `tr`:
    `not-a-run` if the model cannot exhibit the trace; otherwise whether the model says the wait
    returns (already in the trace, or — every drop having begun — in every continuation) -/
def raceModel (n : Nat) (tr : List Vis) : String :=
  let sts := traceStates n tr
  if sts.isEmpty then "not-a-run"
  else if tr.contains .pollReady then "returned"
  else if (List.range n).all (fun i => tr.contains (.dropBegin i)) && tr.contains .call then
    if sts.all eventuallyReturns then "returned" else "stuck"
  else "unfinished"

def isRace (w : String) : Bool := w == "race" || w == "store"

def step (st : St) (line : String) : St × String :=
  let ws := words line
  match ws with
  | "reset" :: _ => (St.init, "ok")
  | w :: _ =>
    if isRace w then
      match natArg? ws "n", (arg? ws "obs").bind parseTrace with
      | some n, some tr => (st, raceModel n tr)
      | _, _ => (st, "bad-op")
    else
      match parseSeq ws with
      | none => (st, "bad-op")
      | some op =>
        let (m', out) := seqStep st.m op
        -- spec-side history: from the op and its outcome class only
        let h' := track st.h op out
        ({ m := m', h := h' }, showSeq m' op out)
  | [] => (st, "bad-op")

def verdict (name : String) (b : Bool) (why : String := "") : String :=
  if b then "specok" else s!"specfail {name} {why}"

def spec (st : St) (op : String) (obs : String) : String :=
  let ws := words op
  let os := words obs
  match ws with
  | "reset" :: _ => "specskip"
  | "poll" :: _ =>
    match os with
    | "ready" :: _ => verdict "C41/early-return" (Lumina.Spec.C41.specPoll st.h true)
        "wait_guards returned while a guard had not released its count"
    | "pending" :: _ => verdict "C41/lost-wakeup" (Lumina.Spec.C41.specPoll st.h false)
        "wait_guards still pending after every guard was dropped"
    | "nofuture" :: _ => "specskip"
    | "finished" :: _ => "specskip"
    | _ => "specfail C41/unparsed"
  | w :: _ =>
    if isRace w then
      match natArg? ws "n", (arg? ws "obs").bind parseTrace, os with
      | some n, some tr, [r] =>
        let evs := tr.map toEv
        let returned := r == "returned"
        let endsSeen := w == "race"
        if !(r == "returned" || r == "hang") then "specfail C41/unparsed"
        else if !Lumina.Spec.C41.specSafe n [] evs then
          "specfail C41/early-return wait returned before every task had finished"
        else if !Lumina.Spec.C41.specLive n endsSeen evs returned then
          "specfail C41/hang every task finished but the wait did not return"
        else verdict "C41/trace" (Lumina.Spec.C41.specTrace n endsSeen evs returned)
      | _, _, _ => "specfail C41/unparsed"
    else "specskip"
  | [] => "specfail C41/unparsed"

def handler : Driver.Handler St := { init := St.init, step := step, spec := spec }

end Driver.C41

def main (args : List String) : IO UInt32 := Driver.run Driver.C41.handler args

/-
  C21 driver.  Same history protocol as C19 (`Driver/StoreCommon.lean`).  `spec`, evaluated on
  the implementations' own state dumps after every mutating operation: the harness re-verified
  every two consecutive stored headers with the real `ExtendedHeader::verify_adjacent` (`adj=`
  lists the heights whose successor does NOT verify) and looked every stored header up through
  the hash index (`hidx=` lists the heights for which `get_by_hash(hash)` / `has(hash)` do not
  give the same header at that height): both lists must be empty, for both stores.
-/
import Driver.StoreCommon

open Driver.StoreCommon Lumina.Util

namespace Driver.C21

def partVerdict (store : String) (part : String) : Option String :=
  match part.splitOn " ; " with
  | _res :: post :: _ =>
    if post == "panic" then some s!"C21/{store}/state-dump-panicked"
    else
      let ws := words post
      match arg? ws "adj", arg? ws "hidx" with
      | some a, some h =>
        if a != "-" then some s!"C21/{store}/consecutive-stored-headers-do-not-verify at {a}"
        else if h != "-" then some s!"C21/{store}/hash-index-inconsistent at {h}"
        else none
      | _, _ => some s!"C21/{store}/unparsed"
  | _ => some s!"C21/{store}/unparsed"

def spec (s : St) (op : String) (obs : String) : String :=
  match words op with
  | opname :: _ =>
    if opname == "insert" || opname == "remove" || opname == "mark" || opname == "meta" || opname == "dump" then
      let _ := s
      match splitObs obs with
      | none => "specfail C21/unparsed"
      | some (m, r) =>
        match partVerdict "mem" m, partVerdict "redb" r with
        | some f, _ => s!"specfail {f}"
        | none, some f => s!"specfail {f}"
        | none, none => "specok"
    else "specskip"
  | [] => "specskip"

def handler : Driver.Handler St := { init := St.init .c21, step := step, spec := spec }

end Driver.C21

def main (args : List String) : IO UInt32 := Driver.run Driver.C21.handler args

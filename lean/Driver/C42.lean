import Driver.Common
import Lumina.Model.Util
import Lumina.Model.TasksObs
import Lumina.Spec.C42

open Lumina.Util Lumina.Model.Tasks

namespace Driver.C42
open Lumina.Spec.C42 (Hist)

structure St where
  c : Ctl
  h : Hist

def St.init : St := { c := Ctl.init, h := Hist.empty }

def parseBeh (ch : Char) : Option Beh :=
  if ch == 'P' then some .pending else if ch == 'R' then some .ready else if ch == 'X' then some .panic else none

def parseScript (s : String) : Option (List Beh) :=
  if s == "-" then some [] else s.toList.mapM parseBeh

def showIds (l : List Nat) : String := if l.isEmpty then "-" else ",".intercalate (l.map toString)

def b01 (b : Bool) : String := if b then "1" else "0"

def step (st : St) (line : String) : St × String :=
  let ws := words line
  let c := st.c
  match ws with
  | "reset" :: _ => (St.init, "ok")
  | "spawn" :: _ =>
    match natArg? ws "c", natArg? ws "t", (arg? ws "script").bind parseScript with
    | some cc, some tok, some script =>
      if c.down then (st, "down")
      else
        let i := c.m.tasks.length
        let m' := (Lumina.Model.Tasks.step c.m (.spawn (cc != 0) tok)).getD c.m
        ({ c := { c with m := m', scripts := c.scripts ++ [script], woken := insertSorted i c.woken },
           h := { st.h with tasks := st.h.tasks ++ [(i, cc != 0, tok)] } }, s!"ok i={i}")
    | _, _, _ => (st, "bad-op")
  | "tick" :: _ =>
    if c.down then (st, "polled=- dropped=- alive=-")
    else
      let (c', polled, dropped) := tick c
      ({ st with c := c' }, s!"polled={showIds polled} dropped={showIds dropped} alive={showIds (alive c'.m)}")
  | "wake" :: _ =>
    match natArg? ws "i" with
    | some i =>
      if c.wakers.contains i && !c.down then
        ({ st with c := { c with wakers := c.wakers.filter (· != i), woken := insertSorted i c.woken } }, "ok")
      else (st, "nowaker")
    | none => (st, "bad-op")
  | "cancel" :: _ =>
    match natArg? ws "t" with
    | some tok =>
      let c' := cancelTok c tok
      let c'' := if c.down then { c' with woken := [] } else c'
      ({ c := c'', h := { st.h with cancelled := tok :: st.h.cancelled } }, "ok")
    | none => (st, "bad-op")
  | "join" :: _ =>
    match natArg? ws "i" with
    | some i =>
      match c.m.tasks[i]? with
      | some t => (st, s!"{if t.triggered then "resolved" else "pending"} ended={b01 (isEnded t.pc)}")
      | none => (st, "notask")
    | none => (st, "bad-op")
  | "shutdown" :: _ =>
    if c.down then (st, "dropped=-")
    else
      let (c', victims) := shutdown c
      ({ st with c := c' }, s!"dropped={showIds victims}")
  | _ => (st, "bad-op")

/-! ### concurrent traces -/

/-- tokens: `s<i>.<c>.<tok>` `p<i>.<P|R|X>` `d<i>` `C<tok>` `c<tok>` `j<i>` -/
def parseVis (tok : String) : Option Vis :=
  match tok.toList with
  | 's' :: r =>
    match (String.ofList r).splitOn "." with
    | [i, c, t] => match i.toNat?, c.toNat?, t.toNat? with
      | some i, some c, some t => some (.spawn i (c != 0) t)
      | _, _, _ => none
    | _ => none
  | 'p' :: r =>
    match (String.ofList r).splitOn "." with
    | [i, b] => match i.toNat?, b.toList with
      | some i, [ch] => (parseBeh ch).map (.poll i)
      | _, _ => none
    | _ => none
  | 'd' :: r => (String.ofList r).toNat?.map .dropped
  | 'C' :: r => (String.ofList r).toNat?.map .cancelBegin
  | 'c' :: r => (String.ofList r).toNat?.map .cancelDone
  | 'j' :: r => (String.ofList r).toNat?.map .joined
  | _ => none

def parseTrace (s : String) : Option (List Vis) :=
  if s == "-" then some [] else (s.splitOn ",").mapM parseVis

def raceModel (tr : List Vis) : String :=
  let sts := traceStates tr
  if sts.isEmpty then "not-a-run"
  else
    -- the model's verdict on "every join handle resolves": in every state the model can be in,
    -- every task has ended and its handle is triggered
    let allJoined := sts.all (fun t => (List.range t.m.tasks.length).all (fun i => joinResolves t.m i))
    if allJoined then "joined" else "unjoined"

def stepAll (st : St) (line : String) : St × String :=
  let ws := words line
  match ws with
  | "race" :: _ =>
    match (arg? ws "obs").bind parseTrace with
    | some tr => (st, raceModel tr)
    | none => (st, "bad-op")
  | _ => step st line

def verdict (name : String) (b : Bool) (why : String := "") : String :=
  if b then "specok" else s!"specfail {name} {why}"

def idsArg? (ws : List String) (key : String) : Option (List Nat) :=
  match arg? ws key with
  | some s => if s == "-" then some [] else (s.splitOn ",").mapM String.toNat?
  | none => none

def spec (st : St) (op : String) (obs : String) : String :=
  let ws := words op
  let os := words obs
  match ws with
  | "join" :: _ =>
    match os with
    | [r, _] =>
      match natArg? os "ended" with
      | some e =>
        let resolved := r == "resolved"
        if !(r == "resolved" || r == "pending") then "specfail C42/unparsed"
        else if resolved && e == 0 then "specfail C42/early-resolve the join handle resolved while the task's future still exists"
        else if !resolved && e == 1 then "specfail C42/never-resolves the task has ended but its join handle does not resolve"
        else verdict "C42/join" (Lumina.Spec.C42.specJoin resolved (e == 1))
      | none => "specfail C42/unparsed"
    | ["notask"] => "specskip"
    | _ => "specfail C42/unparsed"
  | "tick" :: _ =>
    match idsArg? os "polled", idsArg? os "alive" with
    | some polled, some aliveIds =>
      verdict "C42/not-stopped" (Lumina.Spec.C42.specTick st.h polled aliveIds)
        "a cancellable task whose token is cancelled was polled again or is still alive after the runtime went idle"
    | _, _ => "specfail C42/unparsed"
  | "race" :: _ =>
    match (arg? ws "obs").bind parseTrace, os with
    | some tr, [r] =>
      let evs := tr.filterMap toEv
      if r == "hang" then "specfail C42/never-resolves a join handle did not resolve within the time-out"
      else if r != "joined" then "specfail C42/unparsed"
      else if !Lumina.Spec.C42.specSafe [] evs then
        "specfail C42/early-resolve a join handle resolved before the task's future was dropped"
      else if !Lumina.Spec.C42.specLive evs then
        "specfail C42/never-resolves a task ended but its join was not observed"
      else if !Lumina.Spec.C42.specCancel evs then
        "specfail C42/not-stopped a cancelled task kept being polled or never ended"
      else "specok"
    | _, _ => "specfail C42/unparsed"
  | _ => "specskip"

def handler : Driver.Handler St := { init := St.init, step := stepAll, spec := spec }

end Driver.C42

def main (args : List String) : IO UInt32 := Driver.run Driver.C42.handler args

import Driver.Common
import Lumina.Model.HeaderExServer
import Lumina.Spec.C29
import Lumina.Gen.C29

open Lumina.Util Lumina.Model.HeaderExServer
open Lumina.Model.Framing (HeaderRequest ReqData)

namespace Driver.C29

/-- opaque tokens (body digests) as byte strings -/
def tok (s : String) : Bytes := s.toList.map (fun c => UInt8.ofNat c.toNat)
def untok (b : Bytes) : String := String.ofList (b.map (fun x => Char.ofNat x.toNat))

def parseEntry (s : String) : Option Stored :=
  match s.splitOn ":" with
  | [h, hash, body] => do
    let h ← String.toNat? h
    let hash ← fromHex hash
    some { height := h, hash := hash, body := tok body }
  | _ => none

def parseStore (s : String) : Option Store :=
  if s == "-" then some [] else (s.splitOn ",").mapM parseEntry

def parseReq (ws : List String) : Option HeaderRequest := do
  let a ← natArg? ws "a"
  let d ← arg? ws "d"
  if d == "none" then some { amount := a, data := .none }
  else if d.startsWith "o:" then
    (String.toNat? (d.drop 2).toString).map (fun o => { amount := a, data := .origin o })
  else if d.startsWith "h:" then
    (fromHex (d.drop 2).toString).map (fun h => { amount := a, data := .hash h })
  else none

def showResp : Resp → String
  | .ok b => s!"ok:{untok b}"
  | .notFound => "nf"
  | .invalid => "inv"

def showOutcome : Outcome → String
  | .responses rs => s!"resp {",".intercalate (rs.map showResp)}"
  | .panic => "panic"
  | .nothing => "nothing"

open Lumina.Gen.C29 in
def step (st : Store) (line : String) : Store × String :=
  let ws := words line
  match ws with
  | "reset" :: _ => ([], "ok")
  | "store" :: _ =>
    match (arg? ws "e").bind parseStore with
    | some s => (s, s!"ok {s.length}")
    | none => (st, "bad-op")
  | "req" :: _ =>
    match parseReq ws with
    | some r =>
      let stopping := (arg? ws "stop") == some "1"
      (st, showOutcome (serve false MAX_HEADERS_AMOUNT_RESPONSE st stopping r))
    | none => (st, "bad-op")
  | _ => (st, "bad-op")

def parseObsResp (s : String) : Option Lumina.Spec.C29.Resp :=
  if s == "nf" then some .notFound
  else if s == "inv" then some .invalid
  else if s.startsWith "ok:" then some (.ok (tok (s.drop 3).toString))
  else none

open Lumina.Spec.C29 in
def spec (st : Store) (op : String) (obs : String) : String :=
  let ws := words op
  let os := words obs
  match ws with
  | "req" :: _ =>
    if (arg? ws "stop") == some "1" then "specskip" else
    match parseReq ws with
    | some r =>
      let es : List Entry := st.map (fun e => { height := e.height, hash := e.hash, body := e.body })
      let req : Req := match r.data with
        | .none => .noData r.amount
        | .origin o => .origin o r.amount
        | .hash h => .hash h r.amount
      let o? : Option Obs := match os with
        | ["panic"] => some .panic
        | ["resp", l] => ((l.splitOn ",").mapM parseObsResp).map Obs.responses
        | _ => none
      match o? with
      | some .panic =>
        "specfail C29/panic the server handler panicked while answering"
      | some o =>
        if specServe es req o then "specok"
        else
          let cls := match req with
            | .noData _ => "no-data"
            | .origin 0 _ => "origin-0"
            | .origin _ _ => "height"
            | .hash _ _ => "hash"
          s!"specfail C29/wrong-answer-{cls} the answer is not the one the property prescribes"
      | none => "specfail C29/unparsed"
    | none => "specfail C29/unparsed"
  | _ => "specskip"

def handler : Driver.Handler Store := { init := [], step := step, spec := spec }

end Driver.C29

def main (args : List String) : IO UInt32 := Driver.run Driver.C29.handler args

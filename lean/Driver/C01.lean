import Driver.Common
import Driver.ConsensusE
import Lumina.Model.HeaderVerifyBridge
import Lumina.Model.C01Consts
import Lumina.Model.CommitBridge
import Lumina.Spec.C01
import Lumina.Spec.C03

open Lumina.Util Lumina.Model.Commit Lumina.Model.HeaderVerify Driver.ConsensusE

namespace Driver.C01

def runValidate (p : ParsedEH) : ValOut := validate p.prims sourceConsts p.eh

/-- S9: `validator_set.verify_commit_light(&header.chain_id, &h, &commit)` called directly with a
    height `h` chosen by the op (inside `validate` the commit's own `validate_basic` and the
    commit-height comparison shadow the "No signature in CommitSig" and "height != commit height"
    exits of `verify_commit_light`) -/
def runVcl (h : Nat) (p : ParsedEH) : ValOut :=
  commitOut (verifyCommitLight (sigOracle p.prims p.eh) sourceConsts.lightNum sourceConsts.lightDen
    p.eh.valset.toValSet h p.eh.commit.height (p.eh.commit.sigs.map EntryF.toCSig))

def run (line : String) : String :=
  let ws := words line
  match ws.head? with
  | some "reset" => "ok"
  | some "vcl" =>
    match natArg? ws "h", parseEH ws "" with
    | some h, some p => showValOut (runVcl h p) ++ " " ++ p.words
    | _, _ => "bad-op"
  | some "validate" =>
    match parseEH ws "" with
    | some p => showValOut (runValidate p) ++ " " ++ p.words
    | none => "bad-op"
  | some "mutate" =>
    match parseEH ws "b.", parseEH ws "m." with
    | some b, some m =>
      showValOut (runValidate b) ++ " " ++ b.words ++ " | " ++ showValOut (runValidate m) ++ " " ++ m.words
    | _, _ => "bad-op"
  | _ => "bad-op"

def step (_ : Unit) (line : String) : Unit × String := ((), run line)

/-- the property is evaluated with the INDEPENDENT validity bits -/
def validOf (p : ParsedEH) : Nat → Nat → Bool := fun i j => i == j && p.ibits.getD j 0 == 1

def entryAt (p : ParsedEH) (k : Nat) : Option (EntryF (List UInt8)) := p.eh.commit.sigs[k]?

/-- does `m` differ from `b` in the part the mutation family names? -/
def differs (fam : String) (k : Nat) (b m : ParsedEH) : Bool :=
  if fam == "header" then b.eh.header.canon != m.eh.header.canon
  else if fam == "dah" then b.eh.dah != m.eh.dah
  else if fam == "valset" then b.eh.valset.hashed != m.eh.valset.hashed
  else if fam == "commit-block-hash" then b.eh.commit.blockId.hash != m.eh.commit.blockId.hash
  else if fam == "commit-psh" then
    (b.eh.commit.blockId.pst, b.eh.commit.blockId.psh) != (m.eh.commit.blockId.pst, m.eh.commit.blockId.psh)
  else if fam == "commit-height" then b.eh.commit.height != m.eh.commit.height
  else if fam == "commit-round" then b.eh.commit.round != m.eh.commit.round
  else match entryAt b k, entryAt m k with
    | some e, some e' =>
      if fam == "sig" then e.sig != e'.sig && e.ts == e'.ts && e.addr == e'.addr && e.flag == e'.flag
      else if fam == "ts" then e.ts != e'.ts && e.sig == e'.sig && e.addr == e'.addr && e.flag == e'.flag
      else if fam == "addr" then e.addr != e'.addr && e.sig == e'.sig && e.ts == e'.ts && e.flag == e'.flag
      else false
    | _, _ => false

open Lumina.Spec.C01 in
def spec (_ : Unit) (opl : String) (obs : String) : String :=
  let ws := words opl
  match ws.head? with
  | some "reset" => "specskip"
  | some "validate" =>
    match parseEHObs ws "" obs with
    | some p =>
      let accepted := (words obs).head? == some "ok"
      let v := toView p.prims p.eh
      if p.bits != p.ibits then
        "specfail C01/sign-bytes signature validity through lumina's vote_sign_bytes differs from validity over the canonical vote"
      else if !specHonestAccepted v (validOf p) accepted then
        "specfail C01/honest-rejected a consistent header signed by more than 2/3 was rejected"
      else if v.storedTotal != v.powers.sum then
        (if specAcceptedStructure v accepted then "specok"
         else "specfail C01/accepted-unbound accepted a header whose parts are not bound together")
      else if !specAcceptedBinds v (validOf p) accepted then
        "specfail C01/accepted-unbound accepted a header whose parts are not bound together"
      else "specok"
    | none => "specfail C01/unparsed"
  | some "vcl" =>
    match natArg? ws "h", parseEHObs ws "" obs with
    | some h, some p =>
      let accepted := (words obs).head? == some "ok"
      let vs := p.eh.valset.toValSet
      let inp := specInput vs h p.eh.commit.height (p.eh.commit.sigs.map EntryF.toCSig)
      if p.bits != p.ibits then
        "specfail C01/sign-bytes signature validity through lumina's vote_sign_bytes differs from validity over the canonical vote"
      else if accepted && h != p.eh.commit.height then
        "specfail C01/vcl-height commit accepted for a height other than the commit's"
      else if !vs.wf then "specskip"
      else if !Lumina.Spec.C03.specLightSound inp (validOf p) accepted then
        "specfail C01/vcl-sound commit accepted without 2/3 of valid power"
      else if !Lumina.Spec.C03.specLightExact inp (validOf p) accepted then
        "specfail C01/vcl-exact verdict differs from (signing power > 2/3)"
      else "specok"
    | _, _ => "specfail C01/unparsed"
  | some "mutate" =>
    match obs.splitOn " | ", arg? ws "fam", natArg? ws "idx" with
    | [ob, om], some fam, some k =>
      match parseEHObs ws "b." ob, parseEHObs ws "m." om with
      | some b, some m =>
      let accB := (words ob).head? == some "ok"
      let accM := (words om).head? == some "ok"
      if b.bits != b.ibits || m.bits != m.ibits then
        "specfail C01/sign-bytes signature validity through lumina's vote_sign_bytes differs from validity over the canonical vote"
      else if !differs fam k b m then "specskip"
      else if specMutation accB accM then "specok"
      else if fam == "addr" then
        s!"specfail C01/commit-entry-address-unsigned validator address of commit entry {k} changed, still accepted (the address is neither signed nor compared)"
      else if (fam == "sig" || fam == "ts") && !tallied (toView b.prims b.eh) k then
        s!"specfail C01/commit-entry-not-tallied {fam} of commit entry {k} (nil/absent vote or after the 2/3 tally was reached) changed, still accepted"
      else s!"specfail C01/mutation-accepted {fam} changed, still accepted"
      | _, _ => "specfail C01/unparsed"
    | _, _, _ => "specfail C01/unparsed"
  | _ => "specfail C01/unparsed"

def handler : Driver.Handler Unit := { init := (), step := step, spec := spec }

end Driver.C01

def main (args : List String) : IO UInt32 := Driver.run Driver.C01.handler args

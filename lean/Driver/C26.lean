import Driver.Common
import Lumina.Model.Util
import Lumina.Model.Session
import Lumina.Gen.C26
import Lumina.Spec.C26

open Lumina.Util Lumina.Model.Session
open Lumina.Spec.C26 (Track)

namespace Driver.C26

def cfg : Cfg :=
  { minAmount := Lumina.Gen.C26.MIN_AMOUNT_PER_REQ, maxAmount := Lumina.Gen.C26.MAX_AMOUNT_PER_REQ,
    maxConcurrent := Lumina.Gen.C26.MAX_CONCURRENT_REQS }

/-- `a-b,c,d-e` (ascending runs) ↦ heights; `-` = empty -/
def parseRuns (s : String) : Option (List Nat) :=
  if s == "-" then some [] else
  (s.splitOn ",").foldlM (fun acc item =>
    match item.splitOn "-" with
    | [a] => a.toNat?.map (fun x => acc ++ [x])
    | [a, b] => match a.toNat?, b.toNat? with
      | some x, some y => if x ≤ y then some (acc ++ List.range' x (y - x + 1)) else none
      | _, _ => none
    | _ => none) []

/-- maximal ascending runs -/
def showRunsAux : List Nat → Nat → Nat → List String → List String
  | [], lo, hi, acc => acc ++ [if lo == hi then toString lo else s!"{lo}-{hi}"]
  | x :: xs, lo, hi, acc =>
    if x == hi + 1 then showRunsAux xs lo x acc
    else showRunsAux xs x x (acc ++ [if lo == hi then toString lo else s!"{lo}-{hi}"])

def showRuns : List Nat → String
  | [] => "-"
  | x :: xs => ",".intercalate (showRunsAux xs x x [])

def insertReq (q : Req) : List Req → List Req
  | [] => [q]
  | p :: ps => if q.1 < p.1 || (q.1 == p.1 && q.2 ≤ p.2) then q :: p :: ps else p :: insertReq q ps

def showReqs (qs : List Req) : String :=
  let sorted := qs.foldr insertReq []
  if sorted.isEmpty then "-" else ",".intercalate (sorted.map (fun q => s!"{q.1}+{q.2}"))

def parseReqs (s : String) : Option (List Req) :=
  if s == "-" then some [] else
  (s.splitOn ",").mapM (fun item =>
    match item.splitOn "+" with
    | [a, b] => match a.toNat?, b.toNat? with
      | some x, some y => some (x, y)
      | _, _ => none
    | _ => none)

def showRange : Option Range → String
  | none => "none"
  | some r => s!"{r.1}-{r.2}"

def parseRange (s : String) : Option (Option Range) :=
  if s == "none" then some none else
  match s.splitOn "-" with
  | [a, b] => match a.toNat?, b.toNat? with
    | some x, some y => some (some (x, y))
    | _, _ => none
  | _ => none

structure St where
  sess : Option (State Nat × Track)

/-- the tail of a result line after the issued requests -/
def tail (s : State Nat) (failKind : String) : String :=
  match s.status with
  | .panicked => ""
  | .failed => s!" fail={failKind}"
  | .running => if s.tasks.isEmpty then s!" done={showRuns (result id s)}" else ""

def parseEv (ws : List String) : Option (Ev Nat × String) :=
  match ws, natArg? ws "h", natArg? ws "a" with
  | "resp" :: _, some h, some a => ((arg? ws "hs").bind parseRuns).map (fun hs => (Ev.ok h a hs, ""))
  | "err" :: _, some h, some a => some (Ev.err h a, "")
  | "fatal" :: _, some h, some a => some (Ev.fatal h a, (arg? ws "kind").getD "?")
  | _, _, _ => none

def trackEv (t : Track) : Ev Nat → Track
  | .ok h a hs => t.deliver h a hs
  | _ => t

def step (st : St) (line : String) : St × String :=
  let ws := words line
  match ws with
  | "reset" :: _ => ({ sess := none }, "ok")
  | "start" :: _ =>
    match natArg? ws "s", natArg? ws "e" with
    | some s, some e =>
      let m : State Nat := init cfg (s, e)
      if m.status == .panicked then ({ sess := none }, "panic")
      else ({ sess := some (m, Track.start s e) }, s!"bs={m.batchSize} reqs={showReqs m.tasks}{tail m ""}")
    | _, _ => (st, "bad-op")
  | "tnb" :: _ =>
    match (arg? ws "r").bind parseRange, natArg? ws "limit" with
    | some r, some limit =>
      let panics := match r with
        | some rr => limit != 0 && lenPanics rr
        | none => false
      if panics then (st, "panic") else
      let (rest, batch) := takeNextBatch r limit
      (st, s!"rest={showRange rest} batch={showRange batch}")
    | _, _ => (st, "bad-op")
  | _ =>
    match parseEv ws, st.sess with
    | some (ev, kind), some (m, t) =>
      if m.status = .running ∧ ev.req ∈ m.tasks then
        let m' := Lumina.Model.Session.step m ev
        let out := if m'.status == .panicked then "panic"
          else s!"reqs={showReqs (issued m m' ev)}{tail m' kind}"
        ({ sess := some (m', trackEv t ev) }, out)
      else (st, "bad-ev")
    | some _, none => (st, "bad-ev")
    | none, _ => (st, "bad-op")

/-- `specOK` on what the IMPLEMENTATION printed, in the state before the op -/
def spec (st : St) (op : String) (obs : String) : String :=
  let ws := words op
  let os := words obs
  let verdict (t : Track) : String :=
    if !t.admissible then "specskip" else
    match os with
    | ["panic"] => "specfail C26/panic the session panicked on an admissible schedule"
    | _ =>
      match (arg? os "reqs").bind parseReqs with
      | none => "specfail C26/unparsed no reqs= in the implementation's line"
      | some qs =>
        if !Lumina.Spec.C26.specRequests t qs then
          s!"specfail C26/request issued request is not a non-empty <=64 sub-range of not-yet-received heights"
        else match arg? os "done" with
          | some d => match parseRuns d with
            | some hs => if Lumina.Spec.C26.specResult t hs then "specok"
                else "specfail C26/result completed session did not return the range ascending, once each"
            | none => "specfail C26/unparsed done="
          | none => "specok"
  match ws with
  | "reset" :: _ => "specskip"
  | "tnb" :: _ => "specskip"
  | "start" :: _ =>
    match natArg? ws "s", natArg? ws "e" with
    | some s, some e => verdict (Track.start s e)
    | _, _ => "specfail C26/unparsed"
  | _ =>
    match parseEv ws, st.sess with
    | some (ev, _), some (m, t) =>
      if m.status = .running ∧ ev.req ∈ m.tasks then
        match ev with
        | .fatal _ _ => "specskip"
        | _ => verdict (trackEv t ev)
      else "specskip"
    | _, _ => "specskip"

def handler : Driver.Handler St := { init := { sess := none }, step := step, spec := spec }

end Driver.C26

def main (args : List String) : IO UInt32 := Driver.run Driver.C26.handler args

import Driver.Common
import Lumina.Model.Sha256
import Lumina.Model.Decoders
import Lumina.Spec.C16
import Driver.ConsensusE
import Lumina.Model.C01Consts

open Lumina.Util Lumina.Model.Nmt Lumina.Model.Eds Lumina.Model.Decoders

namespace Driver.C16

/-- the concrete hash of the implementation -/
def sha : HashFn := Lumina.Model.Sha256.hash

/-- state: the DAH the decoders verify against -/
abbrev St := Option Dah

/-! Which code is modelled: the decoders AS THEY ARE NOW in /repo. -/
def sampleFromRawNow := sampleFromRaw
def sampleVerifyNow := sampleVerify sha
def rowFromRawNow := rowFromRaw
def rndVerifyNow := rndVerify sha
def ndVerifyNow := ndVerify sha
def befpPrefixNow := befpPrefix (safeVerifyRange sha) true true
/-- is the `unwrap` of `BadEncodingFraudProof::validate` already replaced in /repo? -/
def BEFP_UNWRAP_FIXED : Bool := true
def befpSuffixNow := befpSuffix BEFP_UNWRAP_FIXED sha

def parseRawProof (ws : List String) : Option RawProof :=
  match natArg? ws "start", natArg? ws "end", hexListArg? ws "nodes", hexArg? ws "leaf", natArg? ws "ign" with
  | some st, some en, some nodes, some leaf, some ign => some ⟨st, en, nodes, leaf, ign == 1⟩
  | _, _, _, _, _ => none

def parseHexList (s : String) : Option (List Bytes) :=
  if s == "-" then some []
  else (s.splitOn ",").mapM (fun t => if t == "_" then some [] else fromHexChars t.toList)

/-- `hasproof/start/end/nodes/leaf/ign` -/
def parseSlashProof : List String → Option (Option RawProof)
  | [hp, st, en, nodes, leaf, ign] =>
    if hp == "0" then some none
    else
      match st.toNat?, en.toNat?, parseHexList nodes, fromHex leaf with
      | some st, some en, some nodes, some leaf => some (some ⟨st, en, nodes, leaf, ign == "1"⟩)
      | _, _, _, _ => none
  | _ => none

def allArgs (ws : List String) (key : String) : List String :=
  ws.filterMap (fun w => match splitKV w with
    | some (k, v) => if k == key then some v else none
    | none => none)

def parseRndWord (w : String) : Option RawRnd :=
  match w.splitOn "/" with
  | shares :: rest =>
    match parseHexList shares, parseSlashProof rest with
    | some sh, some pf => some ⟨sh, pf⟩
    | _, _ => none
  | _ => none

def i32OfU32 (v : Nat) : Int := if v < 2147483648 then (v : Int) else (v : Int) - 4294967296

def parseBefpWord (w : String) : Option RawBefpShare :=
  match w.splitOn "/" with
  | [data, hp, st, en, nodes, leaf, ign, pax] =>
    match fromHex data, parseSlashProof [hp, st, en, nodes, leaf, ign], pax.toNat? with
    | some d, some pf, some pa => some ⟨d, pf, i32OfU32 pa⟩
    | _, _, _ => none
  | _ => none

def twoStage {α} (dec : Out α) (ver : α → Out Unit) : String :=
  match dec with
  | .panic _ => "panic"
  | .err => "err-decode"
  | .ok v =>
    match ver v with
    | .panic _ => "panic"
    | .err => "err-verify"
    | .ok () => "ok"

/-- the codec as an oracle: the shards leopard returned to the harness on the same buffers (`none`: it failed) -/
def oracleCodec (o : Option (List Bytes)) : Codec :=
  { enc := fun _ _ => o.getD [], recon := fun _ _ => o.getD [] }

def parseOracle (ws : List String) (key : String) : Option (Option (List Bytes)) :=
  match arg? ws key with
  | none => none
  | some s => if s == "-" then some none else (parseHexList s).map some

/-- shapes only (lengths are all the guards look at): reconstruction fills the missing shards -/
def dummyCodec : Codec :=
  { enc := fun s _ => s
    recon := fun s _ => s.map (fun x => if x.isEmpty then List.replicate (shardSize s) 0 else x) }

def stepRow (dah : Dah) (ws : List String) : String :=
  match natArg? ws "idx", natArg? ws "side", hexListArg? ws "halves", parseOracle ws "obs" with
  | some idx, some side, some halves, some ext =>
    let raw : RawRow := ⟨halves, i32OfU32 side⟩
    let k := halves.length
    -- leopard's guards as the model transcribes them vs. what leopard did for the harness
    let g : Out (List Bytes) :=
      if raw.side = 1 then leoReconstruct dummyCodec (List.replicate k [] ++ halves) k
      else leoEncode dummyCodec (halves ++ List.replicate k (List.replicate SHARE_SIZE 0)) k
    let guardOk := match g with | .ok l => !l.isEmpty | _ => false
    if guardOk != ext.isSome then "model-guard-mismatch"
    else twoStage (rowFromRawNow (oracleCodec ext) (idx % 65536) raw) (fun r => rowVerify sha r (idx % 65536) dah)
  | _, _, _, _ => "bad-op"

/-- outcome of a `befp` op: class word, and the panic site if the model predicts one -/
def runBefp (dah : Dah) (ws : List String) : Option (String × Option Site) :=
  match natArg? ws "hh", natArg? ws "height", hexArg? ws "hash", natArg? ws "index", natArg? ws "axis", parseOracle ws "obs" with
  | some hh, some height, some hash, some index, some axis, some rec =>
    match (allArgs ws "sh").mapM parseBefpWord with
    | none => none
    | some shares =>
      let raw : RawBefp := ⟨hash, height, shares, index, i32OfU32 axis⟩
      match befpFromRaw raw with
      | .panic s => some ("panic", some s)
      | .err => some ("err-decode", none)
      | .ok p =>
        match befpPrefixNow p hh dah with
        | .panic s => some ("panic", some s)
        | .err => some ("err-verify", none)
        | .ok rk =>
          let g := match leoReconstruct dummyCodec rk.1 rk.2 with
            | .ok r => leoEncode dummyCodec r rk.2
            | o => o
          let guardOk := match g with | .ok _ => true | _ => false
          let gpanic := match g with | .panic _ => true | _ => false
          if !gpanic && guardOk != rec.isSome then some ("model-guard-mismatch", none)
          else
            match befpSuffixNow (oracleCodec rec) p dah rk.1 rk.2 with
            | .panic s => some ("panic", some s)
            | .err => some ("err-verify", none)
            | .ok () => some ("ok", none)
  | _, _, _, _, _, _ => none

def stepBefp (dah : Dah) (ws : List String) : String :=
  match runBefp dah ws with
  | some (s, _) => s
  | none => "bad-op"

def step (st : St) (line : String) : St × String :=
  let ws := words line
  match ws with
  | "reset" :: _ => (none, "ok")
  | "dah" :: _ =>
    match hexListArg? ws "rows", hexListArg? ws "cols" with
    | some rows, some cols =>
      match rows.mapM NsHash.ofBytes?, cols.mapM NsHash.ofBytes? with
      | some r, some c => (some ⟨r, c⟩, "ok")
      | _, _ => (st, "bad-op")
    | _, _ => (st, "bad-op")
  | "proof" :: _ =>
    match parseRawProof ws with
    | some p => (st, match proofFromRaw p with | .ok _ => "ok" | .err => "err" | .panic _ => "panic")
    | none => (st, "bad-op")
  | "hxreq" :: _ =>
    match hexArg? ws "bytes" with
    | some b => (st, match hxParseRequest b with | .ok _ => "ok" | .err => "err" | .panic _ => "panic")
    | none => (st, "bad-op")
  | "hxresp" :: _ =>
    match hexArg? ws "bytes" with
    | some b => (st, match hxReadResponses b with | .ok ms => s!"ok {ms.length}" | .err => "err" | .panic _ => "panic")
    | none => (st, "bad-op")
  | "edsn" :: _ =>
    match natArg? ws "height", hexArg? ws "hash", hexArg? ws "empty" with
    | some h, some hash, some empty =>
      (st, match edsNotification empty h hash with | .ok _ => "ok" | .err => "err" | .panic _ => "panic")
    | _, _, _ => (st, "bad-op")
  | "edsresp" :: _ =>
    match hexListArg? ws "data", hexArg? ws "tail" with
    | some data, some tail =>
      let len := (data.map List.length).sum + tail.length
      let k := match edsResponseGuards len with | .ok k => k | _ => 0
      -- the guards, then leopard's entry guards on the first row of `k` shares
      let raw := data.flatten ++ tail
      let row := (List.range k).map (fun i => (raw.drop (i * SHARE_SIZE)).take SHARE_SIZE)
      (st, match edsResponseFirstEncode dummyCodec len row with | .panic _ => "panic" | _ => "nopanic")
    | _, _ => (st, "bad-op")
  | "eh" :: _ => (st, "nopanic")
  | "xbytes" :: _ => (st, match st with | none => "no-dah" | some _ => "nopanic")
  | "ehv" :: _ =>
    -- `ExtendedHeader::validate` on the value the op line spells out: group E's model with the constants of the source
    match Driver.ConsensusE.parseEH ws "" with
    | some p =>
      (st, Driver.ConsensusE.showValOut
            (Lumina.Model.HeaderVerify.validate p.prims Lumina.Model.HeaderVerify.sourceConsts p.eh) ++ " " ++ p.words)
    | none => (st, "bad-op")
  | op :: _ =>
    match st with
    | none => (st, "no-dah")
    | some dah =>
      if op == "sample" then
        match natArg? ws "r", natArg? ws "c", natArg? ws "axis", arg? ws "share", natArg? ws "hasproof" with
        | some r, some c, some axis, some shareS, some hp =>
          let share? : Option (Option Bytes) := if shareS == "none" then some none else (fromHex shareS).map some
          let proof? : Option (Option RawProof) := if hp == 1 then (parseRawProof ws).map some else some none
          match share?, proof? with
          | some share, some proof =>
            let raw : RawSample := ⟨share, proof, i32OfU32 axis⟩
            (st, twoStage (sampleFromRawNow (r % 65536) (c % 65536) raw) (fun s => sampleVerifyNow s (r % 65536) (c % 65536) dah))
          | _, _ => (st, "bad-op")
        | _, _, _, _, _ => (st, "bad-op")
      else if op == "row" then (st, stepRow dah ws)
      else if op == "rnd" then
        match natArg? ws "row", hexArg? ws "ns", hexListArg? ws "shares", natArg? ws "hasproof" with
        | some row, some ns, some shares, some hp =>
          let proof? : Option (Option RawProof) := if hp == 1 then (parseRawProof ws).map some else some none
          match proof? with
          | some proof =>
            (st, twoStage (rndFromRaw ns ⟨shares, proof⟩) (fun d => rndVerifyNow d ns (row % 65536) dah))
          | none => (st, "bad-op")
        | _, _, _, _ => (st, "bad-op")
      else if op == "nd" then
        match hexArg? ws "ns", (allArgs ws "rw").mapM parseRndWord with
        | some ns, some rows => (st, twoStage (ndFromRaw ns rows) (fun d => ndVerifyNow d ns dah))
        | _, _ => (st, "bad-op")
      else if op == "befp" then (st, stepBefp dah ws)
      else (st, "bad-op")
  | [] => (st, "bad-op")

/-- `specOK` on the implementation's observed result: the property is "never panics".  The fingerprint
    names the decoder; for fraud proofs the `unwrap` site is told apart from every other panic. -/
def spec (st : St) (op : String) (obs : String) : String :=
  let ws := words op
  match ws.head?, Lumina.Spec.C16.parseObs (words obs) with
  | some opn, some o =>
    if opn == "reset" || opn == "dah" then "specskip"
    else if Lumina.Spec.C16.specOK o then "specok"
    else
      let site : Option Site :=
        if opn == "befp" then
          match st with
          | some dah => (runBefp dah ws).bind (·.2)
          | none => none
        else none
      if site == some Site.befpUnwrap then
        "specfail C16/befp-validate-namespace-unwrap Namespace::from_raw(..).unwrap() on a reconstructed share"
      else s!"specfail C16/{opn}-panic the decoder panicked on peer-controlled input"
  | _, _ =>
    if obs == "no-dah" || obs == "bad-op" then "specskip" else "specfail C16/unparsed"

def handler : Driver.Handler St := { init := none, step := step, spec := spec }

end Driver.C16

def main (args : List String) : IO UInt32 := Driver.run Driver.C16.handler args

import Driver.Common
import Lumina.Model.Util
import Lumina.Model.RedbSchema
import Lumina.Spec.C23

/-
  C23 line protocol.

    open  ver=<none|N> hr=<absent|_|k:a-b,k:a-b,…> rt=<absent|_|L:a-b.c-d/L:_/…> tabs=<hds bits> id=<absent|empty|N>
    open2 …same…            (open, then open the result again)

  `hr` = v1 table STORE.HEIGHT_RANGES, entries in INSERTION order (the model inserts them into its
  key-ordered table one by one, as the harness does with raw redb).  `rt` = STORE.RANGES, entries
  in insertion order; key letters are the ON-DISK key names old databases were written with:
     H KEY.HEADER_RANGES   S KEY.SAMPLED_RANGES   P KEY.PRUNED_RANGES
     A KEY.ACCEPTED_SAMPING_RANGES   O KEY.OTHER
  Result:  ok <dump> stored=<R|err> sampled=<R|err> pruned=<R|err>   |   err <kind> <dump> raw=<same|changed>
           (raw = full byte-for-byte snapshot of every table before vs after the refused open)
  dump  :  ver=… hr=… rt=… tabs=… id=<absent|empty|N|newK>      (hr in key order, rt in letter order)
-/
open Lumina.Util Lumina.Model.RedbSchema

namespace Driver.C23

def keyOfLetter (l : String) : Option String :=
  if l == "H" then some "KEY.HEADER_RANGES"
  else if l == "S" then some "KEY.SAMPLED_RANGES"
  else if l == "P" then some "KEY.PRUNED_RANGES"
  else if l == "A" then some "KEY.ACCEPTED_SAMPING_RANGES"
  else if l == "O" then some "KEY.OTHER"
  else none

def letters : List String := ["H", "S", "P", "A", "O"]

def parseRange (s : String) : Option (Nat × Nat) :=
  match s.splitOn "-" with
  | [a, b] => match a.toNat?, b.toNat? with
    | some x, some y => some (x, y)
    | _, _ => none
  | _ => none

def parseRaw (s : String) : Option Raw :=
  if s == "_" then some [] else (s.splitOn ".").mapM parseRange

def showRaw (r : Raw) : String :=
  if r.isEmpty then "_" else ".".intercalate (r.map (fun p => s!"{p.1}-{p.2}"))

def parseHr (s : String) : Option (Option HeightRanges) :=
  if s == "absent" then some none
  else if s == "_" then some (some [])
  else
    let es := (s.splitOn ",").mapM (fun e =>
      match e.splitOn ":" with
      | [k, r] => match k.toNat?, parseRange r with
        | some k, some r => some (k, r)
        | _, _ => none
      | _ => none)
    es.map (fun es => some (es.foldl (fun t e => hrInsert t e.1 e.2) []))

def showHr : Option HeightRanges → String
  | none => "absent"
  | some [] => "_"
  | some t => ",".intercalate (t.map (fun e => s!"{e.1}:{e.2.1}-{e.2.2}"))

def parseRt (s : String) : Option (Option RangesTable) :=
  if s == "absent" then some none
  else if s == "_" then some (some [])
  else
    let es := (s.splitOn "/").mapM (fun e =>
      match e.splitOn ":" with
      | [l, r] => match keyOfLetter l, parseRaw r with
        | some k, some r => some (k, r)
        | _, _ => none
      | _ => none)
    es.map (fun es => some (es.foldl (fun t e => t.insert e.1 e.2) []))

def showRt : Option RangesTable → String
  | none => "absent"
  | some t =>
    let parts := letters.filterMap (fun l =>
      match keyOfLetter l with
      | some k => (t.get k).map (fun r => s!"{l}:{showRaw r}")
      | none => none)
    if parts.isEmpty then "_" else "/".intercalate parts

def newIdBase : Nat := 1000000

def parseId (s : String) : Option (Option (Option Nat)) :=
  if s == "absent" then some none
  else if s == "empty" then some (some none)
  else if s.startsWith "new" then (s.drop 3).toString.toNat?.map (fun n => some (some (newIdBase + n)))
  else s.toNat?.map (fun n => some (some n))

def showId : Option (Option Nat) → String
  | none => "absent"
  | some none => "empty"
  | some (some n) => if n ≥ newIdBase then s!"new{n - newIdBase}" else toString n

def bit (b : Bool) : String := if b then "1" else "0"

def parseDb (ws : List String) : Option Db := do
  let ver ← arg? ws "ver"
  let version ← if ver == "none" then some none else ver.toNat?.map some
  let hr ← (arg? ws "hr").bind parseHr
  let rt ← (arg? ws "rt").bind parseRt
  let tabs ← arg? ws "tabs"
  let tb := tabs.toList
  if tb.length != 3 then none
  let ident ← (arg? ws "id").bind parseId
  some { version := version, heightRanges := hr, ranges := rt,
         heights := tb[0]! == '1', headers := tb[1]! == '1', sampling := tb[2]! == '1',
         identity := ident }

def showDb (db : Db) : String :=
  let ver := match db.version with
    | none => "none"
    | some v => toString v
  s!"ver={ver} hr={showHr db.heightRanges} rt={showRt db.ranges} tabs={bit db.heights}{bit db.headers}{bit db.sampling} id={showId db.identity}"

def showReport : Except Err Raw → String
  | .ok r => showRaw r
  | .error _ => "err"

/-- one `RedbStore::new` on `db`, printed the way the harness prints it -/
def openAndShow (newId : Nat) (db : Db) : Db × String :=
  match openDb newId db with
  | (db', .ok ()) =>
    (db', s!"ok {showDb db'} stored={showReport (reportStored db')} sampled={showReport (reportSampled db')} pruned={showReport (reportPruned db')}")
  | (db', .error e) => (db', s!"err {e.kind} {showDb db'} raw=same")

def step (_ : Unit) (line : String) : Unit × String :=
  let ws := words line
  let out : String :=
    match ws with
    | "open" :: _ =>
      match parseDb ws with
      | some db => (openAndShow (newIdBase + 1) db).2
      | none => "bad-op"
    | "open2" :: _ =>
      match parseDb ws with
      | some db =>
        let (db1, s1) := openAndShow (newIdBase + 1) db
        let (_, s2) := openAndShow (newIdBase + 2) db1
        s!"{s1} | {s2}"
      | none => "bad-op"
    | "reset" :: _ => "ok"
    | _ => "bad-op"
  ((), out)

/-- the order of entries inside an association list is representation noise (redb keeps a
    B-tree); both the database described by the op line and the dumped one are compared in the
    dump's canonical order (letters H,S,P,A,O) -/
def canonDb (db : Db) : Db :=
  { db with ranges := db.ranges.map (fun t =>
      letters.filterMap (fun l =>
        match keyOfLetter l with
        | some k => (t.get k).map (fun r => (k, r))
        | none => none)) }

def parseReport (s : String) : Option (Option Raw) :=
  if s == "err" then some none else (parseRaw s).map some

/-- parse one result (`ok …` / `err …`) of the IMPLEMENTATION into an observation -/
def parseObs (ws : List String) : Option Lumina.Spec.C23.Obs :=
  match ws with
  | "ok" :: _ => do
    let db ← parseDb ws
    let st ← (arg? ws "stored").bind parseReport
    let sa ← (arg? ws "sampled").bind parseReport
    some { ok := true, after := db, stored := st, sampled := sa }
  | "err" :: _ => do
    let db ← parseDb ws
    -- the harness compared the FULL raw content (every table, every row, byte for byte) before
    -- and after the refused open; a difference the abstract dump cannot express is a corrupted `X`
    -- table flag here, so that `after == before` fails
    let db := if arg? ws "raw" == some "same" then db else { db with heights := !db.heights, headers := !db.headers }
    some { ok := false, after := db, stored := none, sampled := none }
  | _ => none

def spec (_ : Unit) (op : String) (obs : String) : String :=
  let ws := words op
  match ws with
  | "open" :: _ =>
    match (parseDb ws).map canonDb, (parseObs (words obs)).map (fun o => { o with after := canonDb o.after }) with
    | some db, some o =>
      if db.version == some 0 then "specskip"
      else if Lumina.Spec.C23.specOpen db o then "specok"
      else
        let cls := match db.version with
          | none => "fresh"
          | some v => if v > 3 then "newer-not-refused-unchanged" else s!"v{v}-ranges-not-preserved"
        s!"specfail C23/{cls} specOpen is false on the implementation's result"
    | _, _ => "specfail C23/unparsed"
  | "open2" :: _ =>
    match (parseDb ws).map canonDb, obs.splitOn " | " with
    | some db, [o1, o2] =>
      match (parseObs (words o1)).map (fun o => { o with after := canonDb o.after }),
            (parseObs (words o2)).map (fun o => { o with after := canonDb o.after }) with
      | some a, some b =>
        if db.version == some 0 then "specskip"
        else if !Lumina.Spec.C23.specOpen db a then
          "specfail C23/open2-first specOpen is false on the first open"
        else if a.ok && !Lumina.Spec.C23.specReopen a.after b.ok b.after then
          "specfail C23/reopen-not-idempotent second open failed or changed the database"
        else if !a.ok && !(b.ok == false && b.after == a.after) then
          "specfail C23/refusal-not-stable second open of a refused database behaved differently"
        else "specok"
      | _, _ => "specfail C23/unparsed"
    | _, _ => "specfail C23/unparsed"
  | "reset" :: _ => "specskip"
  | _ => "specfail C23/unparsed"

def handler : Driver.Handler Unit := { init := (), step := step, spec := spec }

end Driver.C23

def main (args : List String) : IO UInt32 := Driver.run Driver.C23.handler args

import Driver.Common
import Lumina.Model.Merkle
import Lumina.Model.RowProof
import Lumina.Model.ShareProof
import Lumina.Spec.C13

open Lumina.Util Lumina.Model.Merkle
open Lumina.Model

namespace Driver.C13

def H : HashFns Bytes := sha256Fns

/-- `a/b/c` list of hex strings, `-` = empty -/
def hexSlashList (s : String) : Option (List Bytes) :=
  if s == "-" then some [] else (s.splitOn "/").mapM (fun t => fromHexChars t.toList)

def showSlashList (l : List Bytes) : String :=
  if l.isEmpty then "-" else "/".intercalate (l.map toHex)

/-- one proof `idx:total:lh:aunts` -/
def parseProof (s : String) : Option (Proof Bytes) :=
  match s.splitOn ":" with
  | [i, t, lh, au] =>
    match i.toNat?, t.toNat?, fromHex lh, hexSlashList au with
    | some i, some t, some lh, some au => some { index := i, total := t, leafHash := lh, aunts := au }
    | _, _, _, _ => none
  | _ => none

def showProof (p : Proof Bytes) : String :=
  s!"{p.index}:{p.total}:{toHexOrDash p.leafHash}:{showSlashList p.aunts}"

/-- `;`-separated proofs, `-` = none -/
def parseProofs (s : String) : Option (List (Proof Bytes)) :=
  if s == "-" then some [] else (s.splitOn ";").mapM parseProof

def showProofs (l : List (Proof Bytes)) : String :=
  if l.isEmpty then "-" else ";".intercalate (l.map showProof)

def showOutcome : Outcome → String
  | .ok => "ok"
  | .err e => s!"err {e.kind}"
  | .panic => "panic"

def showRowOutcome : RowProof.Outcome → String
  | .ok => "ok"
  | .err e => s!"err {e.kind}"
  | .panic => "panic"

def parseRoot (s : String) : Option (Option Bytes) :=
  if s == "none" then some none else (fromHex s).map some

def parseRowProof (ws : List String) : Option (RowProof.RowProof Bytes) :=
  match hexListArg? ws "roots", (arg? ws "proofs").bind parseProofs, natArg? ws "start", natArg? ws "end" with
  | some rr, some ps, some s, some e => some { rowRoots := rr, proofs := ps, startRow := s, endRow := e }
  | _, _, _, _ => none

/-- the NMT's underlying hash -/
def h : Nmt.HashFn := Sha256.hash

/-- driver state: the current extended square (raw shares) with its DAH -/
structure Sq where
  w : Nat
  raw : List Bytes
  eds : Eds.Eds
  dah : Eds.Dah

abbrev St := Option Sq

/-- one NMT proof `start:end:sib/sib:leaf` -/
def parseNProof (s : String) : Option Nmt.NsProof :=
  match s.splitOn ":" with
  | [a, b, sibs, leaf] =>
    match a.toNat?, b.toNat?, hexSlashList sibs, fromHex leaf with
    | some a, some b, some sibs, some leaf => Nmt.NsProof.ofRaw a b sibs leaf true
    | _, _, _, _ => none
  | _ => none

def parseNProofs (s : String) : Option (List Nmt.NsProof) :=
  if s == "-" then some [] else (s.splitOn ";").mapM parseNProof

def showNProof (p : Nmt.NsProof) : String :=
  let leaf := match p.leaf with | some l => toHexOrDash l.toBytes | none => "-"
  s!"{p.start}:{p.end_}:{showSlashList (p.siblings.map Nmt.NsHash.toBytes)}:{leaf}"

def showNProofs (l : List Nmt.NsProof) : String :=
  if l.isEmpty then "-" else ";".intercalate (l.map showNProof)

def showShareOutcome : ShareProof.Outcome → String
  | .ok => "ok"
  | .err e => s!"err {e.kind}"
  | .panic => "panic"

def parseShareProof (ws : List String) : Option (ShareProof.ShareProof Bytes) :=
  match hexArg? ws "ns", hexListArg? ws "data", (arg? ws "sproofs").bind parseNProofs, parseRowProof ws with
  | some ns, some data, some sps, some rp => some { data := data, namespaceId := ns, shareProofs := sps, rowProof := rp }
  | _, _, _, _ => none

def parseRanges (s : String) : Option (List (Nat × Nat)) :=
  (s.splitOn ",").mapM (fun t => match t.splitOn ":" with
    | [a, b] => match a.toNat?, b.toNat? with
      | some a, some b => some (a, b)
      | _, _ => none
    | _ => none)

def stepShare (st : St) (ws : List String) : St × String :=
  match ws with
  | "sq" :: _ =>
    match natArg? ws "w", hexListArg? ws "shares" with
    | some w, some shares =>
      let eds := Eds.Eds.ofRaw w shares
      match Eds.Dah.ofEds h eds with
      | .error _ => (none, "err dah")
      | .ok dah =>
        let rows := dah.rowRoots.map Nmt.NsHash.toBytes
        let cols := dah.colRoots.map Nmt.NsHash.toBytes
        (some { w := w, raw := shares, eds := eds, dah := dah },
          s!"ok rows={showHexList rows} cols={showHexList cols} hash={toHex (RowProof.dahHash H rows cols)}")
    | _, _ => (st, "bad-op")
  | "sbuild" :: _ =>
    match st, hexArg? ws "ns", natArg? ws "r0", (arg? ws "ranges").bind parseRanges with
    | some sq, some ns, some r0, some ranges =>
      match ShareProof.build H h sq.eds sq.dah ns r0 ranges with
      | .err => (st, "err build")
      | .panic => (st, "panic")
      | .ok sp =>
        let rows := sq.dah.rowRoots.map Nmt.NsHash.toBytes
        let cols := sq.dah.colRoots.map Nmt.NsHash.toBytes
        let v := ShareProof.verify H h sp (some (RowProof.dahHash H rows cols))
        (st, s!"ok data={showHexList sp.data} sproofs={showNProofs sp.shareProofs} roots={showHexList sp.rowProof.rowRoots} proofs={showProofs sp.rowProof.proofs} verify={showShareOutcome v}")
    | none, _, _, _ => (st, "no-square")
    | _, _, _, _ => (st, "bad-op")
  | "sverify" :: _ =>
    match parseShareProof ws, (arg? ws "root").bind parseRoot with
    | some sp, some rt => (st, showShareOutcome (ShareProof.verify H h sp rt))
    | _, _ => (st, "bad-op")
  | _ => (st, "bad-op")

def step (st : St) (line : String) : St × String :=
  let ws := words line
  match ws with
  | "reset" :: _ => (none, "ok")
  | "sq" :: _ => stepShare st ws
  | "sbuild" :: _ => stepShare st ws
  | "sverify" :: _ => stepShare st ws
  | _ =>
  let out : String :=
    match ws with
    | "mnew" :: _ =>
      match natArg? ws "i", hexListArg? ws "leaves" with
      | some i, some leaves =>
        match Proof.new H i leaves with
        | .error e => s!"err {e.kind}"
        | .ok (p, rt) =>
          let v := p.verify H (leaves.getD i []) rt
          s!"ok root={toHex rt} proof={showProof p} verify={showOutcome v}"
      | _, _ => "bad-op"
    | "mverify" :: _ =>
      match (arg? ws "proof").bind parseProof, hexArg? ws "leaf", hexArg? ws "root" with
      | some p, some leaf, some rt => showOutcome (p.verify H leaf rt)
      | _, _, _ => "bad-op"
    | "rverify" :: _ =>
      match parseRowProof ws, (arg? ws "root").bind parseRoot with
      | some rp, some rt => showRowOutcome (RowProof.verify H rp rt)
      | _, _ => "bad-op"
    | "rbuild" :: _ =>
      match hexListArg? ws "rows", hexListArg? ws "cols", natArg? ws "start", natArg? ws "end" with
      | some rows, some cols, some s, some e =>
        match RowProof.rowProof H rows cols s e with
        | .error _ => "err IndexOutOfRange"
        | .ok rp =>
          let h := RowProof.dahHash H rows cols
          let v := RowProof.verify H rp (some h)
          s!"ok hash={toHex h} roots={showHexList rp.rowRoots} proofs={showProofs rp.proofs} verify={showRowOutcome v}"
      | _, _, _, _ => "bad-op"
    | _ => "bad-op"
  (st, out)

open Lumina.Spec.C13 in
def obsOfProof (p : Proof Bytes) : ProofObs Bytes :=
  { index := p.index, total := p.total, leafHash := p.leafHash, aunts := p.aunts }

open Lumina.Spec.C13 in
def parseRes (ws : List String) : Option Res :=
  match ws with
  | "ok" :: _ => some .ok
  | "err" :: _ => some .err
  | "panic" :: _ => some .panic
  | _ => none

open Lumina.Spec.C13 in
def parseResWord (s : String) : Option Res :=
  if s == "ok" then some .ok else if s == "err" then some .err else if s == "panic" then some .panic else none

def verdict (name : String) (b : Bool) : String :=
  if b then "specok" else s!"specfail {name}"

open Lumina.Spec.C13 in
/-- what the spec sees of an NMT range proof (incl. its inner nodes as 90-byte strings) -/
def nobs (p : Nmt.NsProof) : NProofObs :=
  { start := p.start, end_ := p.end_, isAbsence := p.isAbsence, siblings := p.siblings.map Nmt.NsHash.toBytes }

open Lumina.Spec.C13 in
/-- `specOK` on the implementation's observed result -/
def spec (st : St) (op : String) (obs : String) : String :=
  let ws := words op
  let os := words obs
  match ws with
  | "reset" :: _ => "specskip"
  | "sq" :: _ => "specskip"
  | "sbuild" :: _ =>
    match st, os with
    | none, _ => "specskip"
    | some sq, "ok" :: _ =>
      -- the built proof as observed, with the namespace / rows of the op
      match hexArg? ws "ns", natArg? ws "r0", (arg? ws "ranges").bind parseRanges,
            hexListArg? os "data", (arg? os "sproofs").bind parseNProofs, hexListArg? os "roots",
            (arg? os "proofs").bind parseProofs, (arg? os "verify").bind parseResWord with
      | some ns, some r0, some ranges, some data, some sps, some roots, some proofs, some v =>
        let all := (sq.dah.rowRoots ++ sq.dah.colRoots).map Nmt.NsHash.toBytes
        let spo : ShareProofObs Bytes :=
          { data := data, ns := ns, sproofs := sps.map nobs,
            row := { rowRoots := roots, proofs := proofs.map obsOfProof, startRow := r0,
                     endRow := r0 + ranges.length - 1 } }
        verdict "C13/shareproof-build"
          (specShareBuild H h sq.w sq.raw all spo (RowProof.dahHash H (sq.dah.rowRoots.map Nmt.NsHash.toBytes)
            (sq.dah.colRoots.map Nmt.NsHash.toBytes)) v)
      | _, _, _, _, _, _, _, _ => "specfail C13/unparsed"
    | some _, _ => "specfail C13/shareproof-build honest share proof not built"
  | "sverify" :: _ =>
    match st, parseShareProof ws, (arg? ws "root").bind parseRoot, parseRes os with
    | some sq, some sp, some rt, some r =>
      let all := (sq.dah.rowRoots ++ sq.dah.colRoots).map Nmt.NsHash.toBytes
      let rpo : RowProofObs Bytes :=
        { rowRoots := sp.rowProof.rowRoots, proofs := sp.rowProof.proofs.map obsOfProof,
          startRow := sp.rowProof.startRow, endRow := sp.rowProof.endRow }
      let spo : ShareProofObs Bytes :=
        { data := sp.data, ns := sp.namespaceId, sproofs := sp.shareProofs.map nobs, row := rpo }
      if r == .panic && (sp.shareProofs.map (fun p => p.end_ - p.start)).sum > 4294967295 then
        "specfail C13/shareproof-range-sum-overflow sum of the proven ranges exceeds u32: verification aborts"
      else verdict "C13/shareproof-verify" (specShareVerify H h sq.w sq.raw all spo rt r)
    | none, _, _, _ => "specskip"
    | _, _, _, _ => "specfail C13/unparsed"
  | "mnew" :: _ =>
    match natArg? ws "i", hexListArg? ws "leaves" with
    | some i, some leaves =>
      match os with
      | "err" :: _ => verdict "C13/merkle-new" (specNew H leaves i .err)
      | "ok" :: _ =>
        -- `verify=` may be followed by an error kind word
        match hexArg? os "root", (arg? os "proof").bind parseProof, (arg? os "verify").bind parseResWord with
        | some rt, some p, some v => verdict "C13/merkle-new" (specNew H leaves i (.ok (obsOfProof p) rt v))
        | _, _, _ => "specfail C13/unparsed"
      | _ => "specfail C13/unparsed"
    | _, _ => "specfail C13/unparsed"
  | "mverify" :: _ =>
    match hexListArg? ws "leaves", (arg? ws "proof").bind parseProof, hexArg? ws "leaf", hexArg? ws "root",
          parseRes os with
    | some leaves, some p, some leaf, some rt, some r =>
      if !specVerifyIndex (obsOfProof p) r then "specfail C13/merkle-index-not-below-total accepted with index >= total"
      else verdict "C13/merkle-verify" (specVerify H leaves (obsOfProof p) leaf rt r)
    | _, _, _, _, _ => "specfail C13/unparsed"
  | "rverify" :: _ =>
    match hexListArg? ws "all", parseRowProof ws, (arg? ws "root").bind parseRoot, parseRes os with
    | some all, some rp, some rt, some r =>
      let rpo : RowProofObs Bytes :=
        { rowRoots := rp.rowRoots, proofs := rp.proofs.map obsOfProof, startRow := rp.startRow, endRow := rp.endRow }
      if r == .panic && rp.endRow - rp.startRow + 1 > 65535 then
        "specfail C13/rowproof-span-overflow row span 65536 aborts instead of failing"
      else verdict "C13/rowproof-verify" (specRowVerify H all rpo rt r)
    | _, _, _, _ => "specfail C13/unparsed"
  | "rbuild" :: _ =>
    match hexListArg? ws "rows", hexListArg? ws "cols", natArg? ws "start", natArg? ws "end" with
    | some rows, some cols, some s, some e =>
      match os with
      | "err" :: _ => verdict "C13/rowproof-build" (specRowBuild H rows cols s e .err)
      | "ok" :: _ =>
        match hexArg? os "hash", hexListArg? os "roots", (arg? os "proofs").bind parseProofs,
              (arg? os "verify").bind parseResWord with
        | some h, some rr, some ps, some v =>
          let rpo : RowProofObs Bytes :=
            { rowRoots := rr, proofs := ps.map obsOfProof, startRow := s, endRow := e }
          verdict "C13/rowproof-build" (specRowBuild H rows cols s e (.ok rpo h v))
        | _, _, _, _ => "specfail C13/unparsed"
      | _ => "specfail C13/unparsed"
    | _, _, _, _ => "specfail C13/unparsed"
  | _ => "specfail C13/unparsed"

def handler : Driver.Handler St := { init := none, step := step, spec := spec }

end Driver.C13

def main (args : List String) : IO UInt32 := Driver.run Driver.C13.handler args

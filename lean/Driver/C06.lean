import Driver.DCommon
import Lumina.Model.NsData
import Lumina.Spec.C06

open Lumina.Util Lumina.Model.Nmt Lumina.Model.Eds Lumina.Model.NsData Driver.DCommon
open Lumina.Model.Sample (shareFromRaw shareParity)

namespace Driver.C06

abbrev St := Option Square

def showN : Except NErr Unit → String
  | .ok () => "ok"
  | .error e => if e.isPanic then "panic" else s!"err {e.kind}"

/-- fields of a row spec `k:v/k:v/…` -/
def fieldsOf (spec : String) : List (String × String) :=
  (spec.splitOn "/").filterMap (fun f =>
    match f.splitOn ":" with
    | [k, v] => some (k, v)
    | _ => none)

def fld (fs : List (String × String)) (k : String) : Option String := (fs.find? (fun p => p.1 == k)).map Prod.snd

def hexList? (s : String) : Option (List Bytes) :=
  if s == "-" then some [] else (s.splitOn ",").mapM (fun t => if t == "_" then some [] else fromHexChars t.toList)

def showProofSpec (p : NsProof) : String :=
  let leaf := match p.isAbsence, p.leaf with
    | true, some l => toHex l.toBytes
    | _, _ => "-"
  let a := if !p.isAbsence then 0 else if p.leaf.isSome then 1 else 2
  s!"s:{p.start}/e:{p.end_}/i:{if p.ignoreMaxNs then 1 else 0}/a:{a}/l:{leaf}/n:{showHexList (p.siblings.map NsHash.toBytes)}"

/-- a row given directly: proof value + shares (built through `Share::from_raw` / `Share::parity`) -/
def parseRow (spec : String) : Option (Nat × RowNsData) :=
  let fs := fieldsOf spec
  match (fld fs "r").bind String.toNat?, (fld fs "s").bind String.toNat?, (fld fs "e").bind String.toNat?,
        (fld fs "i").bind String.toNat?, (fld fs "a").bind String.toNat?, (fld fs "l").bind fromHex,
        (fld fs "n").bind hexList?, (fld fs "d").bind hexList?, (fld fs "p").bind String.toNat? with
  | some r, some st, some en, some ign, some a, some leaf, some nodes, some datas, some par =>
    match nodes.mapM NsHash.ofBytes? with
    | none => none
    | some sibs =>
      let proof? : Option NsProof :=
        if a = 0 then some ⟨st, en, sibs, ign == 1, false, none⟩
        else if a = 1 then (NsHash.ofBytes? leaf).map (fun l => ⟨st, en, sibs, ign == 1, true, some l⟩)
        else some ⟨st, en, sibs, ign == 1, true, none⟩
      let shares? : Option (List Share) := datas.mapM (fun d =>
        match (if par == 1 then shareParity d else shareFromRaw d) with
        | .ok s => some s
        | .error _ => none)
      match proof?, shares? with
      | some p, some shs => some (r, ⟨p, shs⟩)
      | _, _ => none
  | _, _, _, _, _, _, _, _, _ => none

def parseRows (s : String) : Option (List (Nat × RowNsData)) :=
  if s == "-" then some [] else (s.splitOn "|").mapM parseRow

/-- a row on the wire -/
def parseRawRow (ns : Bytes) (spec : String) : Option (Except NErr RowNsData) :=
  let fs := fieldsOf spec
  match (fld fs "hp").bind String.toNat?, (fld fs "d").bind hexList? with
  | some hp, some datas =>
    if hp = 0 then some (rowFromRaw ns datas none)
    else
      match (fld fs "s").bind String.toNat?, (fld fs "e").bind String.toNat?, (fld fs "i").bind String.toNat?,
            (fld fs "l").bind fromHex, (fld fs "n").bind hexList? with
      | some st, some en, some ign, some leaf, some nodes => some (rowFromRaw ns datas (some (st, en, nodes, leaf, ign == 1)))
      | _, _, _, _, _ => none
  | _, _ => none

def firstErr : List (Except NErr RowNsData) → Except NErr (List RowNsData)
  | [] => .ok []
  | .error e :: _ => .error e
  | .ok r :: rest =>
    match firstErr rest with
    | .error e => .error e
    | .ok rs => .ok (r :: rs)

def showRows (rows : List (Nat × RowNsData)) : String :=
  if rows.isEmpty then "-" else
  "|".intercalate (rows.map (fun (r, d) => s!"r:{r}/{showProofSpec d.proof}/d:{showHexList (d.shares.map Share.data)}"))

def step (st : St) (line : String) : St × String :=
  let ws := words line
  match ws with
  | "reset" :: _ => (none, "ok")
  | "eds" :: _ =>
    match parseSquare ws with
    | some sq => (some sq, match sq.dah with | some d => showDah d | none => "err")
    | none => (none, "bad-op")
  | op :: _ =>
    match st with
    | none => (st, "no-square")
    | some sq =>
      match sq.dah, hexArg? ws "ns" with
      | some dah, some ns =>
        if op == "get" then
          match getNamespaceData sha sq.eds ns dah with
          | .error e => (st, if e.isPanic then "panic" else s!"err {e.kind}")
          | .ok rows =>
            let v := match verify sha (rows.map Prod.snd) ns dah with
              | .ok () => "ok"
              | .error e => if e.isPanic then "panic" else s!"err:{e.kind}"
            (st, s!"ok verify={v} rows={showRows rows}")
        else if op == "rowverify" then
          match (arg? ws "row").bind parseRow with
          | some (r, d) => (st, showN (rowVerify sha d ns r dah))
          | none => (st, "bad-row")
        else if op == "verify" then
          match (arg? ws "rows").bind parseRows with
          | some rows => (st, showN (verify sha (rows.map Prod.snd) ns dah))
          | none => (st, "bad-row")
        else if op == "recv" then
          match arg? ws "rows" with
          | some rs =>
            let specs := if rs == "-" then [] else rs.splitOn "|"
            match specs.mapM (parseRawRow ns) with
            | none => (st, "bad-op")
            | some parsed =>
              if parsed.length > U16_MAX then (st, "err decode:NamespaceDataTooLarge")
              else
                match firstErr parsed with
                | .error e => (st, if e.isPanic then "panic" else s!"err decode:{e.kind}")
                | .ok rows => (st, showN (verify sha rows ns dah))
          | none => (st, "bad-op")
        else (st, "bad-op")
      | _, _ => (st, "bad-op")
  | [] => (st, "bad-op")

def rowDatas (spec : String) : Option (Nat × List Bytes) :=
  let fs := fieldsOf spec
  match (fld fs "r").bind String.toNat?, (fld fs "d").bind hexList? with
  | some r, some d => some (r, d)
  | none, some d => some (0, d)
  | _, _ => none

def spec (st : St) (op : String) (obs : String) : String :=
  let ws := words op
  let os := words obs
  match ws, st with
  | opn :: _, some sq =>
    match hexArg? ws "ns" with
    | none => "specskip"
    | some ns =>
      if opn == "get" then
        if os.head? != some "ok" then "specfail C06/honest-data-not-produced get_namespace_data failed on a valid square"
        else
          let rows := ((arg? os "rows").map (fun s => if s == "-" then [] else s.splitOn "|")).getD []
          match rows.mapM rowDatas with
          | none => "specfail C06/unparsed"
          | some produced =>
            if Lumina.Spec.C06.specHonest sq.w sq.raw ns produced (arg? os "verify" == some "ok") then "specok"
            else "specfail C06/honest-data-wrong the data the square produces does not verify or differs from the brute-force scan"
      else if opn == "rowverify" then
        match (arg? ws "row").bind rowDatas with
        | some (r, d) =>
          if Lumina.Spec.C06.specRow sq.w sq.raw ns r d (os == ["ok"]) then "specok"
          else "specfail C06/row-accepted-wrong-shares accepted shares are not exactly the namespace's shares of the row"
        | none => "specskip"
      else if opn == "verify" ∨ opn == "recv" then
        let rows := ((arg? ws "rows").map (fun s => if s == "-" then [] else s.splitOn "|")).getD []
        match rows.mapM rowDatas with
        | none => "specskip"
        | some given =>
          if Lumina.Spec.C06.specVerify sq.w sq.raw ns (given.map Prod.snd) (os == ["ok"]) then "specok"
          else s!"specfail C06/{opn}-accepted-wrong-data accepted namespace data is not the expected rows/shares"
      else "specskip"
  | _, _ => "specskip"

def handler : Driver.Handler St := { init := none, step := step, spec := spec }

end Driver.C06

def main (args : List String) : IO UInt32 := Driver.run Driver.C06.handler args

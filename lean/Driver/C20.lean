/-
  C20 driver.  Same history protocol as C19 (`Driver/StoreCommon.lean`); for every FAILED
  mutating operation both sides additionally print the full observable state BEFORE the
  operation.  `spec`, evaluated on the implementations' own lines: a call that returned an error
  (or panicked) left every query result unchanged (`pre` dump = `post` dump), for both stores.
-/
import Driver.StoreCommon

open Driver.StoreCommon Lumina.Util

namespace Driver.C20

/-- `res ; post [; pre pre]` of one store: is the state unchanged whenever the call failed? -/
def partVerdict (store opname : String) (part : String) : Option String :=
  match part.splitOn " ; " with
  | [res, _post] => if res == "ok" then none else some s!"C20/{store}/{opname}/missing-pre-state"
  | [res, post, pre] =>
    if res == "ok" then none
    else if pre == s!"pre {post}" then none
    else
      let kind := String.ofList ((res.toList.dropWhile (· != ':')).drop 1 |>.takeWhile (· != '('))
      some s!"C20/{store}/{opname}/{if kind.isEmpty then res else kind}-left-the-store-changed"
  | _ => some s!"C20/{store}/unparsed"

def spec (s : St) (op : String) (obs : String) : String :=
  match words op with
  | opname :: _ =>
    if opname == "insert" || opname == "remove" || opname == "mark" || opname == "meta" then
      let _ := s
      match splitObs obs with
      | none => "specfail C20/unparsed"
      | some (m, r) =>
        match partVerdict "mem" opname m, partVerdict "redb" opname r with
        | some f, _ => s!"specfail {f}"
        | none, some f => s!"specfail {f}"
        | none, none => "specok"
    else "specskip"
  | [] => "specskip"

def handler : Driver.Handler St := { init := St.init .c20, step := step, spec := spec }

end Driver.C20

def main (args : List String) : IO UInt32 := Driver.run Driver.C20.handler args

import Driver.Common
import Lumina.Model.Blob
import Lumina.Spec.C11

open Lumina.Util Lumina.Model.Blob

namespace Driver.C11

/-- shares: comma separated `d<hex>` (data share) / `p<hex>` (parity share); `-` = none -/
def parseShares (s : String) : Option (List Share) :=
  if s == "-" then some []
  else (s.splitOn ",").mapM (fun t =>
    match t.toList with
    | 'd' :: h => (fromHexChars h).map (fun b => ⟨b, false⟩)
    | 'p' :: h => (fromHexChars h).map (fun b => ⟨b, true⟩)
    | _ => none)

def optHex (o : Option Bytes) : String := match o with | some b => toHexOrDash b | none => "-"

def parseSigner (s : String) : Option (Option Bytes) :=
  if s == "-" then some none else (fromHex s).map some

def showBlob (b : Blob) : String := s!"{toHex b.ns}:{toHexOrDash b.data}:{optHex b.signer}"

def showBlobs (l : List Blob) : String := if l.isEmpty then "-" else ";".intercalate (l.map showBlob)

def step (_ : Unit) (line : String) : Unit × String :=
  let ws := words line
  let out : String :=
    match ws with
    | "blob" :: _ =>
      match hexArg? ws "ns", hexArg? ws "data", (arg? ws "signer").bind parseSigner, natArg? ws "app" with
      | some ns, some data, some signer, some app =>
        match Blob.new ns data signer app with
        | .error e => s!"err {e.kind}"
        | .ok b =>
          match b.toShares with
          | .error e => s!"err {e.kind}"
          | .ok shares =>
            let back := match reconstruct shares app with
              | .ok (b', rest) => if rest.isEmpty then showBlob b' else s!"err:leftover"
              | .error e => s!"err:{e.kind}"
            let bver := match reconstruct shares app with
              | .ok (b', _) => toString b'.shareVersion
              | .error _ => "-"
            s!"ok n={shares.length} shares={showHexList (shares.map (·.data))} shares_len={b.sharesLen} back={back} bver={bver}"
      | _, _, _, _ => "bad-op"
    | "recon" :: _ =>
      match (arg? ws "shares").bind parseShares, natArg? ws "app" with
      | some shares, some app =>
        match reconstruct shares app with
        | .ok (b, rest) => s!"ok blob={showBlob b} ver={b.shareVersion} used={shares.length - rest.length}"
        | .error e => s!"err {e.kind}"
      | _, _ => "bad-op"
    | "rall" :: _ =>
      match (arg? ws "shares").bind parseShares, natArg? ws "app" with
      | some shares, some app =>
        match reconstructAll shares app with
        | .ok bs => s!"ok blobs={showBlobs bs}"
        | .error e => s!"err {e.kind}"
      | _, _ => "bad-op"
    | "reset" :: _ => "ok"
    | _ => "bad-op"
  ((), out)

def verdict (name : String) (b : Bool) : String :=
  if b then "specok" else s!"specfail {name}"

open Lumina.Spec.C11 in
def parseBlobObs (s : String) : Option BlobObs :=
  match s.splitOn ":" with
  | [ns, d, sg] =>
    match fromHex ns, fromHex d, parseSigner sg with
    | some ns, some d, some sg => some (ns, d, sg)
    | _, _, _ => none
  | _ => none

open Lumina.Spec.C11 in
def parseBlobObsList (s : String) : Option (List BlobObs) :=
  if s == "-" then some [] else (s.splitOn ";").mapM parseBlobObs

open Lumina.Spec.C11 in
def spec (_ : Unit) (op : String) (obs : String) : String :=
  let ws := words op
  let os := words obs
  match ws with
  | "reset" :: _ => "specskip"
  | "blob" :: _ =>
    match hexArg? ws "ns", hexArg? ws "data", (arg? ws "signer").bind parseSigner, natArg? ws "app" with
    | some ns, some data, some signer, some app =>
      if !inScope ns data signer app then "specskip"
      else
        match os with
        | "ok" :: _ =>
          match hexListArg? os "shares", natArg? os "shares_len", arg? os "back" with
          | some shares, some k, some back =>
            let o := SplitObs.ok shares k (parseBlobObs back) (natArg? os "bver")
            if specBlob ns data signer o then "specok"
            else if shares == expectedShares ns data signer && k != shares.length && signer.isSome then
              "specfail C11/shares-len-ignores-signer shares_len differs from the number of shares produced (signer)"
            else "specfail C11/blob"
          | _, _, _ => "specfail C11/unparsed"
        | _ => verdict "C11/blob" (specBlob ns data signer .err)
    | _, _, _, _ => "specfail C11/unparsed"
  | "recon" :: _ => "specskip"
  | "rall" :: _ =>
    match (arg? ws "expect").bind parseBlobObsList with
    | some expect =>
      match os with
      | "ok" :: _ =>
        match (arg? os "blobs").bind parseBlobObsList with
        | some bs => verdict "C11/reconstruct-all" (specReconstructAll expect (some bs))
        | none => "specfail C11/unparsed"
      | _ => verdict "C11/reconstruct-all" (specReconstructAll expect none)
    | none => "specskip"
  | _ => "specfail C11/unparsed"

def handler : Driver.Handler Unit := { init := (), step := step, spec := spec }

end Driver.C11

def main (args : List String) : IO UInt32 := Driver.run Driver.C11.handler args

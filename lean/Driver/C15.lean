import Driver.Common
import Lumina.Model.ShwapIdK

open Lumina.Util Lumina.Model.ShwapId
open Lumina.Spec.C15 (Kind Id CidObs)

namespace Driver.C15

def parseKind (s : String) : Option Kind :=
  if s == "eds" then some .eds else if s == "row" then some .row else if s == "sample" then some .sample
  else if s == "rnd" then some .rowNsData else if s == "nd" then some .nsData else none

def showId (id : Id) : String := s!"{id.height}:{id.row}:{id.col}:{toHexOrDash id.ns}"

def parseId (k : Kind) (s : String) : Option Id :=
  match s.splitOn ":" with
  | [h, r, c, ns] =>
    match h.toNat?, r.toNat?, c.toNat?, fromHex ns with
    | some h, some r, some c, some ns => some ⟨k, h, r, c, ns⟩
    | _, _, _, _ => none
  | _ => none

def showCidRes : Option (Except CidErr Id) → String
  | none => "-"
  | some (.ok id) => showId id
  | some (.error e) => s!"err:{e.kind}"

def cidErrKind : CidErr → String
  | .invalidCid _ => "InvalidCid"
  | e => e.kind

def showCidF (c : Cid) : String := s!"{c.version}:{c.codec}:{c.mhCode}:{toHexOrDash c.digest}"

def step (_ : Unit) (line : String) : Unit × String :=
  let ws := words line
  let out : String :=
    match ws with
    | "new" :: _ =>
      match (arg? ws "kind").bind parseKind, natArg? ws "h", natArg? ws "row", natArg? ws "col", hexArg? ws "ns" with
      | some k, some h, some r, some c, some ns =>
        let id : Id := ⟨k, h, r, c, ns⟩
        match newK id with
        | .error e => s!"err {e.kind}"
        | .ok (bytes, cid) =>
          let back := match decodeK k bytes with | .ok (i, _) => showId i | .error e => s!"err:{e.kind}"
          match cid with
          | none => s!"ok bytes={toHex bytes} back={back} cid=- cidf=- cidback=- cidread=-"
          | some c =>
            let cb := c.toBytes
            let rd := match Cid.read cb with
              | none => "err:Read"
              | some c' => showCidRes (ofCidK k c')
            s!"ok bytes={toHex bytes} back={back} cid={toHex cb} cidf={showCidF c} cidback={showCidRes (ofCidK k c)} cidread={rd}"
      | _, _, _, _, _ => "bad-op"
    | "decode" :: _ =>
      match (arg? ws "kind").bind parseKind, hexArg? ws "buf" with
      | some k, some buf =>
        match decodeK k buf with
        | .ok (id, re) => s!"ok id={showId id} re={toHexOrDash re}"
        | .error e => s!"err {e.kind}"
      | _, _ => "bad-op"
    | "cid" :: _ =>
      match (arg? ws "kind").bind parseKind, natArg? ws "codec", natArg? ws "code", hexArg? ws "digest" with
      | some k, some codec, some code, some digest =>
        match ofCidK k ⟨1, codec, code, digest⟩ with
        | none => "bad-op"
        | some (.ok id) => s!"ok id={showId id}"
        | some (.error e) => s!"err {cidErrKind e}"
      | _, _, _, _ => "bad-op"
    | "cidbytes" :: _ =>
      match (arg? ws "kind").bind parseKind, hexArg? ws "bytes" with
      | some k, some bytes =>
        match Cid.read bytes with
        | none => "err Read"
        | some c =>
          match ofCidK k c with
          | none => "bad-op"
          | some (.ok id) => s!"ok id={showId id}"
          | some (.error e) => s!"err {cidErrKind e}"
      | _, _ => "bad-op"
    | "reset" :: _ => "ok"
    | _ => "bad-op"
  ((), out)

def verdict (name : String) (b : Bool) : String :=
  if b then "specok" else s!"specfail {name}"

def parseIdRes (k : Kind) (s : String) : Option (Option Id) :=
  if s == "-" then some none
  else if s.startsWith "err:" then some none
  else (parseId k s).map some

def parseCidF (s : String) : Option CidObs :=
  match s.splitOn ":" with
  | [v, c, m, d] =>
    match v.toNat?, c.toNat?, m.toNat?, fromHex d with
    | some v, some c, some m, some d => some ⟨v, c, m, d⟩
    | _, _, _, _ => none
  | _ => none

open Lumina.Spec.C15 in
def spec (_ : Unit) (op : String) (obs : String) : String :=
  let ws := words op
  let os := words obs
  match ws with
  | "reset" :: _ => "specskip"
  | "new" :: _ =>
    match (arg? ws "kind").bind parseKind, natArg? ws "h", natArg? ws "row", natArg? ws "col", hexArg? ws "ns" with
    | some k, some h, some r, some c, some ns =>
      let id : Id := ⟨k, h, r, c, ns⟩
      match os with
      | "err" :: _ => verdict "C15/new" (specNew id .err)
      | "ok" :: _ =>
        match hexArg? os "bytes", (arg? os "back").bind (parseIdRes k), arg? os "cidf",
              (arg? os "cidback").bind (parseIdRes k), (arg? os "cidread").bind (parseIdRes k) with
        | some bytes, some back, some cidf, some cidback, some cidread =>
          let cid := if cidf == "-" then none else parseCidF cidf
          verdict "C15/new" (specNew id (.ok bytes back cid cidback cidread))
        | _, _, _, _, _ => "specfail C15/unparsed"
      | _ => "specfail C15/unparsed"
    | _, _, _, _, _ => "specfail C15/unparsed"
  | "decode" :: _ =>
    match (arg? ws "kind").bind parseKind, hexArg? ws "buf" with
    | some k, some buf =>
      match os with
      | "err" :: _ => verdict "C15/decode" (specDecode k buf none)
      | "ok" :: _ =>
        match (arg? os "id").bind (parseId k), hexArg? os "re" with
        | some id, some re => verdict "C15/decode" (specDecode k buf (some (id, re)))
        | _, _ => "specfail C15/unparsed"
      | _ => "specfail C15/unparsed"
    | _, _ => "specfail C15/unparsed"
  | "cid" :: _ =>
    match (arg? ws "kind").bind parseKind, natArg? ws "codec", natArg? ws "code", hexArg? ws "digest" with
    | some k, some codec, some code, some digest =>
      match os with
      | "err" :: _ => verdict "C15/cid" (specOfCid k ⟨1, codec, code, digest⟩ none)
      | "ok" :: _ =>
        match (arg? os "id").bind (parseId k) with
        | some id => verdict "C15/cid" (specOfCid k ⟨1, codec, code, digest⟩ (some id))
        | none => "specfail C15/unparsed"
      | _ => "specfail C15/unparsed"
    | _, _, _, _ => "specfail C15/unparsed"
  | "cidbytes" :: _ => "specskip"
  | _ => "specfail C15/unparsed"

def handler : Driver.Handler Unit := { init := (), step := step, spec := spec }

end Driver.C15

def main (args : List String) : IO UInt32 := Driver.run Driver.C15.handler args

import Driver.Common
import Driver.RangesIO
import Lumina.Model.Ranges
import Lumina.Spec.C17

open Lumina.Util Lumina.Model.Ranges Driver.RangesIO

namespace Driver.C17

/-- registers holding `BlockRanges` values -/
abbrev St := List (String × Ranges)

def get (s : St) (k : String) : Ranges :=
  match s.find? (fun p => p.1 == k) with
  | some p => p.2
  | none => []

def set (s : St) (k : String) (v : Ranges) : St := (k, v) :: s.filter (fun p => p.1 != k)

def reg (ws : List String) (key : String) : String := (arg? ws key).getD "a"

def showBoolRes : Res Bool → String
  | .ok b => toString b
  | .error e => showErr e

def step (st : St) (line : String) : St × String :=
  let ws := words line
  let x := get st (reg ws "x")
  let y := get st (reg ws "y")
  let d := reg ws "d"
  let bad : St × String := (st, "bad-op")
  /- an op that stores its result in register `d` -/
  let store (r : Res Ranges) : St × String :=
    match r with
    | .ok v => (set st d v, s!"ok {showRanges v}")
    | .error e => (st, showErr e)
  match ws with
  | "reset" :: _ => ([], "ok")
  | "new" :: _ => store (.ok new)
  | "set" :: _ =>
    match rangesArg? ws "v" with
    | some v => store (fromVec v)
    | none => bad
  | "insert" :: _ =>
    match rangeArg? ws "s" "e" with
    | some r => match insertRelaxed x r with
      | .ok v => (set st (reg ws "x") v, s!"ok {showRanges v}")
      | .error e => (st, showErr e)
    | none => bad
  | "remove" :: _ =>
    match rangeArg? ws "s" "e" with
    | some r => match removeRelaxed x r with
      | .ok v => (set st (reg ws "x") v, s!"ok {showRanges v}")
      | .error e => (st, showErr e)
    | none => bad
  | "contains" :: _ =>
    match natArg? ws "h" with
    | some h => (st, toString (contains x h))
    | none => bad
  | "len" :: _ =>
    match len x with
    | .ok n => (st, toString n)
    | .error e => (st, showErr e)
  | "is_empty" :: _ => (st, toString (isEmpty x))
  | "head" :: _ => (st, showOptNat (head x))
  | "tail" :: _ => (st, showOptNat (tail x))
  | "pop_head" :: _ =>
    match popHead x with
    | .ok (o, v) => (set st (reg ws "x") v, s!"{showOptNat o} {showRanges v}")
    | .error e => (st, showErr e)
  | "pop_tail" :: _ =>
    match popTail x with
    | .ok (o, v) => (set st (reg ws "x") v, s!"{showOptNat o} {showRanges v}")
    | .error e => (st, showErr e)
  | "headn" :: _ =>
    match natArg? ws "n" with
    | some n => store (headn x n)
    | none => bad
  | "tailn" :: _ =>
    match natArg? ws "n" with
    | some n => store (tailn x n)
    | none => bad
  | "edges" :: _ => store (edges x)
  | "partitions" :: _ =>
    match partitions x with
    | .ok none => (st, "none")
    | .ok (some (l, m, r)) => (st, s!"some {showRanges l} {m} {showRanges r}")
    | .error e => (st, showErr e)
  | "left_of" :: _ =>
    match natArg? ws "h" with
    | some h => match leftOf x h with
      | .ok o => (st, showOptNat o)
      | .error e => (st, showErr e)
    | none => bad
  | "right_of" :: _ =>
    match natArg? ws "h" with
    | some h => match rightOf x h with
      | .ok o => (st, showOptNat o)
      | .error e => (st, showErr e)
    | none => bad
  | "find" :: _ =>
    match rangeArg? ws "s" "e" with
    | some r => match findAffectedRanges x r with
      | .ok none => (st, "none")
      | .ok (some (i, j)) => (st, s!"some {i} {j}")
      | .error e => (st, showErr e)
    | none => bad
  | "add" :: _ => store (add x y)
  | "or" :: _ => store (bitOr x y)
  | "sub" :: _ => store (sub x y)
  | "and" :: _ => store (bitAnd x y)
  | "not" :: _ => store (bitNot x)
  | "r_validate" :: _ =>
    match rangeArg? ws "s" "e" with
    | some r => match Range.validate r with
      | .ok _ => (st, "ok")
      | .error e => (st, showErr e)
    | none => bad
  | "r_len" :: _ =>
    match rangeArg? ws "s" "e" with
    | some r => match Range.len r with
      | .ok n => (st, toString n)
      | .error e => (st, showErr e)
    | none => bad
  | "r_adj" :: _ =>
    match rangeArg? ws "s" "e", rangeArg? ws "s2" "e2" with
    | some a, some b => (st, showBoolRes (Range.isAdjacent a b))
    | _, _ => bad
  | "r_ovl" :: _ =>
    match rangeArg? ws "s" "e", rangeArg? ws "s2" "e2" with
    | some a, some b => (st, showBoolRes (Range.isOverlapping a b))
    | _, _ => bad
  | "r_left" :: _ =>
    match rangeArg? ws "s" "e", rangeArg? ws "s2" "e2" with
    | some a, some b => (st, showBoolRes (Range.isLeftOf a b))
    | _, _ => bad
  | "r_right" :: _ =>
    match rangeArg? ws "s" "e", rangeArg? ws "s2" "e2" with
    | some a, some b => (st, showBoolRes (Range.isRightOf a b))
    | _, _ => bad
  | "r_headn" :: _ =>
    match rangeArg? ws "s" "e", natArg? ws "n" with
    | some a, some n => (st, showRange (Range.headn a n))
    | _, _ => bad
  | "r_tailn" :: _ =>
    match rangeArg? ws "s" "e", natArg? ws "n" with
    | some a, some n => (st, showRange (Range.tailn a n))
    | _, _ => bad
  | _ => bad

/-! ### `specOK` on the implementation's observed result -/

open Lumina.Spec.C17 in
def parseObs (os : List String) : Option Obs :=
  match os with
  | ["ok", v] => (parseRanges v).map Obs.ok
  | ["err", "unsorted"] => some Obs.errUnsorted
  | ["err", e] =>
    match e.splitOn ":" with
    | ["invalid", r] => (parseRange r).map Obs.errInvalid
    | _ => none
  | ["panic"] => some Obs.panic
  | _ => none

def parseOptNat (os : List String) : Option (Option Nat) :=
  match os with
  | ["none"] => some none
  | ["some", n] => n.toNat?.map some
  | _ => none

def parseBool (os : List String) : Option Bool :=
  match os with
  | ["true"] => some true
  | ["false"] => some false
  | _ => none

def verdict (name : String) (b : Bool) : String :=
  if b then "specok" else s!"specfail C17/{name}"

def unparsed : String := "specfail C17/unparsed"

/-- a predicate of two valid ranges -/
def pairOp (ws os : List String) (name : String) (f : Nat × Nat → Nat × Nat → Bool → Bool) : String :=
  match rangeArg? ws "s" "e", rangeArg? ws "s2" "e2" with
  | some a, some b =>
    if !Lumina.Spec.C17.validR a || !Lumina.Spec.C17.validR b then "specskip" else
    match parseBool os with
    | some o => verdict name (f a b o)
    | none => verdict name false
  | _, _ => unparsed

/-- The checkers of `Spec/C17.lean` speak about operations on a *canonical* value; an operand
    that is not canonical (only constructible through `from_vec`, which is itself checked by
    `specFromVec`) makes the case a `specskip`. -/
def spec (st : St) (op : String) (obs : String) : String :=
  let ws := words op
  let os := words obs
  let x := get st (reg ws "x")
  let y := get st (reg ws "y")
  let S := Lumina.Spec.C17.canonical
  let onVal (name : String) (pre : Bool) (f : Lumina.Spec.C17.Obs → Bool) : String :=
    if !pre then "specskip" else
    match parseObs os with
    | some o => verdict name (f o)
    | none => unparsed
  match ws with
  | "reset" :: _ => "specskip"
  | "new" :: _ => onVal "new" true (fun o => o == .ok [])
  | "set" :: _ =>
    match rangesArg? ws "v" with
    | some v => onVal "from_vec" true (Lumina.Spec.C17.specFromVec v)
    | none => unparsed
  | "insert" :: _ =>
    match rangeArg? ws "s" "e" with
    | some r => onVal "insert" (S x) (Lumina.Spec.C17.specInsert x r)
    | none => unparsed
  | "remove" :: _ =>
    match rangeArg? ws "s" "e" with
    | some r => onVal "remove" (S x) (Lumina.Spec.C17.specRemove x r)
    | none => unparsed
  | "contains" :: _ =>
    match natArg? ws "h", parseBool os with
    | some h, some b => verdict "contains" (Lumina.Spec.C17.specContains x h b)
    | _, _ => unparsed
  | "len" :: _ =>
    if !S x then "specskip" else
    match os with
    | [n] => verdict "len" (Lumina.Spec.C17.specLen x n.toNat?)
    | _ => unparsed
  | "is_empty" :: _ =>
    if !S x then "specskip" else
    match parseBool os with
    | some b => verdict "is_empty" (Lumina.Spec.C17.specIsEmpty x b)
    | none => unparsed
  | "head" :: _ =>
    if !S x then "specskip" else
    match parseOptNat os with
    | some o => verdict "head" (Lumina.Spec.C17.specHead x o)
    | none => unparsed
  | "tail" :: _ =>
    if !S x then "specskip" else
    match parseOptNat os with
    | some o => verdict "tail" (Lumina.Spec.C17.specTail x o)
    | none => unparsed
  | "pop_head" :: _ =>
    if !S x then "specskip" else
    match os with
    | ["none", v] => match parseRanges v with
      | some out => verdict "pop_head" (Lumina.Spec.C17.specPopHead x none out)
      | none => unparsed
    | ["some", n, v] => match n.toNat?, parseRanges v with
      | some n, some out => verdict "pop_head" (Lumina.Spec.C17.specPopHead x (some n) out)
      | _, _ => unparsed
    | _ => verdict "pop_head" false
  | "pop_tail" :: _ =>
    if !S x then "specskip" else
    match os with
    | ["none", v] => match parseRanges v with
      | some out => verdict "pop_tail" (Lumina.Spec.C17.specPopTail x none out)
      | none => unparsed
    | ["some", n, v] => match n.toNat?, parseRanges v with
      | some n, some out => verdict "pop_tail" (Lumina.Spec.C17.specPopTail x (some n) out)
      | _, _ => unparsed
    | _ => verdict "pop_tail" false
  | "headn" :: _ =>
    match natArg? ws "n" with
    | some n => onVal "headn" (S x) (Lumina.Spec.C17.specHeadn x n)
    | none => unparsed
  | "tailn" :: _ =>
    match natArg? ws "n" with
    | some n => onVal "tailn" (S x) (Lumina.Spec.C17.specTailn x n)
    | none => unparsed
  | "edges" :: _ => onVal "edges" (S x) (Lumina.Spec.C17.specEdges x)
  | "partitions" :: _ =>
    if !S x then "specskip" else
    match os with
    | ["none"] => verdict "partitions" (Lumina.Spec.C17.specPartitions x none)
    | ["some", l, m, r] => match parseRanges l, m.toNat?, parseRanges r with
      | some l, some m, some r => verdict "partitions" (Lumina.Spec.C17.specPartitions x (some (l, m, r)))
      | _, _, _ => unparsed
    | _ => verdict "partitions" false
  | "left_of" :: _ =>
    match natArg? ws "h" with
    | some h =>
      -- heights are ≥ 1 ("free of height 0"); 0 is not a height: outside the property
      if !S x || h == 0 then "specskip" else
      match parseOptNat os with
      | some o => verdict "left_of" (Lumina.Spec.C17.specLeftOf x h o)
      | none => verdict "left_of" false
    | none => unparsed
  | "right_of" :: _ =>
    match natArg? ws "h" with
    | some h =>
      if !S x || h == 0 then "specskip" else
      match parseOptNat os with
      | some o => verdict "right_of" (Lumina.Spec.C17.specRightOf x h o)
      | none => verdict "right_of" false
    | none => unparsed
  | "add" :: _ => onVal "union" (S x && S y) (Lumina.Spec.C17.specUnion x y)
  | "or" :: _ => onVal "union" (S x && S y) (Lumina.Spec.C17.specUnion x y)
  | "sub" :: _ => onVal "difference" (S x && S y) (Lumina.Spec.C17.specDiff x y)
  | "and" :: _ => onVal "intersection" (S x && S y) (Lumina.Spec.C17.specInter x y)
  | "not" :: _ => onVal "complement" (S x) (Lumina.Spec.C17.specCompl x)
  -- helper-level operations: specified on valid arguments (on invalid ranges the debug
  -- assertions of the real code fire; that is outside the property and tied by the diff)
  | "find" :: _ =>
    match rangeArg? ws "s" "e" with
    | some r =>
      if !S x || !Lumina.Spec.C17.validR r then "specskip" else
      match os with
      | ["none"] => verdict "find" (Lumina.Spec.C17.specFind x r none)
      | ["some", i, j] => match i.toNat?, j.toNat? with
        | some i, some j => verdict "find" (Lumina.Spec.C17.specFind x r (some (i, j)))
        | _, _ => unparsed
      | _ => verdict "find" false
    | none => unparsed
  | "r_validate" :: _ =>
    match rangeArg? ws "s" "e" with
    | some r => verdict "r_validate"
        (if Lumina.Spec.C17.validR r then os == ["ok"] else parseObs os == some (.errInvalid r))
    | none => unparsed
  | "r_len" :: _ =>
    match rangeArg? ws "s" "e", os with
    | some r, [n] => verdict "r_len" (Lumina.Spec.C17.specRangeLen r n.toNat?)
    | _, _ => unparsed
  | "r_adj" :: _ => pairOp ws os "r_adj" Lumina.Spec.C17.specRangeAdjacent
  | "r_ovl" :: _ => pairOp ws os "r_ovl" Lumina.Spec.C17.specRangeOverlapping
  | "r_left" :: _ => pairOp ws os "r_left" Lumina.Spec.C17.specRangeLeftOf
  | "r_right" :: _ => pairOp ws os "r_right" Lumina.Spec.C17.specRangeRightOf
  | "r_headn" :: _ =>
    match rangeArg? ws "s" "e", natArg? ws "n", os with
    | some r, some n, [o] =>
      if !Lumina.Spec.C17.validR r then "specskip" else
      match parseRange o with
      | some out => verdict "r_headn" (Lumina.Spec.C17.specRangeHeadn r n out)
      | none => unparsed
    | _, _, _ => unparsed
  | "r_tailn" :: _ =>
    match rangeArg? ws "s" "e", natArg? ws "n", os with
    | some r, some n, [o] =>
      if !Lumina.Spec.C17.validR r then "specskip" else
      match parseRange o with
      | some out => verdict "r_tailn" (Lumina.Spec.C17.specRangeTailn r n out)
      | none => unparsed
    | _, _, _ => unparsed
  | _ => "specskip"

def handler : Driver.Handler St := { init := [], step := step, spec := spec }

end Driver.C17

def main (args : List String) : IO UInt32 := Driver.run Driver.C17.handler args

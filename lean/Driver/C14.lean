import Driver.Common
import Lumina.Model.Namespace
import Lumina.Spec.C14

open Lumina.Util Lumina.Model.Namespace
open Lumina.Spec.C14 (Obs)

namespace Driver.C14

def showRes : Except Err Ns → String
  | .ok ns => s!"ok {toHex ns}"
  | .error e => s!"err {e.kind}"

def showOrd : Ordering → String
  | .lt => "lt" | .eq => "eq" | .gt => "gt"

def step (_ : Unit) (line : String) : Unit × String :=
  let ws := words line
  let out : String :=
    match ws with
    | "from_raw" :: _ =>
      match hexArg? ws "hex" with
      | some bs => showRes (fromRaw bs)
      | none => "bad-op"
    | "new" :: _ =>
      match natArg? ws "v", hexArg? ws "id" with
      | some v, some idb => if v < 256 then showRes (new (UInt8.ofNat v) idb) else "bad-op"
      | _, _ => "bad-op"
    | "new_v0" :: _ =>
      match hexArg? ws "id" with
      | some idb => showRes (newV0 idb)
      | none => "bad-op"
    | "new_v255" :: _ =>
      match hexArg? ws "id" with
      | some idb => showRes (newV255 idb)
      | none => "bad-op"
    | "id_v0" :: _ =>
      match hexArg? ws "ns" with
      | some ns => match idV0 ns with
        | some x => s!"some {toHex x}"
        | none => "none"
      | none => "bad-op"
    | "cmp" :: _ =>
      match hexArg? ws "a", hexArg? ws "b" with
      | some a, some b => showOrd (cmp a b)
      | _, _ => "bad-op"
    | "is_reserved" :: _ =>
      match hexArg? ws "ns" with
      | some ns => toString (isReserved ns)
      | none => "bad-op"
    | "serde" :: _ =>
      match hexArg? ws "ns" with
      | some ns =>
        let s := serialize ns
        match deserialize s with
        | some x => s!"ok {toHex x} s={String.ofList s}"
        | none => s!"err s={String.ofList s}"
      | none => "bad-op"
    | "de" :: _ =>
      match arg? ws "s" with
      | some s => match deserialize (if s == "-" then [] else s.toList) with
        | some x => s!"ok {toHex x}"
        | none => "err"
      | none => "bad-op"
    | _ => "bad-op"
  ((), out)

def parseObs (ws : List String) : Option Obs :=
  match ws with
  | "ok" :: h :: _ => (fromHex h).map Obs.ok
  | "err" :: _ => some Obs.err
  | _ => none

def verdict (name : String) (b : Bool) : String :=
  if b then "specok" else s!"specfail {name}"

/-- `specOK` on the implementation's observed result -/
def spec (_ : Unit) (op : String) (obs : String) : String :=
  let ws := words op
  let os := words obs
  match ws with
  | "from_raw" :: _ =>
    match hexArg? ws "hex", parseObs os with
    | some bs, some o => verdict "C14/from_raw" (Lumina.Spec.C14.specFromRaw bs o)
    | _, _ => "specfail C14/unparsed"
  | "new" :: _ =>
    match natArg? ws "v", hexArg? ws "id", parseObs os with
    | some v, some idb, some o => verdict "C14/new" (Lumina.Spec.C14.specNew (UInt8.ofNat v) idb o)
    | _, _, _ => "specfail C14/unparsed"
  | "new_v0" :: _ =>
    match hexArg? ws "id", parseObs os with
    | some idb, some o => verdict "C14/new_v0" (Lumina.Spec.C14.specNew 0 idb o)
    | _, _ => "specfail C14/unparsed"
  | "new_v255" :: _ =>
    match hexArg? ws "id", parseObs os with
    | some idb, some o =>
      -- v255 has no shorthand: only full ids are accepted
      verdict "C14/new_v255" (if idb.length == 28 then Lumina.Spec.C14.specNew 255 idb o else o == Obs.err)
    | _, _ => "specfail C14/unparsed"
  | "id_v0" :: _ =>
    match hexArg? ws "ns", os with
    | some ns, ["some", h] => match fromHex h with
      | some x => verdict "C14/id_v0" (Lumina.Spec.C14.specIdV0 ns (some x))
      | none => "specfail C14/unparsed"
    | some ns, ["none"] => verdict "C14/id_v0" (Lumina.Spec.C14.specIdV0 ns none)
    | _, _ => "specfail C14/unparsed"
  | "cmp" :: _ =>
    match hexArg? ws "a", hexArg? ws "b", os with
    | some a, some b, [o] =>
      let ord? : Option Ordering := if o == "lt" then some .lt else if o == "eq" then some .eq
        else if o == "gt" then some .gt else none
      match ord? with
      | some ord => verdict "C14/cmp" (Lumina.Spec.C14.specCmp a b ord)
      | none => "specfail C14/unparsed"
    | _, _, _ => "specfail C14/unparsed"
  | "is_reserved" :: _ =>
    match hexArg? ws "ns", os with
    | some ns, [o] => verdict "C14/is_reserved" (Lumina.Spec.C14.specIsReserved ns (o == "true"))
    | _, _ => "specfail C14/unparsed"
  | "serde" :: _ =>
    match hexArg? ws "ns", parseObs os with
    | some ns, some o => verdict "C14/serde" (Lumina.Spec.C14.specSerde ns o)
    | _, _ => "specfail C14/unparsed"
  | "de" :: _ =>
    -- a deserialised namespace must be a valid one whose canonical base64 form is the input string;
    -- a rejected string must not be the base64 form of any valid namespace
    match arg? ws "s", parseObs os with
    | some s0, some o =>
      let cs := if s0 == "-" then [] else s0.toList
      match o with
      | Obs.ok x => verdict "C14/de" (Lumina.Spec.C14.validRaw x && b64Encode x == cs)
      | Obs.err => verdict "C14/de" (match b64Decode cs with
          | some bs => !(Lumina.Spec.C14.validRaw bs)
          | none => true)
    | _, _ => "specfail C14/unparsed"
  | _ => "specfail C14/unparsed"

def handler : Driver.Handler Unit := { init := (), step := step, spec := spec }

end Driver.C14

def main (args : List String) : IO UInt32 := Driver.run Driver.C14.handler args

import Driver.D2Common
import Lumina.Model.ShrexEds
import Lumina.Spec.C09

open Lumina.Util Lumina.Model.Nmt Lumina.Model.Eds Lumina.Model.EdsCode Lumina.Model.ShrexEds Driver.D2Common

namespace Driver.C09

/-- the oracle of one `decode` op: the three parity quadrants the real codec computed for the payload's
    shares (absent = `-` when the payload has no extension) -/
structure Oracle where
  k : Nat
  q0 : List Bytes
  q1 : List Bytes
  q2 : List Bytes
  q3 : List Bytes

def parseOracle (ws : List String) (raw : Bytes) : Option Oracle :=
  match hexListArg? ws "q1", hexListArg? ws "q2", hexListArg? ws "q3" with
  | some q1, some q2, some q3 =>
    let q0 := chunks 512 raw
    let k := isqrt q0.length
    if q1.isEmpty then none else some ⟨k, q0, q1, q2, q3⟩
  | _, _, _ => none

def showDec : Except DecErr Eds → String
  | .ok e => showEds e
  | .error .panic => "panic"
  | .error e => s!"err {e.kind}"

def step (_ : Unit) (line : String) : Unit × String :=
  let ws := words line
  let out : String :=
    match ws with
    | "reset" :: _ => "ok"
    | "decode" :: _ =>
      match natArg? ws "ver", hexArg? ws "raw", parseDah ws with
      | some ver, some raw, some dah =>
        let enc := match parseOracle ws raw with
          | some o => encOf (tableOfQuadrants o.k o.q0 o.q1 o.q2 o.q3)
          | none => encOf []
        showDec (decodeAndVerify sha enc raw dah ver)
      | _, _, _ => "bad-op"
    | "encode" :: _ =>
      -- `ExtendedDataSquare::new(shares)` then the codec's `encode`
      match natArg? ws "ver", hexListArg? ws "data" with
      | some ver, some data =>
        match edsNew ver data with
        | .error e => s!"err {e.kind}"
        | .ok e =>
          match encode e with
          | none => "panic"
          | some bytes => s!"ok {toHex bytes}"
      | _, _ => "bad-op"
    | _ => "bad-op"
  ((), out)

def parseObs (os : List String) : Option Lumina.Spec.C09.Obs :=
  match os with
  | "panic" :: _ => some .panic
  | "err" :: _ => some .err
  | "ok" :: _ =>
    match natArg? os "w", hexListArg? os "data" with
    | some w, some d => some (.ok w d)
    | _, _ => none
  | _ => none

/-- `specOK` on the implementation's observed result -/
def spec (_ : Unit) (op : String) (obs : String) : String :=
  let ws := words op
  let os := words obs
  match ws with
  | "reset" :: _ => "specskip"
  | "decode" :: _ =>
    match hexArg? ws "raw", parseRoots ws "rows", parseRoots ws "cols", parseObs os with
    | some raw, some rows, some cols, some o =>
      let ext := (parseOracle ws raw).map (fun or => assemble or.k or.q0 or.q1 or.q2 or.q3)
      if o == .panic then "specfail C09/decode-panic the decoder panicked instead of rejecting"
      else if !Lumina.Spec.C09.specDecode sha raw rows cols ext o then
        "specfail C09/accepted-wrong-payload accepted payload is not the ODS whose extension reproduces the DAH, or a different square was returned"
      else if natArg? ws "honest" == some 1 && !Lumina.Spec.C09.specHonest o then
        "specfail C09/honest-rejected an honest payload was rejected"
      else "specok"
    | _, _, _, _ => "specfail C09/unparsed"
  | "encode" :: _ =>
    -- the encoder is the honest prover: its output must be the first quadrant, row-major
    match natArg? ws "w", hexListArg? ws "data", os with
    | some w, some data, ["ok", h] =>
      if fromHex h == some (Lumina.Spec.C09.quadrant0 w data).flatten then "specok"
      else "specfail C09/encode-not-first-quadrant"
    | some _, some _, "err" :: _ => "specskip"
    | some _, some _, "panic" :: _ => "specfail C09/encode-panic"
    | _, _, _ => "specfail C09/unparsed"
  | _ => "specfail C09/unparsed"

def handler : Driver.Handler Unit := { init := (), step := step, spec := spec }

end Driver.C09

def main (args : List String) : IO UInt32 := Driver.run Driver.C09.handler args

/-
  C19 driver.  `step` prints what the MemStore and RedbStore models answer; `spec` checks the
  IMPLEMENTATIONS' observed answers (result and full state dump of both real stores) against
  the abstract store of `Spec/C19.lean`, and the abstract state against the invariants the
  property names.
-/
import Driver.StoreCommon

open Driver.StoreCommon

namespace Driver.C19

def spec (s : St) (op : String) (obs : String) : String :=
  if !isStoreOp op then "specskip"
  else
    let (s', _, absPart) := stepFull s op
    if absPart.isEmpty then "specskip"
    -- precondition of the stores: only validated headers are stored (decoding validates).  Once
    -- an unvalidated header was accepted the redb store cannot read it back; conformance to
    -- the abstract store is claimed only up to that point (the MODEL is still compared).
    else if s'.tainted then "specskip"
    else if !Lumina.Spec.C19.invOK s'.abs then
      "specfail C19/abstract-invariant sampled-within-stored / pruned-disjoint / single-valued indexes broken"
    else match splitObs obs with
    | none => "specfail C19/unparsed"
    | some (m, r) =>
      if m != absPart then s!"specfail C19/mem-differs-from-abstract-store expected: {absPart}"
      else if r != absPart then s!"specfail C19/redb-differs-from-abstract-store expected: {absPart}"
      else "specok"

def handler : Driver.Handler St := { init := St.init .c19, step := step, spec := spec }

end Driver.C19

def main (args : List String) : IO UInt32 := Driver.run Driver.C19.handler args

/-
  C19 driver.  `step` prints what the MemStore and RedbStore models answer; `spec` checks the
  IMPLEMENTATIONS' observed answers (result and full state dump of both real stores) against
  the abstract store of `Spec/C19.lean`, and the abstract state against the invariants the
  property names.
-/
import Driver.StoreCommon

open Driver.StoreCommon

namespace Driver.C19

/-- the redb tables hold a header that does not pass `ExtendedHeader::validate` -/
def holdsUnvalidated (t : Lumina.Model.Store.Tables) : Bool := t.headers.any (fun p => !p.2.valid)

/-- the redb half of a printed model line -/
def redbPart (line : String) : String :=
  match splitObs line with
  | some (_, r) => r
  | none => ""

def spec (s : St) (op : String) (obs : String) : String :=
  if !isStoreOp op then "specskip"
  else
    let (s', modelLine, absPart) := stepFull s op
    if absPart.isEmpty then "specskip"
    else if !Lumina.Spec.C19.invOK s'.abs then
      "specfail C19/abstract-invariant sampled-within-stored / pruned-disjoint / single-valued indexes broken"
    else match splitObs obs with
    | none => "specfail C19/unparsed"
    | some (m, r) =>
      -- the in-memory store must conform in EVERY history
      if m != absPart then s!"specfail C19/mem-differs-from-abstract-store expected: {absPart}"
      else if r == absPart then "specok"
      -- KNOWN FINDING (known_findings.json): `Store::insert` does not validate but the redb store
      -- re-validates whatever it reads (`ExtendedHeader::decode`).  Exactly this class is excused:
      -- the redb tables hold an unvalidated header (before or after this call) AND the real redb
      -- store answers precisely what the transcription of that behaviour (`decodeHeader`) predicts.
      -- Any other difference from the abstract store is reported under the general fingerprint.
      else if (holdsUnvalidated s.redb || holdsUnvalidated s'.redb) && r == redbPart modelLine then
        "specfail C19/redb/unvalidated-header-stored redb re-validates on read: StoredDataError at / next to / on removal of a stored unvalidated header"
      else s!"specfail C19/redb-differs-from-abstract-store expected: {absPart}"

def handler : Driver.Handler St := { init := St.init .c19, step := step, spec := spec }

end Driver.C19

def main (args : List String) : IO UInt32 := Driver.run Driver.C19.handler args

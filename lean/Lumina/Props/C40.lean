/-
  C40 — Shrex peer pools contain only peers that announced the right data.   PROPERTY THEOREMS ONLY.

  Model: `Lumina/Model/Pools.lean` (`PoolTracker`: `add_peer_for_hash` = `notify`, `get_pool`,
  `remove_peer`, `poll` with its pending events / header tasks / timeouts / store errors,
  `validate_pool`, `try_update_subjective_head`; the `FuturesUnordered` queue and the store's `Notify`
  are modelled, so every schedule of task completions is a history).  Spec: `Lumina/Spec/C40.lean`.
  `view` (`Model/PoolsView.lean`) projects a model state onto what the spec observes.
  History theorems quantify over ALL event lists (notifications, header arrivals, timeouts, store errors,
  removals, polls in any interleaving); the blocking theorems hold for ANY state whatsoever.
-/
import Lumina.Proofs.Pools

namespace Lumina.Props.C40
open Lumina.Model.Pools Lumina.Proofs.Pools Lumina.Spec.C40

/-- the generated constants are the numbers the property states: window 10, validation timeout 120 s -/
theorem consts_eq :
    Lumina.Gen.C40.ROOT_HASH_WINDOW = 10 ∧ Lumina.Gen.C40.POOL_VALIDATION_TIMEOUT = 120 * 1000000000 := by
  decide

/-- **a peer is offered for a height only if it announced the data hash of the stored header at that
    height**: whenever `get_pool(h)` answers with peers, `h` was validated with the data hash `x` of a
    header that a header task delivered for height `h` (`arrived`), and every offered peer sent a
    notification carrying `x` (`announced`) -/
theorem offered_only_if_announced (evs : List Event) (h : Nat) (ps : List Nat)
    (hg : getPool (run init evs) h = .ok ps) :
    ∃ x, (h, x) ∈ (run init evs).arrived ∧ ∀ p ∈ ps, ∃ h', (p, x, h') ∈ (run init evs).announced := by
  have hi := inv1_run evs init inv1_init
  unfold getPool at hg
  split at hg
  · rename_i x hgp
    split at hg
    · rename_i ps' hgv
      simp only [PoolRes.ok.injEq] at hg
      subst hg
      exact ⟨x, hi.a _ (alGet_mem hgp) x rfl, fun p hp => hi.b _ (alGet_mem hgv) p hp⟩
    · cases hg
  · cases hg
  · split at hg <;> (try split at hg) <;> cases hg

/-- what a header task delivers is the data hash of a header the store holds for that height
    (`EvP P` : every `store h x` event satisfies `P h x`; take `P h x := x = dataHash h`) -/
theorem arrived_is_stored_header (P : Nat → Nat → Prop) (hP : InjP P) (evs : List Event)
    (hev : ∀ e ∈ evs, EvP P e) : ∀ t ∈ (run init evs).arrived, P t.1 t.2 :=
  (inv2_run P hP evs init (inv2_init P) hev).env.2

/-- the same in the spec's form, for a store whose headers have pairwise distinct data hashes:
    every validated height carries the stored header's hash and offers only announcers of it -/
theorem offered_spec (dataHash : Nat → Nat) (hinj : Function.Injective dataHash) (evs : List Event)
    (hev : ∀ e ∈ evs, EvP (fun h x => x = dataHash h) e) (h : Nat) (ps : List Nat)
    (hg : getPool (run init evs) h = .ok ps) :
    ∀ p ∈ ps, ∃ h', (p, dataHash h, h') ∈ (run init evs).announced := by
  have hP : InjP (fun h x => x = dataHash h) := by
    intro h1 x1 h2 x2 e1 e2
    subst e1; subst e2
    exact ⟨fun e => by rw [e], fun e => hinj e⟩
  obtain ⟨x, hx, hall⟩ := offered_only_if_announced evs h ps hg
  have := arrived_is_stored_header _ hP evs hev _ hx
  simp only at this
  subst this
  exact hall

/-- **peers that announced another hash for a validated height are blocked** (at notification time):
    from ANY state, a notification for a height that is validated with a different hash queues a
    `BlockPeers` naming the peer -/
theorem wrong_hash_blocked (s : State) (p x h : Nat) (hpos : 0 < h) :
    specNotifyWrongHash (view s) (view (notify s p x h)) p x h = true := by
  unfold specNotifyWrongHash
  cases hi : ignored (view s) h with
  | true => rfl
  | false =>
    obtain ⟨H, hH, hst⟩ := not_ignored hpos hi
    simp only [Bool.false_eq_true, ↓reduceIte, lookup_view_pools]
    cases hg : alGet s.hashPools h with
    | none => rfl
    | some pool =>
      cases pool with
      | candidates v c => rfl
      | validated y =>
        simp only [Option.map_some, viewPool]
        by_cases hne : y = x
        · simp [hne]
        · simp only [bne_iff_ne, ne_eq, hne, not_false_eq_true, ↓reduceIte]
          exact newlyBlocked_of_append _ _ _ (notify_events_validated_wrong s p x h H y hH hst hg hne)

/-- **… or announced twice, are blocked**: from ANY state, a notification by a peer that is already
    counted for that height — it voted while the height was unvalidated, or it sits in the validated
    pool of that height — queues a `BlockPeers` naming the peer -/
theorem announced_twice_blocked (s : State) (p x h : Nat) (hpos : 0 < h) :
    specNotifyTwice (view s) (view (notify s p x h)) p h = true := by
  unfold specNotifyTwice
  cases hi : ignored (view s) h with
  | true => rfl
  | false =>
    obtain ⟨H, hH, hst⟩ := not_ignored hpos hi
    simp only [Bool.false_eq_true, ↓reduceIte, lookup_view_pools]
    cases hg : alGet s.hashPools h with
    | none => rfl
    | some pool =>
      cases pool with
      | candidates v c =>
        simp only [Option.map_some, viewPool]
        cases hv : v.contains p with
        | false => simp
        | true =>
          simp only [↓reduceIte]
          exact newlyBlocked_of_append _ _ _ (notify_events_candidates_dup s p x h H v c hH hst hg hv)
      | validated y =>
        simp only [Option.map_some, viewPool]
        have hvp : (view s).vp = s.validatedPools := rfl
        rw [hvp, lookup_eq_alGet]
        cases hm : ((alGet s.validatedPools y).getD []).contains p with
        | false => simp
        | true =>
          simp only [↓reduceIte]
          by_cases hne : y = x
          · subst hne
            exact newlyBlocked_of_append _ _ _ (notify_events_validated_dup s p y h H hH hst hg hm)
          · exact newlyBlocked_of_append _ _ _ (notify_events_validated_wrong s p x h H y hH hst hg hne)

/-- **peers that announced another hash for a validated height are blocked** (at validation time): when
    `validate_pool` turns the candidates of a height into a validated pool, every voter of another hash
    is named in a queued `BlockPeers`, the height becomes validated with the header's hash, and exactly
    the voters of that hash are offered -/
theorem validation_blocks_other_hashes (s : State) (x h : Nat) (voted : List Nat) (cands : List (Nat × List Nat))
    (hg : alGet s.hashPools h = some (.candidates voted cands)) :
    (∀ c ∈ cands, c.1 ≠ x → ∀ p ∈ c.2, ∃ bs, Ev.blockPeers bs ∈ (validatePool s x h).pendingEvents ∧ p ∈ bs) ∧
    alGet (validatePool s x h).hashPools h = some (.validated x) ∧
    alGet (validatePool s x h).validatedPools x = some ((alGet cands x).getD []) :=
  ⟨validatePool_blocks s x h voted cands hg, validatePool_promotes s x h voted cands hg⟩

/-- the same inside `poll`: when `poll` (with an empty event queue) consumes the arrival of header `h`
    with data hash `x` while height `h ≥ 1` is still unvalidated, it answers `Ready(None)` and every voter
    of another hash is named in a `BlockPeers` of the resulting queue -/
theorem poll_validation_blocks_other_hashes (s : State) (h x : Nat) (voted : List Nat)
    (cands : List (Nat × List Nat)) (hq : s.pendingEvents = [])
    (hres : (pollNext s.stored s.queue s.waiters).2.2 = some (.ok h x))
    (hg : alGet s.hashPools h = some (.candidates voted cands)) (hpos : 0 < h) :
    (poll s).2 = .readyNone ∧
    ∀ c ∈ cands, c.1 ≠ x → ∀ p ∈ c.2, ∃ bs, Ev.blockPeers bs ∈ (poll s).1.pendingEvents ∧ p ∈ bs :=
  poll_validation_blocks s h x voted cands hq hres hg hpos

/-! #### the blocking clauses read over whole histories

  `State.blocked` logs every peer named in a `BlockPeers` the tracker ever queued (it is appended exactly
  where the model pushes a `BlockPeers`), `State.removed` every peer `remove_peer` was called for from
  outside (the shrex client blocked it). -/

/-- FULL STATEMENT (history reading of "peers that announced another hash for a validated height are
    blocked"): after ANY history, a peer that announced `(x, h)` while `h` is now validated with another
    hash was named in a `BlockPeers` or removed.  It is FALSE of lumina (see the counterexample below). -/
def WrongHashBlockedAlways : Prop :=
  ∀ (evs : List Event) (p x h y : Nat), (p, x, h) ∈ (run init evs).announced →
    alGet (run init evs).hashPools h = some (.validated y) → y ≠ x →
    p ∈ (run init evs).blocked ∨ p ∈ (run init evs).removed

/-- the history reading holds for every history in which no header task fails (`NoFail`: no injected
    `Timeout` / `StoreError`; every other interleaving of notifications, header arrivals, removals and
    polls is allowed) -/
theorem wrong_hash_blocked_history_partial (evs : List Event) (hn : ∀ e ∈ evs, NoFail e)
    (p x h y : Nat) (ha : (p, x, h) ∈ (run init evs).announced)
    (hv : alGet (run init evs).hashPools h = some (.validated y)) (hne : y ≠ x) :
    p ∈ (run init evs).blocked ∨ p ∈ (run init evs).removed := by
  have hi := hinv_run evs init hinv_init hn
  rcases hi.h _ ha with he | hs
  · exact he
  · unfold Stand at hs
    simp only [hv] at hs
    exact absurd hs hne

/-- … and it is false in general (known finding `C40/wrong-hash-vote-forgotten-by-store-error`): peer 2
    announces hash 9 for height 11; the header task of 11 ends in a store error and `poll` drops the pool
    without blocking anybody; peer 0 announces the right hash, the header arrives, 11 is validated with
    1011 and offers peer 0 — peer 2 was never blocked nor removed -/
theorem wrong_hash_history_counterexample : ¬ WrongHashBlockedAlways := by
  intro h
  have := h [.store 10 1010, .poll, .notify 2 9 11, .taskStoreErr 11, .poll, .notify 0 1011 11,
    .store 11 1011, .poll, .poll, .poll] 2 9 11 1011 (by decide) (by decide) (by decide)
  revert this
  decide

/-- the same store-error path forgets that a peer already announced (known finding
    `C40/repeat-after-store-error-not-blocked`): peer 0 announces for 11, the pool is dropped after a store
    error, peer 0 announces for 11 again and simply votes again -/
theorem announced_twice_history_counterexample :
    let s := run init [.store 10 1010, .poll, .notify 0 1011 11, .taskStoreErr 11, .poll, .notify 0 1011 11]
    s.announced = [(0, 1011, 11), (0, 1011, 11)] ∧ s.blocked = [] ∧ s.removed = [] ∧ s.pendingEvents = [] ∧
    alGet s.hashPools 11 = some (.candidates [0] [(1011, [0])]) := by decide

/-- a queued `BlockPeers` is delivered by `poll` before anything else, and the blocked peers are then
    gone from every pool the tracker offers -/
theorem blocked_peers_leave_all_pools (s : State) (ps : List Nat) (rest : List Ev)
    (hq : s.pendingEvents = .blockPeers ps :: rest) :
    (poll s).2 = .readyEv (.blockPeers ps) ∧
    ∀ p ∈ ps, ∀ e ∈ (poll s).1.validatedPools, p ∉ e.2 := by
  have hpoll : poll s = (ps.foldl removePeer { s with pendingEvents := rest }, .readyEv (.blockPeers ps)) := by
    simp [poll, pollLoop, hq]
  rw [hpoll]
  refine ⟨rfl, ?_⟩
  suffices ∀ (ps' : List Nat) (s' : State) (p : Nat), p ∈ ps' ∨ (∀ e ∈ s'.validatedPools, p ∉ e.2) →
      ∀ e ∈ (ps'.foldl removePeer s').validatedPools, p ∉ e.2 from
    fun p hp => this ps _ p (Or.inl hp)
  intro ps'
  induction ps' with
  | nil =>
    intro s' p h
    rcases h with h | h
    · cases h
    · exact h
  | cons q qs ih =>
    intro s' p h
    apply ih
    by_cases hpq : p = q
    · right
      subst hpq
      intro e he
      simp only [removePeer, List.mem_map] at he
      obtain ⟨e0, _, rfl⟩ := he
      simp [List.mem_filter]
    · rcases h with h | h
      · rcases List.mem_cons.1 h with h | h
        · exact absurd h hpq
        · exact Or.inl h
      · right
        intro e he
        simp only [removePeer, List.mem_map] at he
        obtain ⟨e0, he0, rfl⟩ := he
        intro hm
        exact h e0 he0 (List.mem_filter.1 hm).1

/-- **pools for heights more than ten below the newest validated height are dropped**: after any history
    every tracked height `h` satisfies `h + 10 > newest validated height` (and nothing is tracked before
    a first height is validated) -/
theorem stale_pools_dropped (evs : List Event) : specWindow (view (run init evs)) = true := by
  have hw := winv_run evs init winv_init
  unfold specWindow view
  simp only
  unfold WInv at hw
  cases hs : (run init evs).subjectiveHead with
  | none =>
    simp only [hs] at hw
    simp [hw]
  | some H =>
    simp only [hs] at hw
    simp only [List.all_eq_true, List.mem_map, forall_exists_index, and_imp, forall_apply_eq_imp_iff₂,
      Bool.not_eq_eq_eq_not, Bool.not_true, decide_eq_false_iff_not]
    intro e he
    have := hw e he
    unfold staleThreshold at this
    rw [rootHashWindow_eq] at this
    omega

/-- **pool queries never panic when data hashes differ across heights**: if the stored headers' data
    hashes are a function of the height and pairwise distinct (`InjP P`, every `store h x` satisfies
    `P h x`), then after any history `get_pool` never hits its `expect` -/
theorem get_pool_never_panics (P : Nat → Nat → Prop) (hP : InjP P) (evs : List Event)
    (hev : ∀ e ∈ evs, EvP P e) (h : Nat) : getPool (run init evs) h ≠ .panic := by
  have hi := inv2_run P hP evs init (inv2_init P) hev
  unfold getPool
  split
  · rename_i x hg
    have := hi.v _ (alGet_mem hg) x rfl
    split
    · simp
    · rename_i hnone
      rw [hnone] at this
      cases this
  · simp
  · split
    · split <;> simp
    · simp

/-- the precondition is needed: when two heights share a data hash, evicting the first one's pool makes
    `get_pool` of the second panic (heights 11 and 12 with the same hash 7, then a head at 21) -/
theorem get_pool_panics_when_hashes_collide :
    getPool (run init [.store 10 1, .poll, .notify 0 7 11, .notify 1 7 12, .store 11 7, .store 12 7, .poll, .poll,
      .poll, .poll, .store 21 2, .notify 0 2 21, .poll]) 12 = .panic := by decide

/-! ### the defect that was repaired (lumina commit "fix: block a peer that announces twice for an
    already validated height") -/

/-- the `Validated` arm of `add_peer_for_hash` as it was before the fix -/
def voteBeforeFix (s : State) (peer hash height : Nat) : State :=
  match alGet s.hashPools height with
  | some (.validated vh) =>
    if vh == hash then
      { s with validatedPools := alPush s.validatedPools hash peer,
               pendingEvents := s.pendingEvents ++ [.addPeers [peer]] }
    else { s with pendingEvents := s.pendingEvents ++ [.blockPeers [peer]] }
  | _ => vote s peer hash height

/-- height 11 is validated with hash 7 and offers peer 0; peer 0 announces (7, 11) again: before the
    fix it is offered twice and not blocked, after the fix it is blocked -/
theorem before_fix_counterexample :
    let s := run init [.store 10 1, .poll, .notify 0 7 11, .store 11 7, .poll, .poll]
    getPool s 11 = .ok [0] ∧
    specNotifyTwice (view s) (view (voteBeforeFix s 0 7 11)) 0 11 = false ∧
    getPool (voteBeforeFix s 0 7 11) 11 = .ok [0, 0] ∧
    specNotifyTwice (view s) (view (notify s 0 7 11)) 0 11 = true := by decide

/-! ### non-vacuity -/

/-- a history in which peers 0 and 1 announce the right hash, peer 2 a wrong one, peer 3 announces twice:
    0 and 1 are offered, 2 and 3 are blocked -/
example :
    let s := run init [.store 10 1, .poll, .notify 0 7 11, .notify 2 9 11, .notify 3 7 11, .notify 3 7 11,
      .notify 1 7 11, .poll, .store 11 7, .poll, .poll, .poll]
    getPool s 11 = .ok [0, 1] ∧ s.subjectiveHead = some 11 ∧ s.pendingEvents = [] := by decide

/-- the hypotheses of `get_pool_never_panics` / `offered_spec` are satisfiable: the harness's plain chain
    (`dataHash h = 1000 + h`) is injective, and the history above only stores such headers when its
    hashes are renamed accordingly -/
example : InjP (fun h x => x = 1000 + h) := by
  intro h1 x1 h2 x2 e1 e2
  subst e1; subst e2
  omega

example : ∀ e ∈ [Event.store 10 1010, .poll, .notify 0 1011 11, .store 11 1011, .poll, .poll],
    EvP (fun h x => x = 1000 + h) e := by
  intro e he
  simp only [List.mem_cons, List.not_mem_nil, or_false] at he
  rcases he with rfl | rfl | rfl | rfl | rfl | rfl <;> simp [EvP]

example : getPool (run init [Event.store 10 1010, .poll, .notify 0 1011 11, .store 11 1011, .poll, .poll]) 11
    = .ok [0] := by decide

/-- the hypotheses of `poll_validation_blocks_other_hashes` are met by a concrete state: header 11 (hash 7)
    is in the store, its task is queued, peer 2 voted hash 9 -/
example :
    let s := run init [.store 10 1, .poll, .notify 0 7 11, .notify 2 9 11, .store 11 7]
    s.pendingEvents = [] ∧ (pollNext s.stored s.queue s.waiters).2.2 = some (.ok 11 7) ∧
    alGet s.hashPools 11 = some (.candidates [0, 2] [(7, [0]), (9, [2])]) ∧
    (poll s).1.pendingEvents = [.addPeers [0], .blockPeers [2]] := by decide

/-- `wrong_hash_blocked_history_partial` is not vacuous: a failure-free history in which peer 2's wrong
    vote is blocked at validation -/
example :
    let evs : List Event := [.store 10 1010, .poll, .notify 2 9 11, .notify 0 1011 11, .store 11 1011, .poll]
    (∀ e ∈ evs, NoFail e) ∧ (2, 9, 11) ∈ (run init evs).announced ∧
    alGet (run init evs).hashPools 11 = some (.validated 1011) ∧ (run init evs).blocked = [2] := by
  refine ⟨?_, by decide, by decide, by decide⟩
  intro e he
  simp only [List.mem_cons, List.not_mem_nil, or_false] at he
  rcases he with rfl | rfl | rfl | rfl | rfl | rfl <;> trivial

end Lumina.Props.C40

/-
  C30 — Header-ex wire framing round-trips under any chunking.   PROPERTY THEOREMS ONLY.

  Model: Lumina/Model/Framing.lean (HeaderCodec of node/src/p2p/header_ex.rs + the prost
  varint / derived message codec it calls).  Spec: Lumina/Spec/C30.lean.

  Hypotheses `ValidReq` / `ValidResp` only say that the fields are values of their Rust types
  (`u64`, `i32`, a `Vec<u8>` of fewer than 2^63 bytes — Rust's allocation limit).
-/
import Lumina.Proofs.Framing
import Lumina.Spec.C30
import Lumina.Gen.C30

namespace Lumina.Props.C30
open Lumina.Util Lumina.Model.Framing Lumina.Proofs.Framing Lumina.Gen.C30
open Lumina.Spec.C30

def obsOf {α} : Option α → Obs α
  | some v => .ok v
  | none => .err

/-- the limits the property quotes -/
theorem consts_eq : REQUEST_SIZE_LIMIT = 1024 ∧ RESPONSE_SIZE_LIMIT = 10 * 1024 * 1024 := by decide

/-- protobuf varint: every `u64`, in front of anything -/
theorem varint_roundtrip (v : Nat) (hv : v < 2 ^ 64) (rest : Bytes) :
    decodeVarint (encodeVarint v ++ rest) = some (v, rest) :=
  decode_encode_varint v hv rest

/-- message bodies: `decode (encode m) = m` for every request and every response -/
theorem body_roundtrip :
    (∀ r, ValidReq r → decodeRequest (encodeRequest r) = some r) ∧
    (∀ r, ValidResp r → decodeResponse (encodeResponse r) = some r) :=
  ⟨decode_encode_request, decode_encode_response⟩

/-- **any chunking**: whatever (positive) chunk sizes the stream delivers, `read_up_to` ends up with
    exactly the first `limit` bytes of the stream -/
theorem chunking_irrelevant (limit : Nat) (data : Bytes) (cuts : List Nat) (hc : ∀ c ∈ cuts, 0 < c) :
    readUpTo limit data cuts = data.take limit := by
  unfold readUpTo
  rw [readUpToAux_pos limit cuts [] data hc (by simp)]
  simp

/-- with ANY chunk schedule (zero-length reads = premature EOF included) the buffer is a prefix of
    the stream of at most `limit` bytes -/
theorem chunking_prefix (limit : Nat) (data : Bytes) (cuts : List Nat) :
    ∃ k, k ≤ limit ∧ readUpTo limit data cuts = data.take k := by
  obtain ⟨k, hk, he⟩ := readUpToAux_prefix limit cuts [] data
  exact ⟨k, by simpa using hk, by simpa [readUpTo] using he⟩

/-- (S9) **an I/O error never produces a wrong value**: when the reader's `fail`-th `read` call
    returns an error, `read_request` / `read_response` either fail or — that call is never made —
    return exactly what they return over the failure-free reader (so every statement below carries
    over: a value read is the value written) -/
theorem io_error_request (limit : Nat) (data : Bytes) (cuts : List Nat) (fail : Nat) :
    readRequestFail limit data cuts fail = none ∨
    readRequestFail limit data cuts fail = readRequest limit data cuts := by
  unfold readRequestFail readUpToFail readRequest readUpTo
  rcases readUpToFailAux_none_or limit fail cuts 0 [] data with h | h
  · left; simp [h]
  · right; simp [h]

theorem io_error_responses (limit : Nat) (data : Bytes) (cuts : List Nat) (fail : Nat) :
    readResponsesFail limit data cuts fail = none ∨
    readResponsesFail limit data cuts fail = readResponses limit data cuts := by
  unfold readResponsesFail readUpToFail readResponses readResponsesOf readUpTo
  rcases readUpToFailAux_none_or limit fail cuts 0 [] data with h | h
  · left; simp [h]
  · right; simp [h]

/-- **any request that fits the limit round-trips under any chunking** -/
theorem request_roundtrip (r : HeaderRequest) (hv : ValidReq r) (cuts : List Nat) (hc : ∀ c ∈ cuts, 0 < c) :
    specRoundTrip r (decide ((writeRequest r).length ≤ 1024))
      (obsOf (readRequest REQUEST_SIZE_LIMIT (writeRequest r) cuts)) = true := by
  unfold specRoundTrip
  by_cases hfit : (writeRequest r).length ≤ 1024
  · simp only [hfit, decide_true, Bool.not_true, Bool.false_or, beq_iff_eq]
    unfold readRequest
    rw [chunking_irrelevant _ _ _ hc, consts_eq.1, List.take_of_length_le hfit]
    unfold parseHeaderRequest writeRequest
    have := parseFrame_frame decodeRequest (encodeRequest r) [] (encodeRequest_length r hv)
    rw [List.append_nil] at this
    rw [this, decode_encode_request r hv]
    rfl
  · simp [hfit]

/-- **a truncated request yields an error**: every strict prefix, every limit, every chunk schedule -/
theorem request_truncation_errors (r : HeaderRequest) (hv : ValidReq r) (k : Nat)
    (hk : k < (writeRequest r).length) (limit : Nat) (cuts : List Nat) :
    specTruncated (obsOf (readRequest limit ((writeRequest r).take k) cuts)) = true := by
  obtain ⟨k', _, he⟩ := chunking_prefix limit ((writeRequest r).take k) cuts
  unfold readRequest parseHeaderRequest
  rw [he, List.take_take]
  unfold writeRequest at hk ⊢
  rw [parseFrame_frame_take decodeRequest (encodeRequest r) _ (encodeRequest_length r hv) (by omega)]
  rfl

/-- a request that does not fit the limit is an error (it is read as a strict prefix) -/
theorem request_over_limit_errors (r : HeaderRequest) (hv : ValidReq r) (limit : Nat)
    (hbig : limit < (writeRequest r).length) (cuts : List Nat) :
    readRequest limit (writeRequest r) cuts = none := by
  obtain ⟨k', hk', he⟩ := chunking_prefix limit (writeRequest r) cuts
  unfold readRequest parseHeaderRequest
  rw [he]
  unfold writeRequest at hbig ⊢
  rw [parseFrame_frame_take decodeRequest (encodeRequest r) _ (encodeRequest_length r hv) (by omega)]
  rfl

theorem valid_frames (rs : List HeaderResponse) (hv : ∀ r ∈ rs, ValidResp r) :
    ∀ r ∈ rs, decodeResponse (encodeResponse r) = some r ∧ (encodeResponse r).length < 2 ^ 64 :=
  fun r hr => ⟨decode_encode_response r (hv r hr), encodeResponse_length r (hv r hr)⟩

/-- FULL statement for response lists (as the property words it: *any* list that fits) -/
def ResponsesRoundTripFull : Prop :=
  ∀ (rs : List HeaderResponse) (cuts : List Nat), (∀ r ∈ rs, ValidResp r) → (∀ c ∈ cuts, 0 < c) →
    specRoundTrip rs (decide ((writeResponses rs).length ≤ 10 * 1024 * 1024))
      (obsOf (readResponses RESPONSE_SIZE_LIMIT (writeResponses rs) cuts)) = true

/-- **any NON-EMPTY list of responses that fits the limit round-trips under any chunking**.
    Partial: the empty list is excluded (see `responses_roundtrip_counterexample`). -/
theorem responses_roundtrip_partial (rs : List HeaderResponse) (cuts : List Nat) (hne : rs ≠ [])
    (hv : ∀ r ∈ rs, ValidResp r) (hc : ∀ c ∈ cuts, 0 < c) :
    specRoundTrip rs (decide ((writeResponses rs).length ≤ 10 * 1024 * 1024))
      (obsOf (readResponses RESPONSE_SIZE_LIMIT (writeResponses rs) cuts)) = true := by
  unfold specRoundTrip
  by_cases hfit : (writeResponses rs).length ≤ 10 * 1024 * 1024
  · simp only [hfit, decide_true, Bool.not_true, Bool.false_or, beq_iff_eq]
    unfold readResponses readResponsesOf
    rw [chunking_irrelevant _ _ _ hc, consts_eq.2, List.take_of_length_le hfit]
    have := parseFrames_wire encodeResponse decodeResponse rs (writeResponses rs).length []
      (valid_frames rs hv) (parseFrame_nil _) (wireOf_length_ge encodeResponse rs)
    rw [List.append_nil, ← writeResponses_eq] at this
    simp only [this]
    cases rs with
    | nil => exact absurd rfl hne
    | cons a t => rfl
  · simp [hfit]

/-- the empty response list is written as zero bytes and read back as an error -/
theorem responses_roundtrip_counterexample : ¬ ResponsesRoundTripFull := by
  intro h
  have := h [] [] (by simp) (by simp)
  revert this
  decide

/-- FULL statement: a truncated response stream yields an error -/
def ResponseTruncationFull : Prop :=
  ∀ (rs : List HeaderResponse) (k limit : Nat) (cuts : List Nat), (∀ r ∈ rs, ValidResp r) →
    k < (writeResponses rs).length →
    specTruncated (obsOf (readResponses limit ((writeResponses rs).take k) cuts)) = true

/-- lengths of the frames of a written response stream -/
def respFrameLens (rs : List HeaderResponse) : List Nat := frameLens encodeResponse rs

theorem respFrameLens_sum (rs : List HeaderResponse) : (respFrameLens rs).sum = (writeResponses rs).length := by
  rw [writeResponses_eq, wireOf_length]; rfl

/-- what a strict prefix of a written response stream reads as under ANY chunk schedule (premature EOF
    included) and any limit: if the reader got `m` bytes (`m ≤ min k limit`), exactly the responses whose
    frames lie completely within those `m` bytes — an error when not even the first one does -/
theorem response_truncation_any_schedule (rs : List HeaderResponse) (k limit : Nat) (cuts : List Nat)
    (hv : ∀ r ∈ rs, ValidResp r) (hk : k < (writeResponses rs).length) :
    ∃ m, m ≤ min k limit ∧
      readResponses limit ((writeResponses rs).take k) cuts =
        if completeCount (respFrameLens rs) m = 0 then none
        else some (rs.take (completeCount (respFrameLens rs) m)) := by
  obtain ⟨k', hk', he⟩ := chunking_prefix limit ((writeResponses rs).take k) cuts
  refine ⟨min k' k, by omega, ?_⟩
  unfold readResponses readResponsesOf
  rw [he, List.take_take, writeResponses_eq]
  rw [writeResponses_eq] at hk
  exact result_of_take encodeResponse decodeResponse rs (min k' k) (valid_frames rs hv) (by omega)

/-- **exactly the complete frames before the cut**: with chunks of positive size, the first `k` bytes of a
    written response stream (`k` < its length) read back as exactly the responses whose frames end within
    the first `min k limit` bytes; an error if there is none.  (`specTruncatedExact` ties the number of
    responses returned to the cut position through the frame lengths.) -/
theorem response_truncation_exact (rs : List HeaderResponse) (k limit : Nat) (cuts : List Nat)
    (hv : ∀ r ∈ rs, ValidResp r) (hk : k < (writeResponses rs).length) (hc : ∀ c ∈ cuts, 0 < c) :
    specTruncatedExact (respFrameLens rs) rs (min k limit)
      (obsOf (readResponses limit ((writeResponses rs).take k) cuts)) = true := by
  have h2 : readResponses limit ((writeResponses rs).take k) cuts =
      if completeCount (respFrameLens rs) (min limit k) = 0 then none
      else some (rs.take (completeCount (respFrameLens rs) (min limit k))) := by
    unfold readResponses readResponsesOf
    rw [chunking_irrelevant _ _ _ hc, List.take_take, writeResponses_eq]
    rw [writeResponses_eq] at hk
    exact result_of_take encodeResponse decodeResponse rs (min limit k) (valid_frames rs hv) (by omega)
  rw [h2, Nat.min_comm k limit]
  unfold specTruncatedExact
  simp only
  split <;> simp [obsOf]

/-- **a cut inside the first frame is an error** — the part of "truncated streams yield an error" that
    holds: any list, any limit, any chunk schedule -/
theorem response_truncation_first_frame (r : HeaderResponse) (rest : List HeaderResponse) (k limit : Nat)
    (cuts : List Nat) (hv : ∀ x ∈ r :: rest, ValidResp x)
    (hk : k < (lengthDelimited (encodeResponse r)).length) :
    readResponses limit ((writeResponses (r :: rest)).take k) cuts = none := by
  have hk' : k < (writeResponses (r :: rest)).length := by
    rw [writeResponses_eq, wireOf_cons, List.length_append]; omega
  obtain ⟨m, hm, he⟩ := response_truncation_any_schedule (r :: rest) k limit cuts hv hk'
  rw [he]
  have : completeCount (respFrameLens (r :: rest)) m = 0 := by
    simp only [respFrameLens, frameLens, List.map_cons, completeCount]
    rw [if_neg (by omega)]
  simp [this]

/-- **truncated response streams**: an error, or a non-empty strict prefix of the list that was
    written — never a value that was not sent.  Partial: the property demands an error always. -/
theorem response_truncation_partial (rs : List HeaderResponse) (k limit : Nat) (cuts : List Nat)
    (hv : ∀ r ∈ rs, ValidResp r) (hk : k < (writeResponses rs).length) :
    specTruncatedWeak rs (obsOf (readResponses limit ((writeResponses rs).take k) cuts)) = true := by
  obtain ⟨m, hm, he⟩ := response_truncation_any_schedule rs k limit cuts hv hk
  rw [he]
  have hj : completeCount (respFrameLens rs) m < rs.length := by
    rw [writeResponses_eq] at hk
    exact completeCount_lt encodeResponse rs m (by omega)
  by_cases hj0 : completeCount (respFrameLens rs) m = 0
  · simp [hj0, obsOf, specTruncatedWeak]
  · simp only [hj0, ↓reduceIte, obsOf, specTruncatedWeak, List.length_take]
    have : min (completeCount (respFrameLens rs) m) rs.length = completeCount (respFrameLens rs) m := by omega
    simp [this, hj]
    omega

/-- two `{status: 1}` responses cut after the first frame read back as the one-element list -/
theorem response_truncation_counterexample : ¬ ResponseTruncationFull := by
  intro h
  have := h [⟨[], 1⟩, ⟨[], 1⟩] 3 100 [] (by intro r hr; simp at hr; subst hr; exact ⟨by simp, by decide, by decide⟩) (by decide)
  revert this
  decide

/-- a response list that does NOT fit the limit, read with chunks of positive size: exactly the responses
    whose frames end within the first `limit` bytes (an error if not even the first one does) -/
theorem responses_over_limit_exact (rs : List HeaderResponse) (limit : Nat) (cuts : List Nat)
    (hv : ∀ r ∈ rs, ValidResp r) (hbig : limit < (writeResponses rs).length) (hc : ∀ c ∈ cuts, 0 < c) :
    specTruncatedExact (respFrameLens rs) rs limit (obsOf (readResponses limit (writeResponses rs) cuts)) = true := by
  have h2 : readResponses limit (writeResponses rs) cuts =
      if completeCount (respFrameLens rs) limit = 0 then none
      else some (rs.take (completeCount (respFrameLens rs) limit)) := by
    unfold readResponses readResponsesOf
    rw [chunking_irrelevant _ _ _ hc, writeResponses_eq]
    rw [writeResponses_eq] at hbig
    exact result_of_take encodeResponse decodeResponse rs limit (valid_frames rs hv) hbig
  rw [h2]
  unfold specTruncatedExact
  simp only
  split <;> simp [obsOf]

/-- … and under any chunk schedule never a wrong value: an error or a strict prefix of the list -/
theorem responses_over_limit (rs : List HeaderResponse) (limit : Nat) (cuts : List Nat)
    (hv : ∀ r ∈ rs, ValidResp r) (hbig : limit < (writeResponses rs).length) :
    specTruncatedWeak rs (obsOf (readResponses limit (writeResponses rs) cuts)) = true := by
  obtain ⟨k', hk', he⟩ := chunking_prefix limit (writeResponses rs) cuts
  have hex : readResponses limit (writeResponses rs) cuts =
      if completeCount (respFrameLens rs) k' = 0 then none else some (rs.take (completeCount (respFrameLens rs) k')) := by
    unfold readResponses readResponsesOf
    rw [he, writeResponses_eq]
    rw [writeResponses_eq] at hbig
    exact result_of_take encodeResponse decodeResponse rs k' (valid_frames rs hv) (by omega)
  rw [hex]
  have hj : completeCount (respFrameLens rs) k' < rs.length := by
    rw [writeResponses_eq] at hbig
    exact completeCount_lt encodeResponse rs k' (by omega)
  by_cases hj0 : completeCount (respFrameLens rs) k' = 0
  · simp [hj0, obsOf, specTruncatedWeak]
  · simp only [hj0, ↓reduceIte, obsOf, specTruncatedWeak, List.length_take]
    have : min (completeCount (respFrameLens rs) k') rs.length = completeCount (respFrameLens rs) k' := by omega
    simp [this, hj]
    omega

/-- the model's length delimiter is the textbook base-128 number the spec describes -/
theorem delimiter_is_textbook (s : Bytes) :
    parseDelimiter s = (specDelimiter s).map (fun p => (p.1, s.drop p.2)) :=
  parseDelimiter_eq_spec s

/-- **garbage request streams yield an error**: whatever the bytes, the limit and the chunking, a
    request is returned only if the stream begins with a well-delimited frame -/
theorem garbage_request (limit : Nat) (data : Bytes) (cuts : List Nat) :
    specGarbage data (readRequest limit data cuts).isSome = true := by
  unfold specGarbage
  cases hr : readRequest limit data cuts with
  | none => simp
  | some m =>
    simp only [Option.isSome_some, Bool.not_true, Bool.false_or]
    obtain ⟨k, _, he⟩ := chunking_prefix limit data cuts
    unfold readRequest parseHeaderRequest at hr
    rw [he] at hr
    have hs : (parseFrame decodeRequest (data.take k)).isSome = true := by
      cases hp : parseFrame decodeRequest (data.take k) with
      | none => simp [hp] at hr
      | some _ => rfl
    have := parseFrame_some_wellDelimited decodeRequest (data.take k) (data.drop k) hs
    rwa [List.take_append_drop] at this

/-- **garbage response streams yield an error** -/
theorem garbage_responses (limit : Nat) (data : Bytes) (cuts : List Nat) :
    specGarbage data (readResponses limit data cuts).isSome = true := by
  unfold specGarbage
  cases hr : readResponses limit data cuts with
  | none => simp
  | some m =>
    simp only [Option.isSome_some, Bool.not_true, Bool.false_or]
    obtain ⟨k, _, he⟩ := chunking_prefix limit data cuts
    unfold readResponses readResponsesOf at hr
    rw [he] at hr
    have hs : (parseFrame decodeResponse (data.take k)).isSome = true := by
      cases hp : parseFrame decodeResponse (data.take k) with
      | none =>
        simp only [parseFrames_of_none decodeResponse _ _ hp] at hr
        simp at hr
      | some _ => rfl
    have := parseFrame_some_wellDelimited decodeResponse (data.take k) (data.drop k) hs
    rwa [List.take_append_drop] at this

/-- non-vacuity: concrete valid messages; a concrete strict-prefix read -/
example : ValidReq ⟨64, .hash (List.replicate 32 7)⟩ ∧ ValidResp ⟨[1, 2, 3], 1⟩ ∧ ValidResp ⟨[], -1⟩ := by
  refine ⟨⟨by decide, by simp⟩, ⟨by simp, by decide, by decide⟩, ⟨by simp, by decide, by decide⟩⟩
example : readResponses 100 ((writeResponses [⟨[9], 1⟩, ⟨[8], 2⟩]).take 7) [1, 2] = some [⟨[9], 1⟩] := by decide
example : respFrameLens [⟨[9], 1⟩, ⟨[8], 2⟩] = [6, 6] ∧ completeCount [6, 6] 7 = 1 ∧ completeCount [6, 6] 5 = 0 := by decide

/-- (S9) the error in the middle of a frame is an error; after the frame was read completely and the
    buffer… is not full, the read that would see EOF fails: still an error; a failing call that is
    never made (buffer full after 2 bytes) changes nothing -/
example : readRequestFail 1024 (writeRequest ⟨7, .origin 5⟩) [2, 1] 1 = none := by decide
example : readRequestFail 1024 (writeRequest ⟨7, .origin 5⟩) [] 1 = none := by decide
example : readRequestFail 1024 (writeRequest ⟨7, .origin 5⟩) [] 2 = some ⟨7, .origin 5⟩ := by decide
example : readUpToFail 2 [1, 2, 3] [2] 1 = some [1, 2] := by decide

end Lumina.Props.C30

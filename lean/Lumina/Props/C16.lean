/-
  C16 — Decoding network input never panics.

  One theorem per decoder: for ALL raw (post-`prost`) inputs the model's outcome is a value or an error,
  never `panic` — stated through the property's checker `Spec.C16.specOK` on the observation of the outcome.
  No bound on the number of siblings, shares, rows, the indices, the square size.

  The code as it was before this property's `fix:` commits is FALSE for five of them; those are the
  `…_counterexample` theorems (concrete witnesses, each replayed against the real code by the harness).

  Models: `Lumina.Model.Decoders` (+ group D's `Lumina.Model.Nmt`, group F2's `Lumina.Model.Framing`).
  Lemmas: `Lumina.Proofs.Decoders{Order,Tree,Walk,Main,Rows}`.
-/
import Lumina.Proofs.DecodersRows
import Lumina.Spec.C16
import Lumina.Gen.C16
import Lumina.Proofs.DecodersHeader

namespace Lumina.Props.C16
open Lumina.Util Lumina.Model.Eds Lumina.Model.Decoders Lumina.Proofs.Decoders
open Lumina.Model.Nmt hiding validateShape
open Lumina.Spec.C16 (Obs specOK)

/-- what an outcome looks like from outside -/
def obs {α} : Out α → Obs
  | .ok _ => .value
  | .err => .error
  | .panic _ => .panic

/-- the property for one model outcome -/
def NoPanic {α} (o : Out α) : Prop := specOK (obs o) = true

theorem noPanic_iff {α} (o : Out α) : NoPanic o ↔ o.isPanic = false := by
  cases o <;> simp [NoPanic, obs, specOK, Out.isPanic]

/-! ## constants the models quote, tied to the source -/

theorem ns_size_tied : Lumina.Gen.C16.NS_SIZE = NS_SIZE := rfl
theorem share_size_tied : Lumina.Gen.C16.SHARE_SIZE = SHARE_SIZE := rfl
theorem hash_size_tied : Lumina.Gen.C16.HASH_SIZE = HASH_LEN := rfl

/-! ## NMT proofs (`types/src/nmt/namespace_proof.rs`) and the nmt-rs paths behind them -/

/-- `TryFrom<RawProof> for NamespaceProof` -/
theorem no_panic_proof_from_raw (rp : RawProof) : NoPanic (proofFromRaw rp) :=
  (noPanic_iff _).mpr (proofFromRaw_noPanic rp)

/-- decoded proofs have `u32` indices (the hypothesis of the two theorems below is what Rust's types give) -/
theorem proof_from_raw_u32 (rp : RawProof) (p : NsProof) (h : proofFromRaw rp = .ok p) : U32 p :=
  proofFromRaw_u32 h

/-- lumina's `NamespaceProof::verify_range`: for every proof (any number of siblings, any range), root, leaves
    and namespace, nmt-rs behind the shape validation never panics — neither the `hash_nodes` order panic, nor
    an index out of bounds, nor the `leaves.len() + start - 1` underflow -/
theorem no_panic_verify_range (H : HashFn) (p : NsProof) (hu : U32 p) (root : NsHash) (leaves : List Bytes) (ns : Bytes) :
    NoPanic (ofNmt (safeVerifyRange H p root leaves ns)) :=
  (noPanic_iff _).mpr (ofNmt_noPanic (safeVerifyRange_ne_panic H p hu root leaves ns))

example : U32 ⟨3, 4, [], true, false, none⟩ := ⟨by decide, by decide⟩

/-- lumina's `NamespaceProof::verify_complete_namespace` (presence and absence proofs) -/
theorem no_panic_verify_complete_namespace (H : HashFn) (p : NsProof) (hu : U32 p) (root : NsHash)
    (leaves : List Bytes) (ns : Bytes) : NoPanic (ofNmt (safeVerifyCompleteNamespace H p root leaves ns)) :=
  (noPanic_iff _).mpr (ofNmt_noPanic (safeVerifyCompleteNamespace_ne_panic H p hu root leaves ns))

/-- nmt-rs `compute_tree_size` is correct: the last proven leaf has exactly the given number of right
    siblings in the tree size it returns (the arithmetic fact the no-panic proofs rest on) -/
theorem compute_tree_size_correct (nr e T : Nat) (he : e < 2 ^ 32) (h : computeTreeSize nr e = .ok T) :
    e < T ∧ rsib T e = nr :=
  ⟨computeTreeSize_gt h, computeTreeSize_rsib he h⟩

/-! ## Sample (`types/src/sample.rs`) -/

theorem no_panic_sample_from_raw (row col : Nat) (raw : RawSample) : NoPanic (sampleFromRaw row col raw) :=
  (noPanic_iff _).mpr (sampleFromRaw_noPanic row col raw)

theorem no_panic_sample_verify (H : HashFn) (s : Lumina.Model.Sample.Sample) (hu : U32 s.proof) (row col : Nat) (dah : Dah) :
    NoPanic (sampleVerify H s row col dah) :=
  (noPanic_iff _).mpr (sampleVerify_noPanic H s hu row col dah)

/-- decode, then verify (what the shrex codec and the bitswap multihasher do): every raw sample, id and DAH -/
theorem no_panic_sample (H : HashFn) (row col : Nat) (raw : RawSample) (dah : Dah) :
    NoPanic ((sampleFromRaw row col raw).bind fun s => sampleVerify H s row col dah) := by
  rw [noPanic_iff]
  apply bind_noPanic (sampleFromRaw_noPanic row col raw)
  intro s hs
  exact sampleVerify_noPanic H s (sampleFromRaw_u32 hs) row col dah

def witnessNode (a b : Bytes) : NsHash := ⟨a, b, []⟩
def witnessHash : HashFn := fun _ => []

/-- DESIGN #5a: before the fix a sample proof with 64 siblings overflows `1 << siblings.len()` -/
theorem sample_from_raw_unfixed_counterexample :
    ∃ raw : RawSample, (sampleFromRawUnfixed 0 0 raw).site? = some .shl ∧ (sampleFromRaw 0 0 raw).isErr = true :=
  ⟨{ share := some [], proof := some ⟨0, 1, List.replicate 64 (List.replicate 90 0), [], true⟩, proofType := 0 },
   by decide, by decide⟩

set_option maxRecDepth 100000 in
/-- DESIGN #5c: before the fix a right sibling whose namespace range lies below the leaf's namespace makes
    nmt-rs `hash_nodes` panic inside `Sample::verify` -/
theorem sample_verify_unfixed_counterexample :
    ∃ (s : Lumina.Model.Sample.Sample) (dah : Dah),
      (sampleVerifyUnfixed witnessHash s 0 0 dah).site? = some .nmt ∧ (sampleVerify witnessHash s 0 0 dah).isErr = true :=
  ⟨⟨.row, ⟨List.replicate 29 1, false⟩,
      ⟨0, 1, [witnessNode (List.replicate 29 0) (List.replicate 29 0)], true, false, none⟩⟩,
   ⟨[witnessNode (List.replicate 29 0) (List.replicate 29 0)], [witnessNode (List.replicate 29 0) (List.replicate 29 0)]⟩,
   by decide, by decide⟩

/-! ## Row (`types/src/row.rs`) and leopard's entry guards -/

/-- for every codec behaviour (leopard's transforms are a parameter), row index and raw row -/
theorem no_panic_row_from_raw (c : Codec) (rowIdx : Nat) (raw : RawRow) : NoPanic (rowFromRaw c rowIdx raw) :=
  (noPanic_iff _).mpr (rowFromRaw_noPanic c rowIdx raw)

/-- `Row::verify`: rebuilding the tree from pushed (hence ordered) leaves never reaches the `hash_nodes` panic -/
theorem no_panic_row_verify (H : HashFn) (r : Row) (rowIdx : Nat) (dah : Dah) : NoPanic (rowVerify H r rowIdx dah) :=
  (noPanic_iff _).mpr (rowVerify_noPanic H r rowIdx dah)

theorem no_panic_row (H : HashFn) (c : Codec) (rowIdx : Nat) (raw : RawRow) (dah : Dah) :
    NoPanic ((rowFromRaw c rowIdx raw).bind fun r => rowVerify H r rowIdx dah) := by
  rw [noPanic_iff]
  exact bind_noPanic (rowFromRaw_noPanic c rowIdx raw) (fun r _ => rowVerify_noPanic H r rowIdx dah)

/-- DESIGN #5b: before the fix an empty left half reaches leopard's `ceil_pow2(0)` -/
theorem row_from_raw_unfixed_counterexample (c : Codec) :
    (rowFromRawUnfixed c 0 ⟨[], 0⟩).site? = some .leopard ∧ (rowFromRaw c 0 ⟨[], 0⟩).isErr = true :=
  ⟨rfl, rfl⟩

/-- leopard `encode` is only ever asked for a non-zero number of parity shards -/
theorem no_panic_leopard_encode (c : Codec) (shards : List Bytes) (k : Nat) (h1 : k ≤ shards.length)
    (h2 : shards.length ≠ k) : NoPanic (leoEncode c shards k) :=
  (noPanic_iff _).mpr (leoEncode_noPanic c shards k h1 h2)

example : (2 : Nat) ≤ ([[], [], [], []] : List Bytes).length ∧ ([[], [], [], []] : List Bytes).length ≠ 2 := by decide

theorem no_panic_leopard_reconstruct (c : Codec) (shards : List Bytes) (k : Nat) (h1 : k ≤ shards.length) :
    NoPanic (leoReconstruct c shards k) :=
  (noPanic_iff _).mpr (leoReconstruct_noPanic c shards k h1)

/-! ## RowNamespaceData, NamespaceData -/

theorem no_panic_rnd_from_raw (ns : Bytes) (raw : RawRnd) : NoPanic (rndFromRaw ns raw) :=
  (noPanic_iff _).mpr (rndFromRaw_noPanic ns raw)

theorem no_panic_rnd_verify (H : HashFn) (d : Rnd) (hu : U32 d.proof) (ns : Bytes) (row : Nat) (dah : Dah) :
    NoPanic (rndVerify H d ns row dah) :=
  (noPanic_iff _).mpr (rndVerify_noPanic H d hu ns row dah)

theorem no_panic_rnd (H : HashFn) (ns : Bytes) (row : Nat) (raw : RawRnd) (dah : Dah) :
    NoPanic ((rndFromRaw ns raw).bind fun d => rndVerify H d ns row dah) := by
  rw [noPanic_iff]
  exact bind_noPanic (rndFromRaw_noPanic ns raw) (fun d hd => rndVerify_noPanic H d (rndFromRaw_u32 hd) ns row dah)

set_option maxRecDepth 100000 in
/-- DESIGN #5d: before the fix an absence proof whose start index needs a left sibling that is not there
    indexes `siblings[popcount(start) - 1]` out of bounds -/
theorem rnd_verify_unfixed_counterexample :
    ∃ (d : Rnd) (ns : Bytes) (dah : Dah),
      (rndVerifyUnfixed witnessHash d ns 0 dah).site? = some .nmt ∧ (rndVerify witnessHash d ns 0 dah).isErr = true :=
  ⟨⟨⟨1, 2, [], true, true, some (witnessNode (List.replicate 29 9) (List.replicate 29 9))⟩, []⟩,
   List.replicate 29 1,
   ⟨[witnessNode (List.replicate 29 0) (List.replicate 29 255)], [witnessNode (List.replicate 29 0) (List.replicate 29 0)]⟩,
   by decide, by decide⟩

theorem no_panic_nd_from_raw (ns : Bytes) (rows : List RawRnd) : NoPanic (ndFromRaw ns rows) :=
  (noPanic_iff _).mpr (ndFromRaw_noPanic ns rows)

/-- `NamespaceData::verify` against a DAH with at most `u16::MAX` row roots (what header validation
    guarantees; `square_width()` has an `expect` otherwise) -/
theorem no_panic_nd_verify (H : HashFn) (rows : List Rnd) (hu : ∀ d ∈ rows, U32 d.proof) (ns : Bytes) (dah : Dah)
    (hw : dah.rowRoots.length ≤ 65535) : NoPanic (ndVerify H rows ns dah) :=
  (noPanic_iff _).mpr (ndVerify_noPanic H rows hu ns dah hw)

theorem no_panic_nd (H : HashFn) (ns : Bytes) (raws : List RawRnd) (dah : Dah) (hw : dah.rowRoots.length ≤ 65535) :
    NoPanic ((ndFromRaw ns raws).bind fun rows => ndVerify H rows ns dah) := by
  rw [noPanic_iff]
  exact bind_noPanic (ndFromRaw_noPanic ns raws) (fun rows hr => ndVerify_noPanic H rows (ndFromRaw_u32 hr) ns dah hw)

example : (⟨[witnessNode [] []], []⟩ : Dah).rowRoots.length ≤ 65535 := by decide

/-! ## BadEncodingFraudProof (`types/src/byzantine.rs`) -/

theorem no_panic_befp_from_raw (raw : RawBefp) : NoPanic (befpFromRaw raw) :=
  (noPanic_iff _).mpr (befpFromRaw_noPanic raw)

/-- full statement: decoding a fraud proof and validating it against ANY header (height, DAH of at most
    `u16::MAX` roots) never panics, whatever leopard's transforms compute (as long as they keep the number
    and the size of the shards) — for the code with the `unwrap` replaced by "befp is legit" -/
theorem no_panic_befp_validate (H : HashFn) (c : Codec) (hc : CodecShape c) (raw : RawBefp) (hh : Nat) (dah : Dah)
    (hw : dah.rowRoots.length ≤ 65535) :
    NoPanic ((befpFromRaw raw).bind fun p => befpValidate H c p hh dah) := by
  rw [noPanic_iff]
  apply bind_noPanic (befpFromRaw_noPanic raw)
  intro p hp
  unfold befpValidate befpValidateWith
  apply bind_noPanic (befpPrefix_noPanic H true true p (befpFromRaw_u32 hp) hh dah hw)
  intro rk hrk
  obtain ⟨h1, h2, h3, h4⟩ := befpPrefix_ok (rebuilt := rk.1) (k := rk.2) hrk
  exact befpSuffix_noPanic H c hc p dah rk.1 rk.2 h1 h2 h3 h4

/-- a codec that meets the shape assumption -/
example : CodecShape { enc := fun s _ => s.map (fun _ => List.replicate (shardSize s) 0),
                       recon := fun s _ => s } :=
  ⟨by intro s k; simp, by intro s k x hx; simp at hx; obtain ⟨_, _, rfl⟩ := hx; simp, by intro s k; rfl⟩

/-- the part that holds of the code while the `unwrap` is still there: the ONLY place where decode + validate
    of a fraud proof can panic is `Namespace::from_raw(..).unwrap()` on a rebuilt share -/
theorem no_panic_befp_validate_partial (H : HashFn) (c : Codec) (hc : CodecShape c) (raw : RawBefp) (hh : Nat)
    (dah : Dah) (hw : dah.rowRoots.length ≤ 65535) (t : Site)
    (h : ((befpFromRaw raw).bind fun p => befpValidateNmtFixed H c p hh dah) = .panic t) : t = .befpUnwrap := by
  cases hp : befpFromRaw raw with
  | panic s => have := befpFromRaw_noPanic raw; rw [hp] at this; cases this
  | err => rw [hp] at h; cases h
  | ok p =>
    rw [hp] at h
    simp only [Out.bind] at h
    unfold befpValidateNmtFixed befpValidateWith at h
    cases hpre : befpPrefix (safeVerifyRange H) false false p hh dah with
    | panic s => have := befpPrefix_noPanic H false false p (befpFromRaw_u32 hp) hh dah hw; rw [hpre] at this; cases this
    | err => rw [hpre] at h; cases h
    | ok rk =>
      rw [hpre] at h
      simp only [Out.bind] at h
      obtain ⟨h1, h2, h3, h4⟩ := befpPrefix_ok (rebuilt := rk.1) (k := rk.2) hpre
      exact (befpSuffix_sites false H c hc p dah rk.1 rk.2 h1 h2 h3 h4 t h).2

def witnessShare : Bytes := 49 :: List.replicate 63 0
def witnessMax : Bytes := List.replicate 29 255
/-- a "parity" shard of the given size whose first byte is not a namespace version -/
def witnessShard (n : Nat) : Bytes := witnessShare.take n ++ List.replicate (n - 64) 0

theorem witnessShard_length (n : Nat) : (witnessShard n).length = n := by
  unfold witnessShard witnessShare
  simp only [List.length_append, List.length_take, List.length_cons, List.length_replicate]
  omega

set_option maxRecDepth 100000 in
/-- DESIGN #2b: a share that does not start with a valid namespace at a data position of the rebuilt axis
    (here: a parity share, proven with its honest parity-namespace proof) reaches the `unwrap` -/
theorem befp_validate_unwrap_counterexample :
    ∃ (c : Codec) (p : Befp) (dah : Dah), CodecShape c ∧
      (befpValidateNmtFixed witnessHash c p 7 dah).site? = some .befpUnwrap ∧
      (befpValidate witnessHash c p 7 dah).site? = none :=
  ⟨{ enc := fun s _ => s.map (fun _ => witnessShard (shardSize s)), recon := fun s _ => s.map (fun _ => witnessShare) },
   ⟨7, [some ⟨witnessMax, witnessShare, ⟨0, 1, [witnessNode witnessMax witnessMax], true, false, none⟩, .row⟩, none], 0, .row⟩,
   ⟨[witnessNode witnessMax witnessMax, witnessNode witnessMax witnessMax],
    [witnessNode witnessMax witnessMax, witnessNode witnessMax witnessMax]⟩,
   ⟨by intro s k; simp,
    by intro s k x hx; simp only [List.mem_map] at hx; obtain ⟨_, _, rfl⟩ := hx; exact witnessShard_length _,
    by intro s k; simp⟩,
   by decide, by decide⟩

/-! ## header-ex framing, shrex -/

theorem hxParseFrame_noPanic {α} (dec : Bytes → Option α) (buf : Bytes) : (hxParseFrame dec buf).isPanic = false := by
  unfold hxParseFrame
  cases Lumina.Model.Framing.parseDelimiter buf with
  | none => rfl
  | some p =>
    obtain ⟨len, rest⟩ := p
    simp only
    by_cases h1 : rest.length < len
    · simp [h1, Out.isPanic]
    · have h2 : ¬ len > rest.length := by omega
      simp only [h1, h2, ↓reduceIte]
      split <;> rfl

/-- `parse_header_request`: for every byte string -/
theorem no_panic_hx_parse_request (buf : Bytes) : NoPanic (hxParseRequest buf) := by
  rw [noPanic_iff]
  unfold hxParseRequest
  apply bind_noPanic (hxParseFrame_noPanic _ _)
  intro r _
  split <;> rfl

theorem hxParseFrames_noPanic {α} (dec : Bytes → Option α) : ∀ (fuel : Nat) (buf : Bytes),
    (hxParseFrames dec fuel buf).isPanic = false := by
  intro fuel
  induction fuel with
  | zero => intro _; rfl
  | succ f ih =>
    intro buf
    unfold hxParseFrames
    apply bind_noPanic (hxParseFrame_noPanic _ _)
    intro r _
    split
    · rfl
    · apply bind_noPanic (ih _)
      intro _ _; rfl

/-- the `parse_header_response` loop of `read_response`: for every byte string -/
theorem no_panic_hx_read_responses (buf : Bytes) : NoPanic (hxReadResponses buf) := by
  rw [noPanic_iff]
  unfold hxReadResponses
  apply bind_noPanic (hxParseFrames_noPanic _ _ _)
  intro ms _
  split <;> rfl

/-- `EdsNotification::deserialize_and_validate` after prost -/
theorem no_panic_eds_notification (emptyHash : Bytes) (height : Nat) (dataHash : Bytes) :
    NoPanic (edsNotification emptyHash height dataHash) := by
  rw [noPanic_iff]
  unfold edsNotification
  repeat' split
  all_goals rfl

/-- shrex EDS response: the length guards of `decode_and_verify` / `from_ods` keep leopard away from an
    empty axis — the first `encode` call (rows of `k` data shares) never panics -/
theorem no_panic_eds_response_first_encode (c : Codec) (rawLen : Nat) (row : List Bytes)
    (hrow : ∀ k, edsResponseGuards rawLen = .ok k → row.length = k) :
    NoPanic (edsResponseFirstEncode c rawLen row) := by
  rw [noPanic_iff]
  unfold edsResponseFirstEncode
  have hcases : edsResponseGuards rawLen = .err ∨ ∃ k, k ≠ 0 ∧ edsResponseGuards rawLen = .ok k := by
    unfold edsResponseGuards
    by_cases h0 : rawLen = 0
    · simp [h0]
    · by_cases h1 : rawLen % SHARE_SIZE ≠ 0
      · simp [h0, h1]
      · simp only [h0, h1, ↓reduceIte]
        by_cases h2 : isqrt (rawLen / SHARE_SIZE) * isqrt (rawLen / SHARE_SIZE) ≠ rawLen / SHARE_SIZE
        · simp [h2]
        · simp only [h2, ↓reduceIte]
          right
          refine ⟨_, ?_, rfl⟩
          intro e
          rw [e] at h2
          have hs : SHARE_SIZE = 512 := rfl
          rw [hs] at h1 h2
          simp only [ne_eq, Decidable.not_not] at h1 h2
          omega
  rcases hcases with hg | ⟨k, hk0, hg⟩
  · rw [hg]; rfl
  · rw [hg]
    simp only [Out.bind]
    have hk := hrow k hg
    apply leoEncode_noPanic
    · rw [List.length_append, List.length_replicate, hk]; omega
    · rw [List.length_append, List.length_replicate, hk]; omega

/-! ## ExtendedHeader -/

open Lumina.Model.HeaderVerify in
/-- PARTIAL: `ExtendedHeader::validate` (what `TryFrom<RawExtendedHeader>` / `decode_and_validate` run after the
    third-party conversions), in group E's field-level model that C01 and the `ehv` ops of this property tie to the
    real code: for every header, commit, DAH, hash and signature oracle and every set of constants the outcome is
    never a panic — PROVIDED the validator set is as tendermint builds it (`total` = sum of the powers ≤
    `MAX_TOTAL_VOTING_POWER`; the hypothesis `wf`).  The one arithmetic step of lumina's part, the `u64` tally of
    `verify_commit_light`, then cannot overflow (`verifyCommitLight_ne_panic`, the same fact as C03 `light_no_panic`).  Without the hypothesis the statement is false
    (C03 has the overflow witness for a hand-built set), hence `_partial`; the conversions themselves (tendermint,
    prost) are assumed panic-free and only fuzzed (`eh` ops). -/
theorem no_panic_extended_header_validate_partial {S : Type} (P : Prims S) (c : Consts) (eh : ExtHeader S)
    (hwf : eh.valset.toValSet.wf = true) : validate P c eh ≠ .panic :=
  validate_ne_panic P c eh hwf

/-- a validator set that meets the hypothesis -/
example : (⟨[⟨[1], 5⟩, ⟨[2], 7⟩], 12, true⟩ : Lumina.Model.Commit.ValSet).wf = true := by decide

end Lumina.Props.C16

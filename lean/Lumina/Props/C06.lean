/-
  C06 — Namespace data is sound and complete.   PROPERTY THEOREMS ONLY.

  Model: `Lumina/Model/NsData.lean` (`rowVerify` = `RowNamespaceData::verify`, `verify` = `NamespaceData::verify`,
  `getNamespaceData` = `ExtendedDataSquare::get_namespace_data`) over the nmt-rs model (`verify_complete_namespace`
  with presence and absence proofs, completeness check, `compute_tree_size`, lumina's `validate_shape` wrapper).
  Spec: `Lumina/Spec/C06.lean` (brute-force scan of the square; model-free).
  Soundness is proved at full strength under the idealised hash (`HashOK`) and in "sound or explicit collision" form.
  Completeness (`FullCompleteness`) is proved in full (`nsdata_complete`), on top of the multi-leaf range-proof
  completeness of `Proofs/NmtMulti*.lean`.
-/
import Lumina.Proofs.NsData
import Lumina.Proofs.NmtMultiNsData
import Lumina.Props.C04
import Lumina.Gen.C06

namespace Lumina.Props.C06
open Lumina.Util Lumina.Model.Nmt Lumina.Model.Eds Lumina.Model.NsData
open Lumina.Proofs.Nmt Lumina.Proofs.NmtRange Lumina.Proofs.Eds Lumina.Proofs.Sample Lumina.Proofs.NsData
open Lumina.Spec.C06 (specVerify specRow specHonest expected rowCovers rowShares)

/-- the sizes the model uses are the ones in the current source tree -/
theorem consts_eq :
    Lumina.Gen.C06.NS_SIZE = 29 ∧ Lumina.Gen.C06.NS_SIZE = Lumina.Model.Nmt.NS_SIZE ∧
    Lumina.Gen.C06.HASH_SIZE = Lumina.Model.Nmt.HASH_LEN ∧ Lumina.Gen.C06.SHARE_SIZE = Lumina.Model.Eds.SHARE_SIZE := by
  decide

/-- **Soundness of `NamespaceData::verify`** — every square (any width), its DAH, every 29-byte namespace, every list of
    rows with any proofs (presence or absence, any range, any siblings, any flags): accepted ⇒ the rows are, in row
    order, exactly the rows whose root range covers the namespace, each holding exactly the namespace's shares of that
    row (no shares where the row has none).  Hypotheses: idealised hash; quadrant parity flags and share sizes
    (`SquareShape`, established by `ExtendedDataSquare::new`); sizes guaranteed by the Rust types (`ProofOK`). -/
theorem nsdata_sound {H : HashFn} (hk : HashOK H) {e : Eds} (hsq : SquareShape e) {dah : Dah}
    (hd : Dah.ofEds H e = .ok dah) {ns : Bytes} (hns : ns.length = NS_SIZE)
    (rows : List RowNsData) (hp : ∀ d ∈ rows, ProofOK d.proof) :
    specVerify e.width (rawSquare e) ns (rows.map (fun d => d.shares.map Share.data))
      (accepted (verify H rows ns dah)) = true := by
  cases hv : verify H rows ns dah with
  | error er => simp [accepted, specVerify]
  | ok u =>
    have := verify_sound_model hk hd hsq.size hns hp hv
    simp [accepted, specVerify, this, expected_eq hk hsq hd hns]

/-- soundness in reduction form (satisfiable by real hashes): sound, or the hash has an explicit collision -/
theorem nsdata_sound_or_collision {H : HashFn} (hl : HashLen H) {e : Eds} (hsq : SquareShape e) {dah : Dah}
    (hd : Dah.ofEds H e = .ok dah) {ns : Bytes} (hns : ns.length = NS_SIZE)
    (rows : List RowNsData) (hp : ∀ d ∈ rows, ProofOK d.proof) :
    specVerify e.width (rawSquare e) ns (rows.map (fun d => d.shares.map Share.data))
      (accepted (verify H rows ns dah)) = true ∨ ∃ x y, x ≠ y ∧ H x = H y := by
  by_cases hinj : Function.Injective H
  · exact Or.inl (nsdata_sound ⟨hinj, hl⟩ hsq hd hns rows hp)
  · right
    unfold Function.Injective at hinj
    have : ∃ x y, H x = H y ∧ x ≠ y := by
      apply Classical.byContradiction
      intro hn
      apply hinj
      intro a b hab
      apply Classical.byContradiction
      intro hne
      exact hn ⟨a, b, hab, hne⟩
    obtain ⟨x, y, h1, h2⟩ := this
    exact ⟨x, y, h2, h1⟩

/-- **Soundness of a single `RowNamespaceData::verify`**: accepted ⇒ the row exists and, if its root range covers the
    namespace, the shares are exactly the namespace's shares of that row; otherwise no shares are accepted. -/
theorem row_nsdata_sound {H : HashFn} (hk : HashOK H) {e : Eds} (hsq : SquareShape e) {dah : Dah}
    (hd : Dah.ofEds H e = .ok dah) {ns : Bytes} (hns : ns.length = NS_SIZE) (d : RowNsData) (hp : ProofOK d.proof)
    (row : Nat) :
    specRow e.width (rawSquare e) ns row (d.shares.map Share.data) (accepted (rowVerify H d ns row dah)) = true := by
  cases hv : rowVerify H d ns row dah with
  | error er => simp [accepted, specRow]
  | ok u =>
    obtain ⟨hrl, _, _, _⟩ := dah_ofEds_roots hd
    -- the row root exists
    have hrow : row < e.width := by
      unfold rowVerify at hv
      split at hv
      · cases hv
      · cases hg : dah.rowRoot? row with
        | none => simp [hg] at hv
        | some r =>
          unfold Dah.rowRoot? at hg
          have := (List.getElem?_eq_some_iff.mp hg).1; omega
    obtain ⟨shares, root, hax, hroot?, _⟩ := row_facts hd hsq.size hrow
    have hcov := rowCovers_eq hk hsq hd hrow hns
    have hrc : dah.rowContains? H row ns = some (root.contains H ns) := by
      unfold Dah.rowContains?; rw [hroot?]; rfl
    by_cases hc : root.contains H ns = true
    · obtain ⟨shares', hax', hdat⟩ := rowVerify_sound hk hd hsq.size hns hp (by rw [hrc, hc]) hv
      rw [hax] at hax'
      injection hax' with hax'
      subst hax'
      have hcov' : rowCovers e.width (rawSquare e) row ns = true := by rw [hcov, hrc, hc]; rfl
      simp only [accepted, specRow, hrow, decide_true, hcov', ↓reduceIte, Bool.not_true, Bool.false_or, Bool.true_and,
        rowShares_eq hsq hrow hax, hdat, List.filter_map, List.map_map]
      simp [Function.comp_def]
    · have hc' : root.contains H ns = false := by simpa using hc
      have hcov' : rowCovers e.width (rawSquare e) row ns = false := by rw [hcov, hrc, hc']; rfl
      -- only an absence proof with no shares can be accepted
      have hempty : d.shares = [] := by
        unfold rowVerify at hv
        split at hv
        · cases hv
        · rename_i hw
          simp only [hroot?] at hv
          cases hl : luminaVerifyCompleteNamespace H d.proof root (d.shares.map Share.data) ns with
          | error er => simp [hl] at hv
          | ok u' =>
            have hvc := luminaVCN_ok hl
            by_cases hab : d.proof.isAbsence = true
            · cases hs : d.shares with
              | nil => rfl
              | cons a b => simp [hs, hab] at hw
            · exfalso
              have hab' : d.proof.isAbsence = false := by simpa using hab
              unfold verifyCompleteNamespace at hvc
              split at hvc
              · cases hvc
              · unfold verifyNamespace at hvc
                have hne : d.shares ≠ [] := by
                  intro hs; simp [hs, hab'] at hw
                have hne' : (d.shares.map Share.data).isEmpty = false := by
                  cases hs : d.shares with
                  | nil => exact absurd hs hne
                  | cons a b => rfl
                simp [hne', hab', hc'] at hvc
      simp [accepted, specRow, hrow, hcov', hempty]

/-- The full completeness statement of the property: on every valid square of width at most 65535 (`square_width` is a
    `u16`; `NamespaceData::verify` itself refuses more row roots) `get_namespace_data` never fails, returns exactly the
    brute-force scan of the square, and `NamespaceData::verify` accepts it.  The idealised-hash hypothesis is needed only
    for "returns exactly the scan" (a row root that collides with `EMPTY_ROOT` is reported as not containing anything
    by `NamespacedHash::contains`); producing the data and accepting it need no hypothesis on the hash
    (`nsdata_get_verifies`).  Proved: `nsdata_complete`. -/
def FullCompleteness : Prop :=
  ∀ (H : HashFn) (e : Eds) (dah : Dah) (ns : Bytes), HashOK H → SquareShape e → e.width ≤ 65535 →
    Dah.ofEds H e = .ok dah → ns.length = NS_SIZE →
    ∃ rows, getNamespaceData H e ns dah = .ok rows ∧
      specHonest e.width (rawSquare e) ns (rows.map (fun p => (p.1, p.2.shares.map Share.data)))
        (accepted (verify H (rows.map Prod.snd) ns dah)) = true

/-- **Completeness, first part** (kept from the earlier partial result; used by `nsdata_complete`): whatever
    `get_namespace_data` returns equals the brute-force scan of the square (the rows whose root range covers the
    namespace, in order, with exactly the namespace's shares). -/
theorem nsdata_complete_partial {H : HashFn} (hk : HashOK H) {e : Eds} (hsq : SquareShape e) {dah : Dah}
    (hd : Dah.ofEds H e = .ok dah) {ns : Bytes} (hns : ns.length = NS_SIZE)
    {rows : List (Nat × RowNsData)} (hget : getNamespaceData H e ns dah = .ok rows) :
    rows.map (fun p => (p.1, p.2.shares.map Share.data)) = expected e.width (rawSquare e) ns := by
  unfold getNamespaceData at hget
  rw [getNamespaceDataAux_data _ rows hget, expected_eq' hk hsq hd hns]

/-- the proved completeness part in reduction form (satisfiable by real hashes) -/
theorem nsdata_complete_partial_or_collision {H : HashFn} (hl : HashLen H) {e : Eds} (hsq : SquareShape e) {dah : Dah}
    (hd : Dah.ofEds H e = .ok dah) {ns : Bytes} (hns : ns.length = NS_SIZE)
    {rows : List (Nat × RowNsData)} (hget : getNamespaceData H e ns dah = .ok rows) :
    rows.map (fun p => (p.1, p.2.shares.map Share.data)) = expected e.width (rawSquare e) ns ∨
      ∃ x y, x ≠ y ∧ H x = H y := by
  by_cases hinj : Function.Injective H
  · exact Or.inl (nsdata_complete_partial ⟨hinj, hl⟩ hsq hd hns hget)
  · right
    unfold Function.Injective at hinj
    have : ∃ x y, H x = H y ∧ x ≠ y := by
      apply Classical.byContradiction
      intro hn
      apply hinj
      intro a b hab
      apply Classical.byContradiction
      intro hne
      exact hn ⟨a, b, hab, hne⟩
    obtain ⟨x, y, h1, h2⟩ := this
    exact ⟨x, y, h2, h1⟩

/-- **Completeness, second part — no hypothesis on the hash**: on a square whose DAH exists (every axis namespace-ordered),
    with shares of at least 29 bytes and width ≤ 65535, `get_namespace_data` never fails and `NamespaceData::verify`
    accepts what it returns.  Rests on the completeness of MULTI-leaf range proofs for arbitrary tree sizes
    (`NmtMulti.range_complete`: `build_range_proof` ⇒ `check_range_proof` with the tree size that `compute_tree_size`
    derives, which need not be the real one), presence and absence proofs, nmt-rs' completeness check and lumina's
    `validate_shape`. -/
theorem nsdata_get_verifies {H : HashFn} {e : Eds} (hsq : SquareShape e) (hw : e.width ≤ 65535) {dah : Dah}
    (hd : Dah.ofEds H e = .ok dah) {ns : Bytes} (hns : ns.length = NS_SIZE) :
    ∃ rows, getNamespaceData H e ns dah = .ok rows ∧ accepted (verify H (rows.map Prod.snd) ns dah) = true := by
  obtain ⟨rows, hget, hv⟩ := Lumina.Proofs.NmtMulti.getNamespaceData_complete hd hsq.size hw hns
  exact ⟨rows, hget, by rw [hv]; rfl⟩

/-- **Completeness of namespace data, full statement** (`FullCompleteness`) -/
theorem nsdata_complete : FullCompleteness := by
  intro H e dah ns hk hsq hw hd hns
  obtain ⟨rows, hget, hacc⟩ := nsdata_get_verifies hsq hw hd hns
  refine ⟨rows, hget, ?_⟩
  have hdat := nsdata_complete_partial hk hsq hd hns hget
  simp [specHonest, hacc, hdat]

/-- full completeness in reduction form (satisfiable by real hashes): complete, or the hash has an explicit collision -/
theorem nsdata_complete_or_collision {H : HashFn} (hl : HashLen H) {e : Eds} (hsq : SquareShape e) (hw : e.width ≤ 65535)
    {dah : Dah} (hd : Dah.ofEds H e = .ok dah) {ns : Bytes} (hns : ns.length = NS_SIZE) :
    (∃ rows, getNamespaceData H e ns dah = .ok rows ∧
      specHonest e.width (rawSquare e) ns (rows.map (fun p => (p.1, p.2.shares.map Share.data)))
        (accepted (verify H (rows.map Prod.snd) ns dah)) = true) ∨ ∃ x y, x ≠ y ∧ H x = H y := by
  obtain ⟨rows, hget, hacc⟩ := nsdata_get_verifies hsq hw hd hns
  rcases nsdata_complete_partial_or_collision hl hsq hd hns hget with hdat | hcol
  · exact Or.inl ⟨rows, hget, by simp [specHonest, hacc, hdat]⟩
  · exact Or.inr hcol

/-! ### Non-vacuity (concrete 2×2 square of 512-byte shares, toy 32-byte hash from `Props/C04`) -/

open Lumina.Props.C04 (toyH32 okEds okDah nonvacuity_okEds_valid nonvacuity_toyH32_len)

def ns0 : Bytes := List.replicate 29 0
def okRows : List (Nat × RowNsData) :=
  match getNamespaceData toyH32 okEds ns0 okDah with
  | .ok r => r
  | .error _ => []

/-- the hypotheses other than `HashOK` hold of a concrete square (`SquareShape`, width 2 ≤ 65535, DAH exists, 29-byte
    namespace), and its own namespace data is produced and accepted -/
theorem nonvacuity_okEds_shape : SquareShape okEds :=
  ⟨nonvacuity_okEds_valid.flags, fun sh hm => by rw [nonvacuity_okEds_valid.size sh hm]; decide⟩

set_option maxRecDepth 40000 in
example : HashLen toyH32 ∧ okEds.width ≤ 65535 ∧ Dah.ofEds toyH32 okEds = .ok okDah ∧ ns0.length = NS_SIZE ∧ okRows.length = 1 ∧
    (∀ d ∈ okRows.map Prod.snd, ProofOK d.proof) ∧
    accepted (verify toyH32 (okRows.map Prod.snd) ns0 okDah) = true := by
  refine ⟨nonvacuity_toyH32_len, by decide, rfl, rfl, by decide, ?_, by decide⟩
  have h : (okRows.map Prod.snd).all (fun d =>
      d.proof.siblings.all (fun x => decide x.WF) &&
      (match d.proof.leaf with | some l => decide l.WF | none => true) &&
      decide (d.proof.start ≤ U32_MAX) && decide (d.proof.end_ ≤ U32_MAX)) = true := by decide
  intro d hd
  have := List.all_eq_true.mp h d hd
  simp only [Bool.and_eq_true, List.all_eq_true, decide_eq_true_eq] at this
  obtain ⟨⟨⟨h1, h2⟩, h3⟩, h4⟩ := this
  refine ⟨h1, ?_, h3, h4⟩
  intro l hl
  rw [hl] at h2
  simpa using h2

end Lumina.Props.C06

/-
  C06 — Namespace data is sound and complete.   PROPERTY THEOREMS ONLY.

  Model: `Lumina/Model/NsData.lean` (`rowVerify` = `RowNamespaceData::verify`, `verify` = `NamespaceData::verify`,
  `getNamespaceData` = `ExtendedDataSquare::get_namespace_data`) over the nmt-rs model (`verify_complete_namespace`
  with presence and absence proofs, completeness check, `compute_tree_size`, lumina's `validate_shape` wrapper).
  Spec: `Lumina/Spec/C06.lean` (brute-force scan of the square; model-free).
  Soundness is proved at full strength under collision-freeness of the hash RELATIVE TO the byte strings actually hashed
  (`HashOKOn H (· ∈ hashedC06 H e rows ns)`: the square's row/column trees and the `hash_leaf`/`hash_nodes` calls of the
  verification of the given rows), and as a reduction: an accepted wrong answer yields an explicit collision among those
  inputs.  Completeness (`FullCompleteness`) is proved in full (`nsdata_complete`), on top of the multi-leaf range-proof
  completeness of `Proofs/NmtMulti*.lean`; its only hash assumption is collision-freeness on the square's own inputs
  (`edsInputs`).
-/
import Lumina.Proofs.NsData
import Lumina.Proofs.NmtMultiNsData
import Lumina.Props.C04
import Lumina.Gen.C06

namespace Lumina.Props.C06
open Lumina.Util Lumina.Model.Nmt Lumina.Model.Eds Lumina.Model.NsData
open Lumina.Proofs.Nmt Lumina.Proofs.NmtRange Lumina.Proofs.Eds Lumina.Proofs.Sample Lumina.Proofs.NsData
open Lumina.Spec.C06 (specVerify specRow specHonest expected rowCovers rowShares)

/-- the sizes the model uses are the ones in the current source tree -/
theorem consts_eq :
    Lumina.Gen.C06.NS_SIZE = 29 ∧ Lumina.Gen.C06.NS_SIZE = Lumina.Model.Nmt.NS_SIZE ∧
    Lumina.Gen.C06.HASH_SIZE = Lumina.Model.Nmt.HASH_LEN ∧ Lumina.Gen.C06.SHARE_SIZE = Lumina.Model.Eds.SHARE_SIZE := by
  decide

/-- the byte strings hashed by the two computations the soundness theorems compare: all row and column trees of the
    square (and the empty string, preimage of `EMPTY_ROOT`), and the `hash_leaf` / `hash_nodes` calls of
    `verify_complete_namespace` over the given rows -/
def hashedC06 (H : HashFn) (e : Eds) (rows : List RowNsData) (ns : Bytes) : List Bytes :=
  edsInputs H e ++ nsDataInputs H rows ns

/-- **Soundness of `NamespaceData::verify`** — every square (any width), its DAH, every 29-byte namespace, every list of
    rows with any proofs (presence or absence, any range, any siblings, any flags): accepted ⇒ the rows are, in row
    order, exactly the rows whose root range covers the namespace, each holding exactly the namespace's shares of that
    row (no shares where the row has none).  Hypotheses: the hash has 32-byte output and no collision among
    `hashedC06 H e rows ns` (a finite, explicitly computed list — satisfiable, see the non-vacuity instance below);
    quadrant parity flags and share sizes (`SquareShape`, established by `ExtendedDataSquare::new`); sizes guaranteed
    by the Rust types (`ProofOK`). -/
theorem nsdata_sound {H : HashFn} {e : Eds} (hsq : SquareShape e) {dah : Dah}
    (hd : Dah.ofEds H e = .ok dah) {ns : Bytes} (hns : ns.length = NS_SIZE)
    (rows : List RowNsData) (hp : ∀ d ∈ rows, ProofOK d.proof)
    (hk : HashOKOn H (fun y => y ∈ hashedC06 H e rows ns)) :
    specVerify e.width (rawSquare e) ns (rows.map (fun d => d.shares.map Share.data))
      (accepted (verify H rows ns dah)) = true := by
  cases hv : verify H rows ns dah with
  | error er => simp [accepted, specVerify]
  | ok u =>
    have hS : ∀ y ∈ edsInputs H e, y ∈ hashedC06 H e rows ns := fun y hy => List.mem_append_left _ hy
    have hV : ∀ y ∈ nsDataInputs H rows ns, y ∈ hashedC06 H e rows ns := fun y hy => List.mem_append_right _ hy
    have := verify_sound_model_on hk hd hsq.size hns hS hV hp hv
    simp [accepted, specVerify, this, expected_eq_on hk hsq hd hS hns]

/-- **Soundness as a reduction** (no assumption on the hash beyond its output length): an accepted answer that is not the
    namespace's data yields an explicit collision `x ≠ y`, `H x = H y` with `x`, `y` among the byte strings hashed for
    the square's trees and by the verification. -/
theorem nsdata_forgery_yields_collision {H : HashFn} (hl : HashLen H) {e : Eds} (hsq : SquareShape e) {dah : Dah}
    (hd : Dah.ofEds H e = .ok dah) {ns : Bytes} (hns : ns.length = NS_SIZE)
    (rows : List RowNsData) (hp : ∀ d ∈ rows, ProofOK d.proof)
    (hbad : specVerify e.width (rawSquare e) ns (rows.map (fun d => d.shares.map Share.data))
      (accepted (verify H rows ns dah)) = false) :
    CollisionIn H (fun y => y ∈ hashedC06 H e rows ns) := by
  rcases noCollOn_or_collision H (fun y => y ∈ hashedC06 H e rows ns) with h | h
  · have := nsdata_sound hsq hd hns rows hp ⟨h, hl⟩
    rw [this] at hbad; cases hbad
  · exact h

/-- **Soundness of a single `RowNamespaceData::verify`**: accepted ⇒ the row exists and, if its root range covers the
    namespace, the shares are exactly the namespace's shares of that row; otherwise no shares are accepted. -/
theorem row_nsdata_sound {H : HashFn} {e : Eds} (hsq : SquareShape e) {dah : Dah}
    (hd : Dah.ofEds H e = .ok dah) {ns : Bytes} (hns : ns.length = NS_SIZE) (d : RowNsData) (hp : ProofOK d.proof)
    (row : Nat) (hk : HashOKOn H (fun y => y ∈ hashedC06 H e [d] ns)) :
    specRow e.width (rawSquare e) ns row (d.shares.map Share.data) (accepted (rowVerify H d ns row dah)) = true := by
  cases hv : rowVerify H d ns row dah with
  | error er => simp [accepted, specRow]
  | ok u =>
    obtain ⟨hrl, _, _, _⟩ := dah_ofEds_roots hd
    -- the row root exists
    have hrow : row < e.width := by
      unfold rowVerify at hv
      split at hv
      · cases hv
      · cases hg : dah.rowRoot? row with
        | none => simp [hg] at hv
        | some r =>
          unfold Dah.rowRoot? at hg
          have := (List.getElem?_eq_some_iff.mp hg).1; omega
    have hS : ∀ y ∈ edsInputs H e, y ∈ hashedC06 H e [d] ns := fun y hy => List.mem_append_left _ hy
    have hV : ∀ y ∈ vcnInputs H d.proof (d.shares.map Share.data) ns, y ∈ hashedC06 H e [d] ns := fun y hy =>
      List.mem_append_right _ (by unfold nsDataInputs; rw [List.flatMap_cons]; exact List.mem_append_left _ hy)
    obtain ⟨shares, root, hax, hroot?, _⟩ := row_facts hd hsq.size hrow
    have hcov := rowCovers_eq_on hk hsq hd hS hrow hns
    have hrc : dah.rowContains? H row ns = some (root.contains H ns) := by
      unfold Dah.rowContains?; rw [hroot?]; rfl
    by_cases hc : root.contains H ns = true
    · obtain ⟨shares', hax', hdat⟩ := rowVerify_sound_on hk hd hsq.size hS hV hns hp (by rw [hrc, hc]) hv
      rw [hax] at hax'
      injection hax' with hax'
      subst hax'
      have hcov' : rowCovers e.width (rawSquare e) row ns = true := by rw [hcov, hrc, hc]; rfl
      simp only [accepted, specRow, hrow, decide_true, hcov', ↓reduceIte, Bool.not_true, Bool.false_or, Bool.true_and,
        rowShares_eq hsq hrow hax, hdat, List.filter_map, List.map_map]
      simp [Function.comp_def]
    · have hc' : root.contains H ns = false := by simpa using hc
      have hcov' : rowCovers e.width (rawSquare e) row ns = false := by rw [hcov, hrc, hc']; rfl
      -- only an absence proof with no shares can be accepted
      have hempty : d.shares = [] := by
        unfold rowVerify at hv
        split at hv
        · cases hv
        · rename_i hw
          simp only [hroot?] at hv
          cases hl : luminaVerifyCompleteNamespace H d.proof root (d.shares.map Share.data) ns with
          | error er => simp [hl] at hv
          | ok u' =>
            have hvc := luminaVCN_ok hl
            by_cases hab : d.proof.isAbsence = true
            · cases hs : d.shares with
              | nil => rfl
              | cons a b => simp [hs, hab] at hw
            · exfalso
              have hab' : d.proof.isAbsence = false := by simpa using hab
              unfold verifyCompleteNamespace at hvc
              split at hvc
              · cases hvc
              · unfold verifyNamespace at hvc
                have hne : d.shares ≠ [] := by
                  intro hs; simp [hs, hab'] at hw
                have hne' : (d.shares.map Share.data).isEmpty = false := by
                  cases hs : d.shares with
                  | nil => exact absurd hs hne
                  | cons a b => rfl
                simp [hne', hab', hc'] at hvc
      simp [accepted, specRow, hrow, hcov', hempty]

/-- the single-row soundness as a reduction: an accepted wrong row answer yields an explicit collision among the inputs
    hashed for the square and by this verification -/
theorem row_nsdata_forgery_yields_collision {H : HashFn} (hl : HashLen H) {e : Eds} (hsq : SquareShape e) {dah : Dah}
    (hd : Dah.ofEds H e = .ok dah) {ns : Bytes} (hns : ns.length = NS_SIZE) (d : RowNsData) (hp : ProofOK d.proof)
    (row : Nat)
    (hbad : specRow e.width (rawSquare e) ns row (d.shares.map Share.data) (accepted (rowVerify H d ns row dah)) = false) :
    CollisionIn H (fun y => y ∈ hashedC06 H e [d] ns) := by
  rcases noCollOn_or_collision H (fun y => y ∈ hashedC06 H e [d] ns) with h | h
  · have := row_nsdata_sound hsq hd hns d hp row ⟨h, hl⟩
    rw [this] at hbad; cases hbad
  · exact h

/-- The full completeness statement of the property: on every valid square of width at most 65535 (`square_width` is a
    `u16`; `NamespaceData::verify` itself refuses more row roots) `get_namespace_data` never fails, returns exactly the
    brute-force scan of the square, and `NamespaceData::verify` accepts it.  The hash hypothesis (no collision among the
    inputs hashed for the square's own trees and the empty string, `edsInputs`) is needed only for "returns exactly the
    scan" (a row root that collides with `EMPTY_ROOT` is reported as not containing anything by
    `NamespacedHash::contains`); producing the data and accepting it need no hypothesis on the hash
    (`nsdata_get_verifies`).  Proved: `nsdata_complete`. -/
def FullCompleteness : Prop :=
  ∀ (H : HashFn) (e : Eds) (dah : Dah) (ns : Bytes), HashOKOn H (fun y => y ∈ edsInputs H e) → SquareShape e → e.width ≤ 65535 →
    Dah.ofEds H e = .ok dah → ns.length = NS_SIZE →
    ∃ rows, getNamespaceData H e ns dah = .ok rows ∧
      specHonest e.width (rawSquare e) ns (rows.map (fun p => (p.1, p.2.shares.map Share.data)))
        (accepted (verify H (rows.map Prod.snd) ns dah)) = true

/-- **Completeness, first part** (kept from the earlier partial result; used by `nsdata_complete`): whatever
    `get_namespace_data` returns equals the brute-force scan of the square (the rows whose root range covers the
    namespace, in order, with exactly the namespace's shares). -/
theorem nsdata_complete_partial {H : HashFn} {e : Eds} (hk : HashOKOn H (fun y => y ∈ edsInputs H e))
    (hsq : SquareShape e) {dah : Dah}
    (hd : Dah.ofEds H e = .ok dah) {ns : Bytes} (hns : ns.length = NS_SIZE)
    {rows : List (Nat × RowNsData)} (hget : getNamespaceData H e ns dah = .ok rows) :
    rows.map (fun p => (p.1, p.2.shares.map Share.data)) = expected e.width (rawSquare e) ns := by
  unfold getNamespaceData at hget
  rw [getNamespaceDataAux_data _ rows hget, expected_eq'_on hk hsq hd (fun _ h => h) hns]

/-- the proved completeness part as a reduction: the answer is the scan, or there is an explicit collision among the
    inputs hashed for the square's own trees (and the empty string) -/
theorem nsdata_complete_partial_or_collision {H : HashFn} (hl : HashLen H) {e : Eds} (hsq : SquareShape e) {dah : Dah}
    (hd : Dah.ofEds H e = .ok dah) {ns : Bytes} (hns : ns.length = NS_SIZE)
    {rows : List (Nat × RowNsData)} (hget : getNamespaceData H e ns dah = .ok rows) :
    rows.map (fun p => (p.1, p.2.shares.map Share.data)) = expected e.width (rawSquare e) ns ∨
      CollisionIn H (fun y => y ∈ edsInputs H e) := by
  rcases noCollOn_or_collision H (fun y => y ∈ edsInputs H e) with h | h
  · exact Or.inl (nsdata_complete_partial ⟨h, hl⟩ hsq hd hns hget)
  · exact Or.inr h

/-- **Completeness, second part — no hypothesis on the hash**: on a square whose DAH exists (every axis namespace-ordered),
    with shares of at least 29 bytes and width ≤ 65535, `get_namespace_data` never fails and `NamespaceData::verify`
    accepts what it returns.  Rests on the completeness of MULTI-leaf range proofs for arbitrary tree sizes
    (`NmtMulti.range_complete`: `build_range_proof` ⇒ `check_range_proof` with the tree size that `compute_tree_size`
    derives, which need not be the real one), presence and absence proofs, nmt-rs' completeness check and lumina's
    `validate_shape`. -/
theorem nsdata_get_verifies {H : HashFn} {e : Eds} (hsq : SquareShape e) (hw : e.width ≤ 65535) {dah : Dah}
    (hd : Dah.ofEds H e = .ok dah) {ns : Bytes} (hns : ns.length = NS_SIZE) :
    ∃ rows, getNamespaceData H e ns dah = .ok rows ∧ accepted (verify H (rows.map Prod.snd) ns dah) = true := by
  obtain ⟨rows, hget, hv⟩ := Lumina.Proofs.NmtMulti.getNamespaceData_complete hd hsq.size hw hns
  exact ⟨rows, hget, by rw [hv]; rfl⟩

/-- **Completeness of namespace data, full statement** (`FullCompleteness`) -/
theorem nsdata_complete : FullCompleteness := by
  intro H e dah ns hk hsq hw hd hns
  obtain ⟨rows, hget, hacc⟩ := nsdata_get_verifies hsq hw hd hns
  refine ⟨rows, hget, ?_⟩
  have hdat := nsdata_complete_partial hk hsq hd hns hget
  simp [specHonest, hacc, hdat]

/-- full completeness as a reduction: complete, or an explicit collision among the inputs hashed for the square's trees -/
theorem nsdata_complete_or_collision {H : HashFn} (hl : HashLen H) {e : Eds} (hsq : SquareShape e) (hw : e.width ≤ 65535)
    {dah : Dah} (hd : Dah.ofEds H e = .ok dah) {ns : Bytes} (hns : ns.length = NS_SIZE) :
    (∃ rows, getNamespaceData H e ns dah = .ok rows ∧
      specHonest e.width (rawSquare e) ns (rows.map (fun p => (p.1, p.2.shares.map Share.data)))
        (accepted (verify H (rows.map Prod.snd) ns dah)) = true) ∨ CollisionIn H (fun y => y ∈ edsInputs H e) := by
  obtain ⟨rows, hget, hacc⟩ := nsdata_get_verifies hsq hw hd hns
  rcases nsdata_complete_partial_or_collision hl hsq hd hns hget with hdat | hcol
  · exact Or.inl ⟨rows, hget, by simp [specHonest, hacc, hdat]⟩
  · exact Or.inr hcol

/-! ### Non-vacuity (concrete 2×2 square of 512-byte shares, toy 32-byte hash from `Props/C04`) -/

open Lumina.Props.C04 (toyH32 okEds okDah nonvacuity_okEds_valid nonvacuity_toyH32_len)

def ns0 : Bytes := List.replicate 29 0
def okRows : List (Nat × RowNsData) :=
  match getNamespaceData toyH32 okEds ns0 okDah with
  | .ok r => r
  | .error _ => []

/-- the hypotheses other than the one on the hash hold of a concrete square (`SquareShape`, width 2 ≤ 65535, DAH exists, 29-byte
    namespace), and its own namespace data is produced and accepted -/
theorem nonvacuity_okEds_shape : SquareShape okEds :=
  ⟨nonvacuity_okEds_valid.flags, fun sh hm => by rw [nonvacuity_okEds_valid.size sh hm]; decide⟩

set_option maxRecDepth 40000 in
example : HashLen toyH32 ∧ okEds.width ≤ 65535 ∧ Dah.ofEds toyH32 okEds = .ok okDah ∧ ns0.length = NS_SIZE ∧ okRows.length = 1 ∧
    (∀ d ∈ okRows.map Prod.snd, ProofOK d.proof) ∧
    accepted (verify toyH32 (okRows.map Prod.snd) ns0 okDah) = true := by
  refine ⟨nonvacuity_toyH32_len, by decide, rfl, rfl, by decide, ?_, by decide⟩
  have h : (okRows.map Prod.snd).all (fun d =>
      d.proof.siblings.all (fun x => decide x.WF) &&
      (match d.proof.leaf with | some l => decide l.WF | none => true) &&
      decide (d.proof.start ≤ U32_MAX) && decide (d.proof.end_ ≤ U32_MAX)) = true := by decide
  intro d hd
  have := List.all_eq_true.mp h d hd
  simp only [Bool.and_eq_true, List.all_eq_true, decide_eq_true_eq] at this
  obtain ⟨⟨⟨h1, h2⟩, h3⟩, h4⟩ := this
  refine ⟨h1, ?_, h3, h4⟩
  intro l hl
  rw [hl] at h2
  simpa using h2

/-! ### Non-vacuity of `nsdata_sound` / `row_nsdata_sound`: ALL hypotheses hold on a concrete accepted answer -/

open Lumina.Proofs.Sample (toySum toySum_len noCollOn_of_list)

def sumDah : Dah := match Dah.ofEds toySum okEds with | .ok d => d | .error _ => default
/-- what `get_namespace_data` returns for namespace 0 of the concrete square under the toy hash (one row, one share) -/
def sumRows : List RowNsData :=
  match getNamespaceData toySum okEds ns0 sumDah with
  | .ok r => r.map Prod.snd
  | .error _ => []
theorem proofOK_of_dec {rows : List RowNsData} (h : rows.all (fun d =>
      d.proof.siblings.all (fun x => decide x.WF) &&
      (match d.proof.leaf with | some l => decide l.WF | none => true) &&
      decide (d.proof.start ≤ U32_MAX) && decide (d.proof.end_ ≤ U32_MAX)) = true) :
    ∀ d ∈ rows, ProofOK d.proof := by
  intro d hd
  have := List.all_eq_true.mp h d hd
  simp only [Bool.and_eq_true, List.all_eq_true, decide_eq_true_eq] at this
  obtain ⟨⟨⟨h1, h2⟩, h3⟩, h4⟩ := this
  refine ⟨h1, ?_, h3, h4⟩
  intro l hl
  rw [hl] at h2
  simpa using h2

set_option maxRecDepth 100000 in
/-- the toy hash has no collision among the byte strings hashed for this square and this answer -/
theorem nonvacuity_toySum_nocoll : NoCollOn toySum (fun y => y ∈ hashedC06 toySum okEds sumRows ns0) :=
  noCollOn_of_list (by decide)

set_option maxRecDepth 100000 in
/-- `nsdata_sound` applied to a concrete ACCEPTED presence answer: every hypothesis (incl. relative collision-freeness)
    holds -/
example : sumRows.length = 1 ∧ accepted (verify toySum sumRows ns0 sumDah) = true ∧
    specVerify okEds.width (rawSquare okEds) ns0 (sumRows.map (fun d => d.shares.map Share.data))
      (accepted (verify toySum sumRows ns0 sumDah)) = true :=
  ⟨by decide, by decide, nsdata_sound nonvacuity_okEds_shape (dah := sumDah) rfl rfl sumRows
    (proofOK_of_dec (by decide)) ⟨nonvacuity_toySum_nocoll, toySum_len⟩⟩

/-- **non-vacuity of `nsdata_complete`**: all hypotheses of `FullCompleteness`, including the one on the hash (the toy hash
    has no collision among `edsInputs`, a sub-list of the list checked above), hold of the concrete square; the theorem,
    applied, yields namespace data that equals the brute-force scan and is accepted -/
example : ∃ rows, getNamespaceData toySum okEds ns0 sumDah = .ok rows ∧
    specHonest okEds.width (rawSquare okEds) ns0 (rows.map (fun p => (p.1, p.2.shares.map Share.data)))
      (accepted (verify toySum (rows.map Prod.snd) ns0 sumDah)) = true :=
  nsdata_complete toySum okEds sumDah ns0
    ⟨nonvacuity_toySum_nocoll.mono (fun y hy => by unfold hashedC06; exact List.mem_append_left _ hy), toySum_len⟩
    nonvacuity_okEds_shape (by decide) rfl rfl

/-! ### Non-vacuity with an ABSENCE proof (4×4 square; a 2×2 square has only one original-data share per row) -/

def nsN (n : UInt8) : Bytes := List.replicate 28 0 ++ [n]
def dsh (n t : UInt8) : Bytes := nsN n ++ [t]
def psh (t : UInt8) : Bytes := List.replicate 29 9 ++ [t]
/-- 4×4 square of 30-byte shares; original data 2×2 with namespaces 0, 2 / 3, 4 (the parity quadrants hold arbitrary bytes:
    the soundness theorem does not need them to be Reed–Solomon parity) -/
def absEds : Eds := Eds.ofRaw 4 [dsh 0 1, dsh 2 2, psh 3, psh 4,
                                 dsh 3 5, dsh 4 6, psh 7, psh 8,
                                 psh 10, psh 11, psh 12, psh 13,
                                 psh 14, psh 15, psh 16, psh 17]
def absDah : Dah := match Dah.ofEds toySum absEds with | .ok d => d | .error _ => default
/-- what `get_namespace_data` returns for namespace 1: row 0 covers it (0 ≤ 1 ≤ 2) but holds no share of it -/
def absRows : List RowNsData :=
  match getNamespaceData toySum absEds (nsN 1) absDah with
  | .ok r => r.map Prod.snd
  | .error _ => []

set_option maxRecDepth 100000 in
theorem nonvacuity_absEds_shape : SquareShape absEds := by
  refine ⟨?_, ?_⟩
  · have h : ∀ r, r < 4 → ∀ c, c < 4 →
        (match absEds.share? r c with | some sh => sh.isParity == !isOdsSquare r c absEds.width | none => true) = true := by
      decide
    intro r c sh hr hc hs
    have := h r hr c hc
    rw [hs] at this
    simpa using this
  · have h : absEds.shares.all (fun sh => decide (NS_SIZE ≤ sh.data.length)) = true := by decide
    intro sh hm; simpa using List.all_eq_true.mp h sh hm

set_option maxRecDepth 100000 in
/-- the toy hash has no collision among the 59 byte strings hashed for this square and this absence answer -/
theorem nonvacuity_toySum_nocoll_abs : NoCollOn toySum (fun y => y ∈ hashedC06 toySum absEds absRows (nsN 1)) :=
  noCollOn_of_list (by decide)

set_option maxRecDepth 100000 in
/-- `nsdata_sound` applied to a concrete ACCEPTED ABSENCE answer (one row, absence proof, no shares) -/
example : absRows.length = 1 ∧ (absRows.all (fun d => d.proof.isAbsence)) = true ∧
    accepted (verify toySum absRows (nsN 1) absDah) = true ∧
    specVerify absEds.width (rawSquare absEds) (nsN 1) (absRows.map (fun d => d.shares.map Share.data))
      (accepted (verify toySum absRows (nsN 1) absDah)) = true :=
  ⟨by decide, by decide, by decide, nsdata_sound nonvacuity_absEds_shape (dah := absDah) rfl rfl absRows
    (proofOK_of_dec (by decide)) ⟨nonvacuity_toySum_nocoll_abs, toySum_len⟩⟩

end Lumina.Props.C06

import Lumina.Model.NsData
import Lumina.Spec.C06
namespace Lumina.Props.C06
theorem placeholder : True := trivial
end Lumina.Props.C06

/-
  C24 — Syncer fetches missing, insertable heights nearest the head first.  PROPERTY THEOREMS ONLY.

  Model: `Lumina.Model.FetchRange.calculateRangeToFetch` / `nextBatch` (transcription of
  `calculate_range_to_fetch` and of `pruned_ranges + &store_ranges` in `Worker::fetch_next_batch`).
  Spec : `Lumina.Spec.C24` (clauses (a)–(f) + "no batch only when nothing to request").

  For EVERY synced value satisfying `Inv`, every head ≤ u64::MAX and every batch size.

  The full statement (`FullStatement`) is FALSE of the code: when the synced ranges reach above
  the subjective network head, the gap below the highest synced range is requested even where it
  lies above the head (clause (c)).  Hence `fetch_range_counterexample`, the full-strength
  `fetch_range_spec_partial` under the hypothesis "nothing synced above the head", and
  `fetch_range_except_head` (every other clause, no hypothesis).  See known_findings.json,
  fingerprint `C24/batch-above-head-store-ahead`.
-/
import Lumina.Proofs.FetchRange
import Lumina.Props.C18
import Lumina.Model.SyncerGate

namespace Lumina.Props.C24
open Lumina.Model.Ranges hiding Inv
open Lumina.Model.FetchRange
open Lumina.Proofs.Ranges Lumina.Proofs.FetchRange
open Lumina.Spec.C24

local notation "RInv" => Lumina.Model.Ranges.Inv

/-- the property at full strength -/
def FullStatement : Prop :=
  ∀ (synced : Ranges) (head limit : Nat), RInv synced → head ≤ U64_MAX →
    ∃ b, calculateRangeToFetch head synced limit = .ok b ∧ specFetch head synced limit b = true

/-- no `u64` overflow (`end + 1`, `penultimate_end + 1`) for any input -/
theorem fetch_range_no_panic {synced : Ranges} (hi : RInv synced) (head limit : Nat) (hh : head ≤ U64_MAX) :
    ∃ b, calculateRangeToFetch head synced limit = .ok b := by
  obtain ⟨b, e, _⟩ := calc_spec hi head limit hh
  exact ⟨b, e⟩

/-- **C24 under the hypothesis that nothing synced lies above the network head**: every clause -/
theorem fetch_range_spec_partial {synced : Ranges} (hi : RInv synced) (head limit : Nat)
    (hh : head ≤ U64_MAX) (hnot_ahead : ∀ x, mem synced x → x ≤ head) :
    ∃ b, calculateRangeToFetch head synced limit = .ok b ∧ specFetch head synced limit b = true := by
  obtain ⟨b, e, h | ⟨_, x, hx, hlt, _⟩⟩ := calc_spec hi head limit hh
  · exact ⟨b, e, by simp [specFetch, h]⟩
  · have := hnot_ahead x hx; omega

/-- **all inputs, every clause except (c)**; and (c) can only fail when some synced height lies
    above the head and the batch ends above the head -/
theorem fetch_range_except_head {synced : Ranges} (hi : RInv synced) (head limit : Nat) (hh : head ≤ U64_MAX) :
    ∃ b, calculateRangeToFetch head synced limit = .ok b ∧
      specFetchExceptHead head synced limit b = true ∧
      (specFetch head synced limit b = false → ∃ x, mem synced x ∧ head < x ∧ head < b.2) := by
  obtain ⟨b, e, h | ⟨h, hx⟩⟩ := calc_spec hi head limit hh
  · exact ⟨b, e, by simp [specFetchExceptHead, h], by simp [specFetch, h]⟩
  · exact ⟨b, e, by simp [specFetchExceptHead, h], fun _ => hx⟩

/-- the code violates the full statement: head 5, synced {1..3, 10..20}, batch size 4 ↦ 6..=9 -/
theorem fetch_range_counterexample : ¬ FullStatement := by
  intro h
  obtain ⟨b, e, hs⟩ := h [(1, 3), (10, 20)] 5 4 (inv_of_invB (by decide)) (by decide)
  have e' : calculateRangeToFetch 5 [(1, 3), (10, 20)] 4 = .ok (6, 9) := rfl
  rw [e'] at e
  cases e
  revert hs
  decide

/-- a requested batch is made of heights that are neither stored nor pruned, and is at most the
    batch size (Prop form of clauses (a), (b)) -/
theorem fetch_range_missing_size {synced : Ranges} (hi : RInv synced) (head limit : Nat) (hh : head ≤ U64_MAX) :
    ∃ b, calculateRangeToFetch head synced limit = .ok b ∧
      (b.1 ≤ b.2 → (∀ h, b.1 ≤ h → h ≤ b.2 → ¬ mem synced h) ∧ b.2 + 1 - b.1 ≤ limit ∧ 1 ≤ b.1) := by
  obtain ⟨b, e, hf⟩ := calc_spec hi head limit hh
  refine ⟨b, e, fun hne => ?_⟩
  have hnlt : ¬ b.2 < b.1 := by omega
  have hmem : ∀ c ∈ failing head synced limit b, c = "head" := by
    rcases hf with h | ⟨h, _⟩ <;> simp [h]
  simp only [failing, hnlt, ↓reduceIte] at hmem
  have k0 : Lumina.Spec.C17.validR b = true := by
    by_cases c : Lumina.Spec.C17.validR b = true
    · exact c
    · have := hmem "invalid" (by simp [c]); exact absurd this (by decide)
  have k1 : clauseMissing synced b = true := by
    by_cases c : clauseMissing synced b = true
    · exact c
    · have := hmem "missing" (by simp [c]); exact absurd this (by decide)
  have k2 : clauseSize limit b = true := by
    by_cases c : clauseSize limit b = true
    · exact c
    · have := hmem "size" (by simp [c]); exact absurd this (by decide)
  simp only [clauseMissing, List.all_eq_true, Bool.or_eq_true, decide_eq_true_eq] at k1
  simp only [clauseSize, decide_eq_true_eq] at k2
  simp only [Lumina.Spec.C17.validR, Bool.and_eq_true, decide_eq_true_eq] at k0
  refine ⟨?_, k2, k0.1⟩
  rintro h h1 h2 ⟨x, hx, h3, h4⟩
  have := k1 x hx
  omega

/-- link to C18: a requested batch is admitted by `check_insertion_constraints` of the synced
    value, so that inserting it extends the synced data -/
theorem fetch_range_admitted {synced : Ranges} (hi : RInv synced) (head limit : Nat) (hh : head ≤ U64_MAX) :
    ∃ b, calculateRangeToFetch head synced limit = .ok b ∧
      (b.1 ≤ b.2 → ∃ p n, checkInsertionConstraints synced b = .ok (p, n)) := by
  obtain ⟨b, e, hf⟩ := calc_spec hi head limit hh
  refine ⟨b, e, fun hne => ?_⟩
  have hnlt : ¬ b.2 < b.1 := by omega
  have hmem : ∀ c ∈ failing head synced limit b, c = "head" := by
    rcases hf with h | ⟨h, _⟩ <;> simp [h]
  simp only [failing, hnlt, ↓reduceIte] at hmem
  have k6 : clauseInsertable synced b = true := by
    by_cases c : clauseInsertable synced b = true
    · exact c
    · have := hmem "insertable" (by simp [c]); exact absurd this (by decide)
  have k1 : clauseMissing synced b = true := by
    by_cases c : clauseMissing synced b = true
    · exact c
    · have := hmem "missing" (by simp [c]); exact absurd this (by decide)
  -- the batch ends below u64::MAX + 1: it is disjoint from … or bounded by head / a synced start
  have hb2 : b.2 ≤ U64_MAX := by
    rcases hf with h | ⟨_, x, hx, _, _⟩
    · have h3 : clauseHead head b = true := by
        by_cases c : clauseHead head b = true
        · exact c
        · have : "head" ∈ failing head synced limit b := by simp [failing, hnlt, c]
          rw [h] at this; cases this
      simp only [clauseHead, decide_eq_true_eq] at h3; omega
    · -- store ahead: the batch lies below the highest synced range
      have h4 : clauseAnchor head synced b = true := by
        by_cases c : clauseAnchor head synced b = true
        · exact c
        · have := hmem "anchor" (by simp [c]); exact absurd this (by decide)
      have hbeh : behind head synced = false := by
        obtain ⟨r, hr, h1, h2⟩ := hx
        rcases List.eq_nil_or_concat synced with rfl | ⟨ys, l, rfl⟩
        · cases hr
        · rw [List.concat_eq_append] at hi hr ⊢
          have := (inv_le_last hi r hr).2
          simp [behind, top]; omega
      simp only [clauseAnchor, hbeh, Bool.false_eq_true, ↓reduceIte] at h4
      cases hl : synced.getLast? with
      | none => simp [hl] at h4
      | some l =>
        simp only [hl, beq_iff_eq] at h4
        obtain ⟨ys, rfl⟩ := List.getLast?_eq_some_iff.1 hl
        have := inv_validR hi (r := l) (by simp)
        unfold ValidR at this
        omega
  exact (Lumina.Props.C18.constraints_ok_iff hi b hb2).2 k6

/-- the same for `Worker::fetch_next_batch`'s `pruned_ranges + &store_ranges`: the synced set is
    the union of stored and pruned heights and the batch satisfies the spec with respect to it -/
theorem nextBatch_spec {stored pruned : Ranges} (hs : RInv stored) (hp : RInv pruned) (head limit : Nat)
    (hh : head ≤ U64_MAX) :
    ∃ synced b, add pruned stored = .ok synced ∧ RInv synced ∧
      (∀ h, mem synced h ↔ mem pruned h ∨ mem stored h) ∧
      nextBatch head stored pruned limit = .ok b ∧
      specFetchExceptHead head synced limit b = true ∧
      ((∀ x, mem stored x → x ≤ head) → (∀ x, mem pruned x → x ≤ head) →
        specFetch head synced limit b = true) := by
  obtain ⟨synced, e1, i1, m1⟩ := add_spec hp hs
  obtain ⟨b, e2, hf⟩ := calc_spec i1 head limit hh
  refine ⟨synced, b, e1, i1, m1, by simp [nextBatch, e1, e2, ok_bind], ?_, ?_⟩
  · rcases hf with h | ⟨h, _⟩ <;> simp [specFetchExceptHead, h]
  · intro h1 h2
    rcases hf with h | ⟨_, x, hx, hlt, _⟩
    · simp [specFetch, h]
    · rcases (m1 x).1 hx with hx | hx
      · have := h2 x hx; omega
      · have := h1 x hx; omega


/-- clause (d) in Prop form: the batch lies above every synced height, or the height right above
    it is synced -/
theorem fetch_range_anchor {synced : Ranges} (hi : RInv synced) (head limit : Nat) (hh : head ≤ U64_MAX) :
    ∃ b, calculateRangeToFetch head synced limit = .ok b ∧
      (b.1 ≤ b.2 → (∀ x, mem synced x → x < b.1) ∨ mem synced (b.2 + 1)) := by
  obtain ⟨b, e, hf⟩ := calc_spec hi head limit hh
  refine ⟨b, e, fun hne => ?_⟩
  have hnlt : ¬ b.2 < b.1 := by omega
  have hmem : ∀ c ∈ failing head synced limit b, c = "head" := by
    rcases hf with h | ⟨h, _⟩ <;> simp [h]
  simp only [failing, hnlt, ↓reduceIte] at hmem
  have k4 : clauseAnchor head synced b = true := by
    by_cases c : clauseAnchor head synced b = true
    · exact c
    · have := hmem "anchor" (by simp [c]); exact absurd this (by decide)
  rcases List.eq_nil_or_concat synced with rfl | ⟨ys, l, rfl⟩
  · exact Or.inl (fun x hx => absurd hx (mem_nil x))
  · rw [List.concat_eq_append] at hi k4 ⊢
    have hlast : (ys ++ [l]).getLast? = some l := List.getLast?_concat
    by_cases hb : behind head (ys ++ [l]) = true
    · left
      simp only [clauseAnchor, hb, ↓reduceIte, top_concat, beq_iff_eq] at k4
      rintro x ⟨r, hr, h1, h2⟩
      have := (inv_le_last hi r hr).2
      omega
    · right
      have hb' : behind head (ys ++ [l]) = false := by simpa using hb
      simp only [clauseAnchor, hb', Bool.false_eq_true, ↓reduceIte, hlast, beq_iff_eq] at k4
      have hv := inv_validR hi (r := l) (by simp)
      rw [k4]
      exact ⟨l, by simp, Nat.le_refl _, hv.2.1⟩

open Lumina.Model.SyncerGate in
/-- **"so that inserting it extends stored data", at the level of `Worker::fetch_next_batch`
    and of the ranges the stores really check.**  Whenever the fetch decision (all gates of
    `fetch_next_batch`, after the C25 repair `339a537`) is to request a batch, that batch is
    admitted by `check_insertion_constraints` of the STORED header ranges (not merely of
    stored ∪ pruned), for every stored / pruned / sampled value satisfying `Inv`. -/
theorem fetchDecision_request_insertable {slowMin : Nat} {i : GateIn} {r : Range}
    (hs : RInv i.stored) (hp : RInv i.pruned) (hh : ∀ h, i.head = some h → h ≤ U64_MAX)
    (hd : fetchDecision slowMin i = .ok (.request r)) :
    ∃ p n, checkInsertionConstraints i.stored r = .ok (p, n) := by
  unfold fetchDecision fetchDecisionWith at hd
  by_cases c1 : i.ongoing = true
  · simp [c1] at hd
  by_cases c2 : (i.connectedPeers == 0) = true
  · simp [c1, c2] at hd
  cases hhead : i.head with
  | none => simp [c1, c2, hhead] at hd
  | some head =>
    obtain ⟨synced, e1, i1, m1⟩ := add_spec hp hs
    have hhd := hh head hhead
    obtain ⟨b, e2, hmiss⟩ := fetch_range_missing_size i1 head i.batchSize hhd
    obtain ⟨b', e2', hanch⟩ := fetch_range_anchor i1 head i.batchSize hhd
    rw [e2] at e2'; cases e2'
    simp only [c1, c2, hhead, e1, e2, Bool.false_eq_true, ↓reduceIte] at hd
    by_cases c3 : Range.isEmpty b = true
    · simp [c3] at hd
    simp only [c3, Bool.false_eq_true, ↓reduceIte] at hd
    have hne : b.1 ≤ b.2 := by simpa [Range.isEmpty] using c3
    obtain ⟨hm, _, hb1⟩ := hmiss hne
    cases hslow : slowSyncStop slowMin i b with
    | error e => simp [hslow] at hd
    | ok v =>
      cases v with
      | true => simp [hslow] at hd
      | false =>
        simp only [hslow] at hd
        by_cases c4 : b.2 + 1 ≤ U64_MAX
        · simp only [addU64, c4, ↓reduceIte, windowGate] at hd
          have hvalid : Range.valid b = true := (valid_iff b).2 ⟨hb1, hne⟩
          -- not sharing a height with the stored ranges: stored ⊆ synced
          have hno : Lumina.Spec.C18.sharesHeight i.stored b = false := by
            rw [← Bool.not_eq_true]
            intro hsh
            obtain ⟨h, hmem, h1, h2⟩ := (Lumina.Props.C18.sharesHeight_iff hs hne).1 hsh
            exact hm h h1 h2 ((m1 h).2 (Or.inr hmem))
          have hadm : ∀ (hpl : Lumina.Spec.C18.placementOk i.stored b = true),
              ∃ p n, checkInsertionConstraints i.stored b = .ok (p, n) := by
            intro hpl
            apply (Lumina.Props.C18.constraints_ok_iff hs b (by omega)).2
            simp [Lumina.Spec.C18.admitted, Lumina.Props.C18.validR_eq_valid, hvalid, hno, hpl]
          by_cases c5 : contains i.stored (b.2 + 1) = true
          · -- the upper neighbour is stored
            by_cases c6 : i.inWindow (b.2 + 1) = true
            · simp only [c5, c6, ↓reduceIte, Except.ok.injEq, Decision.request.injEq] at hd
              subst hd
              apply hadm
              simp only [Lumina.Spec.C18.placementOk, Lumina.Spec.C18.touchesStored,
                Lumina.Spec.C18.aboveStored, Bool.or_eq_true]
              right; right
              rw [member_iff]; exact (contains_iff_mem _ _).1 c5
            · simp [c5, c6] at hd
          · by_cases c7 : contains synced (b.2 + 1) = true
            · simp [c5, c7] at hd
            · simp only [c5, c7, Bool.false_eq_true, ↓reduceIte, Bool.and_false, Except.ok.injEq,
                Decision.request.injEq] at hd
              subst hd
              -- the upper neighbour is not synced: the batch lies above everything synced
              rcases hanch hne with habove | hnext
              · apply hadm
                simp only [Lumina.Spec.C18.placementOk, Bool.or_eq_true]
                left; right
                rw [Lumina.Props.C18.aboveHighest_iff hs]
                intro h hmem
                exact habove h ((m1 h).2 (Or.inr hmem))
              · exact absurd ((contains_iff_mem _ _).2 hnext) c7
        · simp [addU64, c4] at hd

/-- stored 900..=1000, pruned 800..=899, head 1000, batch size 512, everything inside the window -/
def prunedEdgeGate : Lumina.Model.SyncerGate.GateIn where
  ongoing := false
  connectedPeers := 1
  head := some 1000
  stored := [(900, 1000)]
  pruned := [(800, 899)]
  sampled := []
  batchSize := 512
  slowSync := none
  inWindow := fun _ => true

open Lumina.Model.SyncerGate in
/-- before the C25 repair the decision could request a batch the store then rejects
    (288..=799, `NoAdjacentNeighbors`); the repaired decision stays idle -/
theorem fetchDecisionOld_not_insertable_counterexample :
    fetchDecisionOld 50 prunedEdgeGate = .ok (.request (288, 799)) ∧
    checkInsertionConstraints prunedEdgeGate.stored (288, 799) = .error (.noAdjacent (288, 799)) ∧
    fetchDecision 50 prunedEdgeGate = .ok (.idle .boundPruned) := by
  refine ⟨rfl, rfl, rfl⟩

/-! ### non-vacuity -/

example : RInv [(256, 512)] := inv_of_invB (by decide)
example : calculateRangeToFetch 1024 [(256, 512)] 16 = .ok (513, 528) := rfl
example : calculateRangeToFetch 4000 [(2500, 2800), (3000, 4000)] 500 = .ok (2801, 2999) := rfl
example : specFetch 4000 [(2500, 2800), (3000, 4000)] 500 (2801, 2999) = true := by decide
example : ∀ x, mem [(2500, 2800), (3000, 4000)] x → x ≤ 4000 := by
  rintro x ⟨r, hr, h1, h2⟩
  simp at hr
  rcases hr with rfl | rfl <;> simp at h2 <;> omega

end Lumina.Props.C24

/-
  C31 — Network head selection follows the best-head rule.   PROPERTY THEOREMS ONLY.

  Model: Lumina/Model/HeadSelect.lean.  Spec: Lumina/Spec/C31.lean.
-/
import Lumina.Proofs.HeadSelect
import Lumina.Gen.C31

namespace Lumina.Props.C31
open Lumina.Util Lumina.Model.HeadSelect Lumina.Proofs.HeadSelect
open Lumina.Spec.C31 (specBestHead specRecipients specFanout PeerInfo)

def toInfo (p : Peer) : PeerInfo := { id := p.id, connected := p.connected, trusted := p.trusted }

/-- the numbers the rule quotes; and the fan-out is small enough for std's `sort_unstable` to be
    its (stable) insertion sort, which is what the model transcribes -/
theorem consts_eq :
    Lumina.Gen.C31.MIN_HEAD_RESPONSES = 2 ∧ Lumina.Gen.C31.MIN_HEAD_RESPONSES = MIN_HEAD_RESPONSES ∧
    Lumina.Gen.C31.MAX_PEERS = 10 ∧ Lumina.Gen.C31.MAX_PEERS ≤ 20 := by decide

/-- **the best-head rule**, for every list of peer answers (any number of peers, any mix of valid
    single headers, errors, failures, multi-header answers, forks, duplicates) -/
theorem bestHead_spec (as : List Ans) :
    specBestHead ((valid as).map toSpec) ((bestHead as).map toSpec) = true := by
  cases hb : bestHead as with
  | none =>
    have := (bestHead_none as).mp hb
    simp [this, specBestHead]
  | some h => exact spec_of_rule _ h (bestHead_rule as h hb)

/-- **independent of response order**: the head chosen from ANY reordering of the answers obeys the
    rule stated over the original answers -/
theorem bestHead_order_independent (as as' : List Ans) (hp : as.Perm as') :
    specBestHead ((valid as).map toSpec) ((bestHead as').map toSpec) = true := by
  cases hb : bestHead as' with
  | none =>
    have h1 := (bestHead_none as').mp hb
    have h2 : valid as = [] := by
      have := (valid_perm as as' hp).length_eq
      rw [h1] at this
      exact List.eq_nil_of_length_eq_zero this
    simp [h2, specBestHead]
  | some h =>
    exact spec_of_rule _ h (rule_perm _ _ (valid_perm as as' hp).symm h (bestHead_rule as' h hb))

/-- … and two orderings can differ at most in which of several equally good headers is named:
    same height, same "reported by at least two peers" status, and a head exists for one iff for the other -/
theorem bestHead_order_unique (as as' : List Ans) (hp : as.Perm as') :
    match bestHead as, bestHead as' with
    | some a, some b => a.height = b.height ∧ (votes (valid as) a ≥ 2 ↔ votes (valid as) b ≥ 2)
    | none, none => True
    | _, _ => False := by
  cases ha : bestHead as with
  | none =>
    cases hb : bestHead as' with
    | none => trivial
    | some b =>
      have h1 := (bestHead_none as).mp ha
      have := (valid_perm as as' hp).length_eq
      rw [h1] at this
      have h2 : valid as' = [] := List.eq_nil_of_length_eq_zero this.symm
      have := (bestHead_none as').mpr h2
      rw [hb] at this
      simp at this
  | some a =>
    cases hb : bestHead as' with
    | none =>
      have h1 := (bestHead_none as').mp hb
      have := (valid_perm as as' hp).length_eq
      rw [h1] at this
      have h2 : valid as = [] := List.eq_nil_of_length_eq_zero this
      have := (bestHead_none as).mpr h2
      rw [ha] at this
      simp at this
    | some b =>
      exact rule_unique (valid as) a b (bestHead_rule as a ha)
        (rule_perm _ _ (valid_perm as as' hp).symm b (bestHead_rule as' b hb))

/-- **sent only to connected trusted peers**, each once, at most 10, nobody eligible left out
    while fewer than 10 were asked — for every peer population -/
theorem recipients_spec (peers : List Peer) (hnd : (peers.map (·.id)).Nodup) :
    specRecipients (peers.map toInfo) ((selectPeers Lumina.Gen.C31.MAX_PEERS peers).map (·.id)) = true := by
  rw [consts_eq.2.2.1]
  unfold specRecipients selectPeers
  simp only [Bool.and_eq_true, Bool.or_eq_true, List.all_eq_true, decide_eq_true_eq, List.any_eq_true,
    List.mem_map, List.length_map, beq_iff_eq, List.contains_eq_mem]
  refine ⟨⟨⟨?_, ?_⟩, ?_⟩, ?_⟩
  · rintro i ⟨p, hp, rfl⟩
    have hf := List.mem_of_mem_take hp
    rw [List.mem_filter] at hf
    refine ⟨toInfo p, ⟨p, hf.1, rfl⟩, ?_⟩
    simpa [toInfo] using hf.2
  · have hs : ((List.filter (fun p => p.connected && p.trusted) peers).take 10).Sublist peers :=
      (List.take_sublist _ _).trans List.filter_sublist
    exact hnd.sublist (hs.map _)
  · rw [List.length_take]; omega
  · by_cases hl : (List.filter (fun p => p.connected && p.trusted) peers).length ≤ 10
    · right
      rw [List.take_of_length_le hl]
      rintro q hq
      rw [List.mem_filter, List.mem_map] at hq
      obtain ⟨⟨p, hp, rfl⟩, he⟩ := hq
      refine ⟨p, ?_, rfl⟩
      rw [List.mem_filter]
      exact ⟨hp, by simpa [toInfo] using he⟩
    · left
      rw [List.length_take]; omega

/-- **every waiting caller receives the same answer**: when the best-head task finishes with a head,
    each caller waiting at that moment (early or late) gets exactly that header, once, and the queue empties -/
theorem fanout_spec (mp : Nat) (s : State) (closed : List Nat) (answers : List Ans) (h : Hdr)
    (hb : bestHead answers = some h) :
    let r := step mp s closed (.done answers)
    specFanout s.waiting (toSpec h)
      (r.2.filterMap (fun o => match o with | .answer c x => some (c, toSpec x) | _ => none)) = true ∧
    r.1.waiting = [] ∧ r.1.scheduled = false := by
  simp only [step, hb, specFanout, List.filterMap_map, and_true, Bool.and_eq_true, List.all_eq_true, beq_iff_eq]
  constructor
  · intro a ha
    simp only [List.mem_filterMap, Function.comp] at ha
    obtain ⟨c, _, hc⟩ := ha
    simp at hc
    rw [← hc]
  · induction s.waiting with
    | nil => rfl
    | cons c t ih => simpa using ih

/-- no valid answer: nobody is answered, the callers keep waiting and the request is re-armed -/
theorem retry_when_nothing_valid (mp : Nat) (s : State) (closed : List Nat) (answers : List Ans)
    (hv : valid answers = []) :
    step mp s closed (.done answers) = ({ s with scheduled := false }, []) := by
  simp [step, (bestHead_none answers).mpr hv]

/-- a HEAD request goes out only for a live waiting caller, only when none is in flight, and only
    to the selected peers -/
theorem schedule_sends (mp : Nat) (s : State) (closed : List Nat) (peers : List Peer) (to : List Nat)
    (h : Out.sent to ∈ (step mp s closed (.schedule peers)).2) :
    s.scheduled = false ∧ (∃ c ∈ s.waiting, c ∉ closed) ∧ to = (selectPeers mp peers).map (·.id) ∧ to ≠ [] := by
  unfold step at h
  simp only at h
  split at h
  · simp at h
  · rename_i h1
    split at h
    · simp at h
    · rename_i h2
      split at h
      · simp at h
      · rename_i h3
        simp only [List.mem_singleton, Out.sent.injEq] at h
        simp only [Bool.or_eq_true, not_or, Bool.not_eq_true] at h1
        refine ⟨h1.2, ?_, h, ?_⟩
        · cases hw : s.waiting.filter (fun c => !closed.contains c) with
          | nil => rw [hw] at h2; exact absurd rfl h2
          | cons c t =>
            have hc : c ∈ s.waiting.filter (fun c => !closed.contains c) := by rw [hw]; simp
            rw [List.mem_filter] at hc
            exact ⟨c, hc.1, by simpa using hc.2⟩
        · rw [h]
          cases hs : selectPeers mp peers with
          | nil => rw [hs] at h3; exact absurd rfl h3
          | cons a t => simp

/-- non-vacuity: three peers report a fork; the doubly reported lower header wins over a single higher one -/
example : bestHead [.single ⟨7, [1]⟩, .other, .single ⟨9, [2]⟩, .single ⟨7, [1]⟩] = some ⟨7, [1]⟩ := by decide
example : bestHead [.single ⟨7, [1]⟩, .other, .single ⟨9, [2]⟩] = some ⟨9, [2]⟩ := by decide
example : ([⟨1, true, true⟩, ⟨2, true, false⟩, ⟨3, false, true⟩] : List Peer).map (·.id) |>.Nodup := by decide

end Lumina.Props.C31

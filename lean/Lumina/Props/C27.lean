/-
  C27 — Verified header range requests terminate and never panic.   PROPERTY THEOREMS ONLY.

  Model: Lumina/Model/HeaderRange.lean (`P2p::get_verified_headers_range`) = the session model
  (C26) driven against a simulated header-ex client that answers like the real one (the C28
  model: `is_valid` gate + `decode_and_verify_responses` over what the peers send).  The network
  `Net` — how many headers the peers hold, in which order outstanding requests are answered, how
  each answer is truncated or replaced by NOT_FOUND / INVALID — is arbitrary, as are `from`'s
  height, the amount (any natural number, in particular every `u64`) and the step budget.
-/
import Lumina.Proofs.HeaderRange
import Lumina.Gen.C27
import Lumina.Spec.C27

namespace Lumina.Props.C27
open Lumina.Model.Session (State Cfg init result Range)
open Lumina.Model.HeaderExClient (Hdr)
open Lumina.Model.HeaderRange
open Lumina.Proofs.Session (Inv Full)
open Lumina.Proofs.HeaderRange
open Lumina.Spec.C27

def cfg : Cfg :=
  { minAmount := Lumina.Gen.C27.MIN_AMOUNT_PER_REQ, maxAmount := Lumina.Gen.C27.MAX_AMOUNT_PER_REQ,
    maxConcurrent := Lumina.Gen.C27.MAX_CONCURRENT_REQS }

theorem consts_eq :
    cfg.maxAmount = 64 ∧ cfg.minAmount = 8 ∧ cfg.maxConcurrent = 8 ∧ Lumina.Gen.C27.HASH_SIZE = 32 := by
  decide

/-- the code as it is now (after the `fix:` commits in p2p.rs and header_ex/client.rs) -/
def model (i : Input) : Out := getVerifiedHeadersRangeG true true cfg Lumina.Gen.C27.HASH_SIZE i

def specIn (i : Input) : In :=
  { fromValid := i.fromValid, fromHeight := i.fromHeight, sameChain := i.sameChain, amount := i.amount,
    chainLen := i.net.chainLen, progressing := i.net.beh.all Beh.progressing, fuel := i.fuel }

def obsOf : Out → Obs
  | .ok hs steps => .ok (hs.map (·.height)) steps
  | .err _ steps => .err steps
  | .panic => .panic
  | .hang => .hang

/-- **prompt for zero**: an amount of 0 returns `Ok([])` without issuing a single request,
    whatever the network does -/
theorem zero_amount_prompt (i : Input) (hv : i.fromValid = true) (h0 : i.amount = 0) :
    model i = .ok [] 0 := by
  simp [model, getVerifiedHeadersRangeG, hv, h0]

/-- the main branch of the model: the session on the range `from+1 ..= from+amount` -/
theorem model_main (i : Input) (hv : i.fromValid = true) (h0 : i.amount ≠ 0)
    (hfit : i.fromHeight + i.amount ≤ U64_MAX) :
    model i =
      match drive 32 true i.net i.fuel 0 (init cfg (i.fromHeight + 1, i.fromHeight + i.amount)) with
      | .panic => .panic
      | .hang => .hang
      | .done s steps =>
        match s.status with
        | .panicked => .panic
        | .failed => .err "Fatal" steps
        | .running =>
          if verifyAdjacentRange i.fromHeight i.sameChain (result ht s) then .ok (result ht s) steps
          else .err "InvalidResponse" steps := by
  have h1 : ¬ U64_MAX < i.fromHeight + 1 := by omega
  have h2 : ¬ U64_MAX < i.fromHeight + 1 + (i.amount - 1) := by omega
  have h3 : i.fromHeight + 1 + (i.amount - 1) = i.fromHeight + i.amount := by omega
  have h2' : ¬ U64_MAX < i.fromHeight + i.amount := by omega
  have hr : 1 ≤ i.fromHeight + 1 ∧ i.fromHeight + 1 ≤ i.fromHeight + i.amount ∧
      i.fromHeight + i.amount ≤ Lumina.Model.Session.U64_MAX := ⟨by omega, by omega, hfit⟩
  have hinit := (Lumina.Proofs.Session.inv_init ht cfg (i.fromHeight + 1, i.fromHeight + i.amount)
    (by decide) hr).1.running
  have hnp : ¬ ((init cfg (i.fromHeight + 1, i.fromHeight + i.amount) : State Hdr).status = .panicked) := by
    rw [hinit]; decide
  have hs32 : Lumina.Gen.C27.HASH_SIZE = 32 := by decide
  simp only [model, getVerifiedHeadersRangeG, hv, Bool.not_true, Bool.false_eq_true, ↓reduceIte,
    Bool.true_and, beq_iff_eq, h0, h1, h2', h3, hnp, hs32]
  rfl

/-- the session state reached by the drive satisfies the C26 invariant -/
theorem model_drive (i : Input) (h0 : i.amount ≠ 0) (hfit : i.fromHeight + i.amount ≤ U64_MAX) :
    drive 32 true i.net i.fuel 0 (init cfg (i.fromHeight + 1, i.fromHeight + i.amount)) ≠ .panic ∧
    ∀ s' steps, drive 32 true i.net i.fuel 0 (init cfg (i.fromHeight + 1, i.fromHeight + i.amount)) = .done s' steps →
      s'.status = .failed ∨
        (Inv ht 64 (i.fromHeight + 1, i.fromHeight + i.amount) s' ∧ Full 8 s' ∧ s'.tasks = []) := by
  have hr : 1 ≤ i.fromHeight + 1 ∧ i.fromHeight + 1 ≤ i.fromHeight + i.amount ∧
      i.fromHeight + i.amount ≤ Lumina.Model.Session.U64_MAX := ⟨by omega, by omega, hfit⟩
  have hi := Lumina.Proofs.Session.inv_init ht cfg (i.fromHeight + 1, i.fromHeight + i.amount)
    (by decide) hr
  exact drive_inv i.net (i.fromHeight + 1, i.fromHeight + i.amount) hr i.fuel 0 _ hi.1 hi.2

/-- **never panics**: for every `from` height (a `u64` below the maximum; real heights are
    below `i64::MAX`), every amount, every network and every schedule -/
theorem never_panics (i : Input) (hh : i.fromHeight < U64_MAX) : model i ≠ .panic := by
  by_cases hv : i.fromValid = true
  · by_cases h0 : i.amount = 0
    · rw [zero_amount_prompt i hv h0]; simp
    · by_cases hfit : i.fromHeight + i.amount ≤ U64_MAX
      · rw [model_main i hv h0 hfit]
        obtain ⟨hnp, hdone⟩ := model_drive i h0 hfit
        cases hd : drive 32 true i.net i.fuel 0 (init cfg (i.fromHeight + 1, i.fromHeight + i.amount)) with
        | panic => exact absurd hd hnp
        | hang => simp
        | done s steps =>
          rcases hdone s steps hd with hf | hinv
          · simp [hf]
          · have := hinv.1.running
            simp only [this]
            split <;> simp
      · -- `height.checked_add(amount - 1)` fails: InvalidRequest
        have h1 : ¬ U64_MAX < i.fromHeight + 1 := by omega
        have h2 : U64_MAX < i.fromHeight + 1 + (i.amount - 1) := by omega
        simp [model, getVerifiedHeadersRangeG, hv, h0, h1, h2]
  · simp [model, getVerifiedHeadersRangeG, hv]

/-- whenever the call returns `Ok`, it returns headers of exactly the requested heights
    `from+1, …, from+amount`, in order -/
theorem ok_exact (i : Input) (hh : i.fromHeight < U64_MAX) (hs : List Hdr) (steps : Nat)
    (h : model i = .ok hs steps) :
    hs.map (·.height) = List.range' (i.fromHeight + 1) i.amount ∧ (i.amount = 0 ∨ i.sameChain = true) := by
  by_cases hv : i.fromValid = true
  · by_cases h0 : i.amount = 0
    · rw [zero_amount_prompt i hv h0] at h
      cases h
      simp [h0]
    · by_cases hfit : i.fromHeight + i.amount ≤ U64_MAX
      · rw [model_main i hv h0 hfit] at h
        obtain ⟨_, hdone⟩ := model_drive i h0 hfit
        cases hd : drive 32 true i.net i.fuel 0 (init cfg (i.fromHeight + 1, i.fromHeight + i.amount)) with
        | panic => simp [hd] at h
        | hang => simp [hd] at h
        | done s steps' =>
          rcases hdone s steps' hd with hfail | ⟨hinv, hfull, htasks⟩
          · simp [hd, hfail] at h
          simp only [hd, hinv.running] at h
          split at h
          · rename_i hver
            cases h
            have hnf : s.toFetch = none := by
              cases hf : s.toFetch with
              | none => rfl
              | some tf => have := hfull tf hf; rw [htasks] at this; simp at this
            have hres := Lumina.Proofs.Session.result_eq ht 64 _ s hinv htasks hnf
            rw [Lumina.Proofs.Session.rangeLen_pos (by simp only; omega)] at hres
            have hlen : i.fromHeight + i.amount - (i.fromHeight + 1) + 1 = i.amount := by omega
            simp only [hlen] at hres
            refine ⟨hres, Or.inr ?_⟩
            -- a non-empty result passed `verify_adjacent_range`
            have hne : result ht s ≠ [] := by
              intro e
              have := congrArg List.length hres
              rw [e] at this
              simp at this
              omega
            unfold verifyAdjacentRange at hver
            split at hver
            · rename_i e; exact absurd e hne
            · simp only [Bool.and_eq_true] at hver
              exact hver.2
          · cases h
      · have h1 : ¬ U64_MAX < i.fromHeight + 1 := by omega
        have h2 : U64_MAX < i.fromHeight + 1 + (i.amount - 1) := by omega
        simp [model, getVerifiedHeadersRangeG, hv, h0, h1, h2] at h
  · simp [model, getVerifiedHeadersRangeG, hv] at h

theorem progressing_cyc (l : List Beh) (h : l.all Beh.progressing = true) :
    ∀ j, (cyc l j .full).progressing = true := by
  intro j
  unfold cyc
  split
  · rfl
  · rename_i hl
    have hlt : j % l.length < l.length := Nat.mod_lt _ (by omega)
    have hmem := getD_mem l (j % l.length) .full hlt
    exact List.all_eq_true.mp h _ hmem

/-- **served ⇒ exactly those headers**: when `from` is a valid header of the chain the peers
    serve, the peers hold every requested height and every answer delivers at least one requested
    header (full OR truncated answers) — in ANY order — the call returns exactly the chain's headers
    `from+1 ..= from+amount`, within `amount` answered requests -/
theorem served_returns_exactly (i : Input) (hserved : served (specIn i) = true)
    (hchain : i.net.chainLen ≤ U64_MAX) :
    ∃ steps, steps ≤ i.amount ∧
      model i = .ok ((List.range' (i.fromHeight + 1) i.amount).map chainHdr) steps := by
  simp only [served, specIn, Bool.and_eq_true, decide_eq_true_eq] at hserved
  obtain ⟨⟨⟨⟨⟨hv, hsame⟩, hfull⟩, hamt⟩, hcov⟩, hfuel⟩ := hserved
  have hamt := of_decide_eq_true hamt
  have hcov := of_decide_eq_true hcov
  have hfuel := of_decide_eq_true hfuel
  have h0 : i.amount ≠ 0 := by omega
  have hfit : i.fromHeight + i.amount ≤ U64_MAX := by omega
  have hr : 1 ≤ i.fromHeight + 1 ∧ i.fromHeight + 1 ≤ i.fromHeight + i.amount ∧
      i.fromHeight + i.amount ≤ Lumina.Model.Session.U64_MAX := ⟨by omega, by omega, hfit⟩
  have hi := Lumina.Proofs.Session.inv_init ht cfg (i.fromHeight + 1, i.fromHeight + i.amount)
    (by decide) hr
  -- nothing received yet
  have hresp0 : (init cfg (i.fromHeight + 1, i.fromHeight + i.amount) : State Hdr).responses = [] := by
    rw [Lumina.Proofs.Session.init_eq cfg _ hr]
    have : ∀ n (s : State Hdr), s.responses = [] →
        (Nat.repeat Lumina.Model.Session.sendNextRequest n s).responses = [] := by
      intro n
      induction n with
      | zero => intro s h; exact h
      | succ n ih =>
        intro s h
        rw [Lumina.Proofs.Session.repeat_succ', Lumina.Proofs.Session.sendNextRequest_responses]
        exact ih s h
    exact this _ _ rfl
  have hch0 : ChainOnly (init cfg (i.fromHeight + 1, i.fromHeight + i.amount) : State Hdr) := by
    intro x hx; rw [hresp0] at hx; simp at hx
  have hrem : Lumina.Proofs.Session.remaining (init cfg (i.fromHeight + 1, i.fromHeight + i.amount) : State Hdr)
      ≤ i.fuel := by
    have := Lumina.Proofs.Session.inv_length ht 64 _ _ hi.1
    rw [hresp0, Lumina.Proofs.Session.rangeLen_pos (by simp only; omega)] at this
    simp only [List.flatten_nil, List.length_nil, Nat.zero_add] at this
    omega
  have hrem0 : Lumina.Proofs.Session.remaining (init cfg (i.fromHeight + 1, i.fromHeight + i.amount) : State Hdr)
      = i.amount := by
    have := Lumina.Proofs.Session.inv_length ht 64 _ _ hi.1
    rw [hresp0, Lumina.Proofs.Session.rangeLen_pos (by simp only; omega)] at this
    simp only [List.flatten_nil, List.length_nil, Nat.zero_add] at this
    omega
  obtain ⟨s', steps, hd, hinv, hfull', htasks, hch, hsteps⟩ :=
    drive_served i.net (i.fromHeight + 1, i.fromHeight + i.amount) hr (by simp only; omega)
      (progressing_cyc _ hfull) i.fuel 0 _ hi.1 hi.2 hch0 hrem
  refine ⟨steps, by omega, ?_⟩
  rw [model_main i hv h0 hfit, hd]
  simp only [hinv.running]
  have hnf : s'.toFetch = none := by
    cases hf : s'.toFetch with
    | none => rfl
    | some tf => have := hfull' tf hf; rw [htasks] at this; simp at this
  have hres := Lumina.Proofs.Session.result_eq ht 64 _ s' hinv htasks hnf
  rw [Lumina.Proofs.Session.rangeLen_pos (by simp only; omega)] at hres
  have hlen : i.fromHeight + i.amount - (i.fromHeight + 1) + 1 = i.amount := by omega
  simp only [hlen] at hres
  -- every returned header is a chain header
  have hall : ∀ x ∈ result ht s', x = chainHdr x.height := by
    intro x hx
    exact hch x ((Lumina.Proofs.Session.result_perm ht s').mem_iff.mp hx)
  have hreseq : result ht s' = (List.range' (i.fromHeight + 1) i.amount).map chainHdr := by
    rw [← hres, List.map_map]
    conv => lhs; rw [← List.map_id (result ht s')]
    apply List.map_congr_left
    intro x hx
    exact hall x hx
  have hver : verifyAdjacentRange i.fromHeight i.sameChain (result ht s') = true := by
    unfold verifyAdjacentRange
    split
    · rfl
    · have hl : (result ht s').length = i.amount := by rw [hreseq]; simp
      simp [hres, hl, hsame]
  rw [if_pos hver, hreseq]

/-- **C27, all inputs / networks / schedules**: the observable outcome satisfies the property's
    checker — never a panic; no hang for amount 0; exactly the requested headers whenever `Ok`;
    `Ok` whenever the network serves every requested header. -/
theorem range_spec (i : Input) (hh : i.fromHeight < U64_MAX) (hchain : i.net.chainLen ≤ U64_MAX) :
    specOK (specIn i) (obsOf (model i)) = true := by
  -- promptness of whatever is returned
  have hprompt : ∀ steps, (∃ hs, model i = .ok hs steps) ∨ (∃ e, model i = .err e steps) →
      prompt (specIn i) steps = true := by
    intro steps hret
    simp only [prompt, Bool.and_eq_true, Bool.or_eq_true, Bool.not_eq_true', beq_eq_false_iff_ne, ne_eq,
      beq_iff_eq, decide_eq_true_eq]
    constructor
    · by_cases h0 : i.amount = 0
      · right
        by_cases hv : i.fromValid = true
        · rw [zero_amount_prompt i hv h0] at hret
          rcases hret with ⟨hs, he⟩ | ⟨e, he⟩
          · injection he with _ h2; exact h2.symm
          · cases he
        · have : model i = .err "InvalidRequest" 0 := by simp [model, getVerifiedHeadersRangeG, hv]
          rw [this] at hret
          rcases hret with ⟨hs, he⟩ | ⟨e, he⟩
          · cases he
          · injection he with _ h2; exact h2.symm
      · left; exact h0
    · cases hs : served (specIn i) with
      | false => left; rfl
      | true =>
        right
        obtain ⟨steps', hle, he⟩ := served_returns_exactly i hs hchain
        rw [he] at hret
        rcases hret with ⟨hs', he'⟩ | ⟨e, he'⟩
        · injection he' with _ h2
          show steps ≤ i.amount
          omega
        · cases he'
  cases hm : model i with
  | panic => exact absurd hm (never_panics i hh)
  | ok hs steps =>
    have := ok_exact i hh hs steps hm
    have hp := hprompt steps (Or.inl ⟨hs, hm⟩)
    simp only [obsOf, specOK, Bool.and_eq_true, beq_iff_eq, Bool.or_eq_true]
    exact ⟨⟨this.1, this.2⟩, hp⟩
  | hang =>
    simp only [obsOf, specOK, Bool.and_eq_true, Bool.not_eq_true', beq_eq_false_iff_ne, ne_eq]
    constructor
    · intro h0
      by_cases hv : i.fromValid = true
      · rw [zero_amount_prompt i hv h0] at hm; cases hm
      · simp [model, getVerifiedHeadersRangeG, hv] at hm
    · cases hs : served (specIn i) with
      | false => rfl
      | true =>
        obtain ⟨steps, _, he⟩ := served_returns_exactly i hs hchain
        rw [he] at hm; cases hm
  | err e steps =>
    have hp := hprompt steps (Or.inr ⟨e, hm⟩)
    simp only [obsOf, specOK, Bool.and_eq_true, Bool.not_eq_true']
    refine ⟨?_, hp⟩
    cases hs : served (specIn i) with
    | false => rfl
    | true =>
      obtain ⟨steps', _, he⟩ := served_returns_exactly i hs hchain
      rw [he] at hm; cases hm

/-! ### the code BEFORE the `fix:` commit violated the property twice -/

theorem ofClient_cyc (l : List Beh) (h : l.all Beh.ofClient = true) :
    ∀ j, (cyc l j .full).ofClient = true := by
  intro j
  unfold cyc
  split
  · rfl
  · rename_i hl
    have hlt : j % l.length < l.length := Nat.mod_lt _ (by omega)
    have hmem := getD_mem l (j % l.length) .full hlt
    exact List.all_eq_true.mp h _ hmem

/-- amount 0: the session asks for 0 headers at `from+1`, the client refuses the request
    (`InvalidRequest`), the session retries — for ever: not finished after ANY number of steps,
    whatever the peers send (every answer goes through the header-ex client) -/
theorem pre_fix_zero_amount_hangs (net : Net) (hnet : net.beh.all Beh.ofClient = true) (fuel : Nat) :
    getVerifiedHeadersRangeG false true cfg 32
      { fromValid := true, fromHeight := 5, sameChain := true, amount := 0, net, fuel } = .hang := by
  have hs0 : (init cfg (6, 5) : State Hdr)
      = { toFetch := none, batchSize := 8, tasks := [(6, 0)], responses := [], status := .running } := by
    rfl
  have hloop : ∀ fuel j, drive 32 true net fuel j
      ({ toFetch := none, batchSize := 8, tasks := [(6, 0)], responses := [], status := .running } : State Hdr)
        = .hang := by
    intro fuel
    induction fuel with
    | zero => intro j; simp [drive]
    | succ n ih =>
      intro j
      have hans : answer 32 true net (cyc net.beh j .full) 6 0 = some (.err .invalidRequest) := by
        have hb := ofClient_cyc _ hnet j
        cases hc : cyc net.beh j .full <;>
          simp [hc, Beh.ofClient] at hb <;>
          simp [answer, clientAnswer, Lumina.Model.HeaderExClient.isValid]
      have hstep : Lumina.Model.Session.step
          ({ toFetch := none, batchSize := 8, tasks := [(6, 0)], responses := [], status := .running } : State Hdr)
          (.err 6 0)
          = { toFetch := none, batchSize := 8, tasks := [(6, 0)], responses := [], status := .running } := by
        rfl
      simp only [drive, List.length_cons, List.length_nil, Nat.zero_add, Nat.mod_one]
      simp [hans, hstep, ih]
  simp only [getVerifiedHeadersRangeG, Bool.not_true, Bool.false_eq_true, ↓reduceIte, Bool.false_and]
  have h1 : ¬ U64_MAX < 5 + 1 := by decide
  have h2 : ¬ U64_MAX < 5 + 1 + 0 := by decide
  simp only [h1, h2, ↓reduceIte, Nat.add_zero, Nat.add_one_sub_one, hs0, hloop]
  decide

/-- `height + amount - 1` overflowed `u64` (debug build panic) -/
theorem pre_fix_overflow_panics (net : Net) (fuel : Nat) :
    getVerifiedHeadersRangeG false true cfg 32
      { fromValid := true, fromHeight := 5, sameChain := true, amount := U64_MAX - 5, net, fuel } = .panic := by
  have h5 : 6 ≤ U64_MAX := by decide
  have h1 : ¬ U64_MAX < 5 + 1 := by omega
  have h2 : U64_MAX < 5 + 1 + (U64_MAX - 5) := by omega
  simp only [getVerifiedHeadersRangeG, Bool.not_true, Bool.false_eq_true, ↓reduceIte, Bool.false_and,
    h1, h2]

/-! ### non-vacuity -/

def demoNet : Net := { chainLen := 100, order := [3, 0, 5], beh := [.full] }
def demoIn : Input :=
  { fromValid := true, fromHeight := 5, sameChain := true, amount := 20, net := demoNet, fuel := 20 }

example : demoNet.beh.all Beh.ofClient = true := by decide
example : served (specIn demoIn) = true := by decide
example : demoIn.fromHeight < U64_MAX ∧ demoIn.net.chainLen ≤ U64_MAX := by decide
example : model demoIn = .ok ((List.range' 6 20).map chainHdr) 3 := by decide
/-- truncating but progressing peers (at most 3 headers per answer, some full): still served,
    returns the 20 headers after 9 answers -/
def truncNet : Net := { chainLen := 100, order := [3, 0, 5], beh := [.atMost 3, .full, .atMost 1] }
example : served (specIn { demoIn with net := truncNet }) = true := by decide
example : ∃ steps, steps ≤ 20 ∧
    model { demoIn with net := truncNet } = .ok ((List.range' 6 20).map chainHdr) steps :=
  served_returns_exactly { demoIn with net := truncNet } (by decide) (by decide)
/-- peers that only ever say NOT_FOUND: the (fixed) call keeps waiting — a `hang` outcome that the
    property does not exclude (the network does not serve) -/
example : model { demoIn with net := { demoNet with beh := [.notFound] } } = .hang := by decide

/-- (S9) an empty but successful answer (`Ok(vec![])`) stores nothing and reschedules the same
    request; mixed with answers that deliver, the call still returns exactly the 20 headers -/
example : model { demoIn with net := { demoNet with beh := [.emptyOk, .full] }, fuel := 40 }
    = .ok ((List.range' 6 20).map chainHdr) 6 := by decide
/-- (S9) only `Ok(vec![])`: never finishes (the network does not serve) -/
example : model { demoIn with net := { demoNet with beh := [.emptyOk] } } = .hang := by decide
/-- (S9) the responder of the third answered request is dropped: the non-HeaderEx error is
    returned at once, after 3 answered requests -/
example : model { demoIn with net := { demoNet with beh := [.full, .full, .dropped] } } = .err "Fatal" 3 := by decide

end Lumina.Props.C27

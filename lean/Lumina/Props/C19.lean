/-
  C19 — Header stores conform to one abstract store model.

  `AbsStore` (Spec/C19.lean) is the specification; `MemStore` / `RedbStore` (Model/Store.lean)
  transcribe the two implementations.  For EVERY history of calls (valid or invalid batches,
  removals, sampling marks, metadata updates, every query; no bound on length or heights) the
  results of both models are the results of the abstract store, which keeps the invariants the
  property names.  `v` is the header-verification oracle (`ExtendedHeader::verify`), arbitrary.
-/
import Lumina.Proofs.StoreHist
import Lumina.Gen.C19

open Lumina.Model.Store Lumina.Spec.C19
open Lumina.Model
open Lumina.Proofs.Store

namespace Lumina.Props.C19

/-- the models are of schema version 3 of the redb store -/
theorem schema_version : Lumina.Gen.C19.SCHEMA_VERSION = 3 := by decide

/-- IN-MEMORY STORE: for every history, every call (mutation or query) returns exactly what the
    abstract store returns: same values, same error kinds. -/
theorem mem_conforms (v : Hdr → Hdr → Bool) (ops : List Op) (hw : AllWf ops) :
    (runOps (MemStore.step v) MemStore.new ops).2 = (runOps (AbsStore.step v) init ops).2 :=
  (mem_run_sim v ops hw _ _ rm_init absInv_init).1

/-- the same as `specOK` verdicts: every observed result of the in-memory model passes the spec -/
theorem mem_specOK (v : Hdr → Hdr → Bool) (ops : List Op) (hw : AllWf ops) :
    (List.zipWith specOK (runOps (AbsStore.step v) init ops).2
        (runOps (MemStore.step v) MemStore.new ops).2).all id = true ∧
    (runOps (MemStore.step v) MemStore.new ops).2.length = ops.length := by
  rw [mem_conforms v ops hw]
  constructor
  · generalize (runOps (AbsStore.step v) init ops).2 = l
    induction l with
    | nil => rfl
    | cons a r ih => simp [List.zipWith, specOK, ih]
  · generalize Lumina.Spec.C19.init = a
    induction ops generalizing a with
    | nil => rfl
    | cons op rest ih =>
      rw [runOps_cons]
      simp [ih (fun o ho => hw o (List.mem_cons_of_mem _ ho))]

/-- REDB STORE: the same, as long as no unvalidated header is ever stored (`ValidRun`; the redb
    store re-validates on every read).  Atomicity of write transactions is built into the model
    (`RedbStore.writeTx`). -/
theorem redb_conforms (v : Hdr → Hdr → Bool) (ops : List Op) (hw : AllWf ops)
    (hv : ValidRun v init ops) :
    (runOps (RedbStore.step v) RedbStore.new ops).2 = (runOps (AbsStore.step v) init ops).2 :=
  (redb_run_sim v ops hw _ _ rr_init absInv_init hv).1

/-- in particular when every header handed to `insert` is validated -/
theorem redb_conforms_validated (v : Hdr → Hdr → Bool) (ops : List Op) (hw : AllWf ops)
    (hv : AllValidated ops) :
    (runOps (RedbStore.step v) RedbStore.new ops).2 = (runOps (AbsStore.step v) init ops).2 :=
  redb_conforms v ops hw (validRun_of_validated v ops hv _ storedValid_init)

/-- the two backends answer every history identically -/
theorem stores_agree (v : Hdr → Hdr → Bool) (ops : List Op) (hw : AllWf ops) (hv : ValidRun v init ops) :
    (runOps (MemStore.step v) MemStore.new ops).2 = (runOps (RedbStore.step v) RedbStore.new ops).2 := by
  rw [mem_conforms v ops hw, redb_conforms v ops hw hv]

/-- the abstract store keeps the invariants the property names along every history: sampled ⊆
    stored, pruned ∩ stored = ∅, both indexes single-valued, no height 0, metadata only for
    stored heights -/
theorem abs_invariants (v : Hdr → Hdr → Bool) (ops : List Op) (hw : AllWf ops) :
    invOK (runOps (AbsStore.step v) init ops).1 = true :=
  invOK_of_absInv _ (abs_run_inv v ops hw _ absInv_init (absVer_init v)).1

/-- … and so do the range indexes of the in-memory store itself -/
theorem mem_sampled_within_stored_pruned_disjoint (v : Hdr → Hdr → Bool) (ops : List Op) (hw : AllWf ops) :
    let m := (runOps (MemStore.step v) MemStore.new ops).1
    (∀ h, Ranges.mem m.sampledRanges h → Ranges.mem m.headerRanges h) ∧
    (∀ h, Ranges.mem m.prunedRanges h → ¬ Ranges.mem m.headerRanges h) := by
  obtain ⟨_, r, hi⟩ := mem_run_sim v ops hw _ _ rm_init absInv_init
  refine ⟨fun h hs => ?_, fun h hp hh => ?_⟩
  · rw [r.memH]; exact hi.sampled h ((r.memS h).1 hs)
  · have := hi.pruned h ((r.memP h).1 hp)
    rw [(r.memH h).1 hh] at this; cases this

/-- … and the range table of the redb store -/
theorem redb_sampled_within_stored_pruned_disjoint (v : Hdr → Hdr → Bool) (ops : List Op) (hw : AllWf ops)
    (hv : ValidRun v init ops) :
    let t := (runOps (RedbStore.step v) RedbStore.new ops).1
    (∀ h, Ranges.mem (rawRanges t .sampled) h → Ranges.mem (rawRanges t .header) h) ∧
    (∀ h, Ranges.mem (rawRanges t .pruned) h → ¬ Ranges.mem (rawRanges t .header) h) := by
  obtain ⟨_, r⟩ := redb_run_sim v ops hw _ _ rr_init absInv_init hv
  have hi := (abs_run_inv v ops hw _ absInv_init (absVer_init v)).1
  refine ⟨fun h hs => ?_, fun h hp hh => ?_⟩
  · rw [r.memH]; exact hi.sampled h ((r.memS h).1 hs)
  · have := hi.pruned h ((r.memP h).1 hp)
    rw [(r.memH h).1 hh] at this; cases this

/-- sampling metadata accumulates every added CID: after a successful update of a stored height
    the metadata of that height contains every new CID and every CID it contained before -/
theorem meta_accumulates (a : AbsStore) (h : Nat) (cids : List Cid) (hs : a.stored h = true) :
    ∃ l, (a.updateMeta h cids).1.metaOf h = some l ∧ (a.updateMeta h cids).2 = .ok .unit ∧
      (∀ c ∈ cids, c ∈ l) ∧ (∀ l0, a.metaOf h = some l0 → ∀ c ∈ l0, c ∈ l) := by
  cases hm : a.metaOf h with
  | none =>
    have e : a.updateMeta h cids =
        ({ a with metas := (h, cids) :: a.metas.filter (fun p => p.1 != h) }, .ok .unit) := by
      simp [AbsStore.updateMeta, hs, hm]
    rw [e]
    refine ⟨cids, ?_, rfl, fun c hc => hc, fun l0 h0 => by cases h0⟩
    rw [updated_metaOf]; simp
  | some prev =>
    have e : a.updateMeta h cids =
        ({ a with metas := (h, appendDedup prev cids) :: a.metas.filter (fun p => p.1 != h) }, .ok .unit) := by
      simp [AbsStore.updateMeta, hs, hm]
    rw [e]
    refine ⟨appendDedup prev cids, ?_, rfl, fun c hc => (mem_appendDedup _ _ c).2 (Or.inr hc), ?_⟩
    · rw [updated_metaOf]; simp
    · intro l0 h0 c hc
      cases h0
      exact (mem_appendDedup _ _ c).2 (Or.inl hc)

/-- the abstract store never answers `panic`, hence (by conformance) neither model reaches a
    `debug_assert!` / `expect` / `panic!` / arithmetic overflow of the store code in any history -/
theorem abs_never_panics (v : Hdr → Hdr → Bool) (a : AbsStore) (op : Op) :
    (AbsStore.step v a op).2 ≠ .err .panic :=
  Lumina.Proofs.Store.abs_never_panics v a op

theorem mem_never_panics (v : Hdr → Hdr → Bool) (ops : List Op) (hw : AllWf ops) :
    ∀ r ∈ (runOps (MemStore.step v) MemStore.new ops).2, r ≠ .err .panic := by
  rw [mem_conforms v ops hw]
  generalize Lumina.Spec.C19.init = a
  induction ops generalizing a with
  | nil => intro r hr; cases hr
  | cons op rest ih =>
    rw [runOps_cons]
    intro r hr
    rcases List.mem_cons.1 hr with e | e
    · rw [e]; exact abs_never_panics v a op
    · exact ih (fun o ho => hw o (List.mem_cons_of_mem _ ho)) _ r e

/-! ### non-vacuity: a concrete history with a fork, a gap fill, rejected batches of every kind,
    a removal, a re-insertion, sampling marks and metadata -/

def exV : Hdr → Hdr → Bool := fun a b => decide (b.id = a.id + 1) || decide (a.id = 2 ∧ b.id = 10)
def hd (i height hash : Nat) : Hdr := ⟨i, height, hash, true⟩
def exOps : List Op :=
  [ .insert [hd 1 1 101, hd 2 2 102],            -- ok
    .insert [hd 4 4 104],                         -- ok: new head with a gap
    .insert [hd 10 3 110],                        -- fork header: verifies below, not above → Neighbors…
    .insert [hd 3 3 103],                         -- ok: gap fill
    .insert [hd 2 2 102],                         -- Overlap
    .insert [hd 5 5 105, hd 7 7 107],             -- HeadersVerificationFailed
    .insert [hd 5 5 105, hd 6 6 101],             -- HashExists
    .insert [⟨9, 0, 109, true⟩],                  -- Invalid
    .mark 2, .updMeta 2 [7, 7, 8], .updMeta 2 [8, 9], .getMeta 2,
    .remove 1, .remove 1, .insert [hd 1 1 101], .prunedRanges, .sampledRanges, .storedRanges,
    .head, .getByHash 103, .getRange (.included 2) .unbounded, .mark 9 ]

example : AllWf exOps := by unfold AllWf; decide
example : AllValidated exOps := by unfold AllValidated; decide
example : (runOps (MemStore.step exV) MemStore.new exOps).2 =
    [ .ok .unit, .ok .unit, .err .neighborsVerificationFailed, .ok .unit,
      .err (.constraintsNotMet .overlap), .err .headersVerificationFailed, .err (.hashExists 101),
      .err (.constraintsNotMet .invalid),
      .ok .unit, .ok .unit, .ok .unit, .ok (.md (some [7, 7, 8, 9])),
      .ok .unit, .err .notFound, .ok .unit, .ok (.ranges []), .ok (.ranges [(2, 2)]), .ok (.ranges [(1, 4)]),
      .ok (.hdr (hd 4 4 104)), .ok (.hdr (hd 3 3 103)), .ok (.hdrs [hd 2 2 102, hd 3 3 103, hd 4 4 104]),
      .err .notFound ] := by decide
example : (runOps (RedbStore.step exV) RedbStore.new exOps).2 =
    (runOps (AbsStore.step exV) init exOps).2 := by decide

end Lumina.Props.C19

/-
  C19 — Header stores conform to one abstract store model.

  `AbsStore` (Spec/C19.lean) is the specification; `MemStore` / `RedbStore` (Model/Store.lean)
  transcribe the two implementations.  For EVERY history of calls (valid or invalid batches,
  removals, sampling marks, metadata updates, every query; no bound on length or heights) the
  results of both models are the results of the abstract store, which keeps the invariants the
  property names.  `v` is the header-verification oracle (`ExtendedHeader::verify`), arbitrary.
-/
import Lumina.Proofs.StoreStrict
import Lumina.Gen.C19

open Lumina.Model.Store Lumina.Spec.C19
open Lumina.Model
open Lumina.Proofs.Store

namespace Lumina.Props.C19

/-- the models are of schema version 3 of the redb store -/
theorem schema_version : Lumina.Gen.C19.SCHEMA_VERSION = 3 := by decide

/-- IN-MEMORY STORE: for every history, every call (mutation or query) returns exactly what the
    abstract store returns: same values, same error kinds. -/
theorem mem_conforms (v : Hdr → Hdr → Bool) (ops : List Op) (hw : AllWf ops) :
    (runOps (MemStore.step v) MemStore.new ops).2 = (runOps (AbsStore.step v) init ops).2 :=
  (mem_run_sim v ops hw _ _ rm_init absInv_init).1

/-- the same as `specOK` verdicts: every observed result of the in-memory model passes the spec -/
theorem mem_specOK (v : Hdr → Hdr → Bool) (ops : List Op) (hw : AllWf ops) :
    (List.zipWith specOK (runOps (AbsStore.step v) init ops).2
        (runOps (MemStore.step v) MemStore.new ops).2).all id = true ∧
    (runOps (MemStore.step v) MemStore.new ops).2.length = ops.length := by
  rw [mem_conforms v ops hw]
  constructor
  · generalize (runOps (AbsStore.step v) init ops).2 = l
    induction l with
    | nil => rfl
    | cons a r ih => simp [List.zipWith, specOK, ih]
  · generalize Lumina.Spec.C19.init = a
    induction ops generalizing a with
    | nil => rfl
    | cons op rest ih =>
      rw [runOps_cons]
      simp [ih (fun o ho => hw o (List.mem_cons_of_mem _ ho))]

/-- the FULL statement of C19 for the redb store and for the agreement of the two backends:
    no precondition on the headers.  Both are FALSE of the code (`redb_conforms_full_false`,
    `stores_agree_full_false`; open finding `C19/redb/unvalidated-header-stored`). -/
def RedbConformsFull : Prop := ∀ (v : Hdr → Hdr → Bool) (ops : List Op), AllWf ops →
  (runOps (RedbStore.step v) RedbStore.new ops).2 = (runOps (AbsStore.step v) init ops).2
def StoresAgreeFull : Prop := ∀ (v : Hdr → Hdr → Bool) (ops : List Op), AllWf ops →
  (runOps (MemStore.step v) MemStore.new ops).2 = (runOps (RedbStore.step v) RedbStore.new ops).2

/-- REDB STORE, PARTIAL: the same, as long as no unvalidated header is ever stored (`ValidRun`;
    the redb store re-validates on every read, `Store::insert` does not validate).  Without the
    hypothesis the statement fails: `stores_disagree_counterexample`. -/
theorem redb_conforms_partial (v : Hdr → Hdr → Bool) (ops : List Op) (hw : AllWf ops)
    (hv : ValidRun v init ops) :
    (runOps (RedbStore.step v) RedbStore.new ops).2 = (runOps (AbsStore.step v) init ops).2 :=
  (redb_run_sim v ops hw _ _ rr_init absInv_init hv).1

/-- PARTIAL: in particular when every header handed to `insert` is validated -/
theorem redb_conforms_validated_partial (v : Hdr → Hdr → Bool) (ops : List Op) (hw : AllWf ops)
    (hv : AllValidated ops) :
    (runOps (RedbStore.step v) RedbStore.new ops).2 = (runOps (AbsStore.step v) init ops).2 :=
  redb_conforms_partial v ops hw (validRun_of_validated v ops hv _ storedValid_init)

/-- PARTIAL: the two backends answer every history in which only validated headers get stored
    identically -/
theorem stores_agree_partial (v : Hdr → Hdr → Bool) (ops : List Op) (hw : AllWf ops) (hv : ValidRun v init ops) :
    (runOps (MemStore.step v) MemStore.new ops).2 = (runOps (RedbStore.step v) RedbStore.new ops).2 := by
  rw [mem_conforms v ops hw, redb_conforms_partial v ops hw hv]

/-- the abstract store keeps the invariants the property names along every history: sampled ⊆
    stored, pruned ∩ stored = ∅, both indexes single-valued, no height 0, metadata only for
    stored heights -/
theorem abs_invariants (v : Hdr → Hdr → Bool) (ops : List Op) (hw : AllWf ops) :
    invOK (runOps (AbsStore.step v) init ops).1 = true :=
  invOK_of_absInv _ (abs_run_inv v ops hw _ absInv_init (absVer_init v)).1

/-- … and so do the range indexes of the in-memory store itself -/
theorem mem_sampled_within_stored_pruned_disjoint (v : Hdr → Hdr → Bool) (ops : List Op) (hw : AllWf ops) :
    let m := (runOps (MemStore.step v) MemStore.new ops).1
    (∀ h, Ranges.mem m.sampledRanges h → Ranges.mem m.headerRanges h) ∧
    (∀ h, Ranges.mem m.prunedRanges h → ¬ Ranges.mem m.headerRanges h) := by
  obtain ⟨_, r, hi⟩ := mem_run_sim v ops hw _ _ rm_init absInv_init
  refine ⟨fun h hs => ?_, fun h hp hh => ?_⟩
  · rw [r.memH]; exact hi.sampled h ((r.memS h).1 hs)
  · have := hi.pruned h ((r.memP h).1 hp)
    rw [(r.memH h).1 hh] at this; cases this

/-- sampling metadata accumulates every added CID: after a successful update of a stored height
    the metadata of that height contains every new CID and every CID it contained before -/
theorem meta_accumulates (a : AbsStore) (h : Nat) (cids : List Cid) (hs : a.stored h = true) :
    ∃ l, (a.updateMeta h cids).1.metaOf h = some l ∧ (a.updateMeta h cids).2 = .ok .unit ∧
      (∀ c ∈ cids, c ∈ l) ∧ (∀ l0, a.metaOf h = some l0 → ∀ c ∈ l0, c ∈ l) := by
  cases hm : a.metaOf h with
  | none =>
    have e : a.updateMeta h cids =
        ({ a with metas := (h, cids) :: a.metas.filter (fun p => p.1 != h) }, .ok .unit) := by
      simp [AbsStore.updateMeta, hs, hm]
    rw [e]
    refine ⟨cids, ?_, rfl, fun c hc => hc, fun l0 h0 => by cases h0⟩
    rw [updated_metaOf]; simp
  | some prev =>
    have e : a.updateMeta h cids =
        ({ a with metas := (h, appendDedup prev cids) :: a.metas.filter (fun p => p.1 != h) }, .ok .unit) := by
      simp [AbsStore.updateMeta, hs, hm]
    rw [e]
    refine ⟨appendDedup prev cids, ?_, rfl, fun c hc => (mem_appendDedup _ _ c).2 (Or.inr hc), ?_⟩
    · rw [updated_metaOf]; simp
    · intro l0 h0 c hc
      cases h0
      exact (mem_appendDedup _ _ c).2 (Or.inl hc)

/-- the same on the in-memory store after ANY history: if `update_sampling_metadata(h, cids)`
    succeeds, `get_sampling_metadata(h)` afterwards returns a list that contains every new CID and
    every CID it returned before -/
theorem mem_meta_accumulates (v : Hdr → Hdr → Bool) (ops : List Op) (hw : AllWf ops) (h : Nat) (cids : List Cid)
    (hh : h ≤ U64_MAX) :
    let m := (runOps (MemStore.step v) MemStore.new ops).1
    (MemStore.step v m (.updMeta h cids)).2 = .ok .unit →
    ∃ l, (MemStore.step v (MemStore.step v m (.updMeta h cids)).1 (.getMeta h)).2 = .ok (.md (some l)) ∧
      (∀ c ∈ cids, c ∈ l) ∧
      ∀ l0, (MemStore.step v m (.getMeta h)).2 = .ok (.md (some l0)) → ∀ c ∈ l0, c ∈ l := by
  intro m hok
  obtain ⟨_, r, hi⟩ := mem_run_sim v ops hw _ _ rm_init absInv_init
  have wf1 : (Op.updMeta h cids).wf = true := by simp [Op.wf, hh]
  obtain ⟨e1, r1, _⟩ := mem_step_sim r hi v (.updMeta h cids) wf1
  have hi1 := abs_step_inv v _ (.updMeta h cids) hi wf1
  obtain ⟨e2, _, _⟩ := mem_step_sim r1 hi1 v (.getMeta h) rfl
  obtain ⟨e0, _, _⟩ := mem_step_sim r hi v (.getMeta h) rfl
  generalize (runOps (AbsStore.step v) init ops).1 = a at *
  rw [e1] at hok
  have hs : a.stored h = true := by
    cases hst : a.stored h with
    | true => rfl
    | false => simp [AbsStore.step, AbsStore.updateMeta, hst] at hok
  obtain ⟨l, hl, _, c1, c2⟩ := meta_accumulates a h cids hs
  refine ⟨l, ?_, c1, ?_⟩
  · rw [e2]
    have hs' : (a.updateMeta h cids).1.stored h = true := by
      unfold AbsStore.stored AbsStore.atHeight
      rw [updateMeta_hdrs]; exact hs
    simp only [AbsStore.step, hs', if_true, hl]
  · intro l0 h0
    rw [e0] at h0
    simp only [AbsStore.step, hs, if_true] at h0
    injection h0 with h0; injection h0 with h0
    exact c2 l0 h0

/-- the abstract store never answers `panic`, hence (by conformance) neither model reaches a
    `debug_assert!` / `expect` / `panic!` / arithmetic overflow of the store code in any history -/
theorem abs_never_panics (v : Hdr → Hdr → Bool) (a : AbsStore) (op : Op) :
    (AbsStore.step v a op).2 ≠ .err .panic :=
  Lumina.Proofs.Store.abs_never_panics v a op

theorem mem_never_panics (v : Hdr → Hdr → Bool) (ops : List Op) (hw : AllWf ops) :
    ∀ r ∈ (runOps (MemStore.step v) MemStore.new ops).2, r ≠ .err .panic := by
  rw [mem_conforms v ops hw]
  generalize Lumina.Spec.C19.init = a
  induction ops generalizing a with
  | nil => intro r hr; cases hr
  | cons op rest ih =>
    rw [runOps_cons]
    intro r hr
    rcases List.mem_cons.1 hr with e | e
    · rw [e]; exact abs_never_panics v a op
    · exact ih (fun o ho => hw o (List.mem_cons_of_mem _ ho)) _ r e

/-- REDB STORE, FULL characterisation (no hypothesis on the headers): in every history the redb
    store answers exactly like `stepS` (Proofs/StoreStrict.lean) = the abstract store in which a
    stored header is read back through `decode`: an unvalidated stored header answers
    `StoredDataError` when read, when it is the neighbour of an insertion and when it is to be
    removed (nothing changes then); everything else is the specification.  This pins the open
    finding down: the redb store deviates from the abstract store at these reads and nowhere else. -/
theorem redb_conforms_strict (v : Hdr → Hdr → Bool) (ops : List Op) (hw : AllWf ops) :
    (runOps (RedbStore.step v) RedbStore.new ops).2 = (runOps (stepS v) init ops).2 :=
  (redb_runS_sim v ops hw _ _ rr_init absInv_init (absVer_init v)).1

/-- … and the states it reaches keep the invariants the property names -/
theorem redb_strict_invariants (v : Hdr → Hdr → Bool) (ops : List Op) (hw : AllWf ops) :
    invOK (runOps (stepS v) init ops).1 = true :=
  invOK_of_absInv _ (redb_runS_sim v ops hw _ _ rr_init absInv_init (absVer_init v)).2.2.1

/-- the range table of the redb store keeps sampled within stored and pruned disjoint from
    stored in EVERY history (no hypothesis on the headers) -/
theorem redb_sampled_within_stored_pruned_disjoint (v : Hdr → Hdr → Bool) (ops : List Op) (hw : AllWf ops) :
    let t := (runOps (RedbStore.step v) RedbStore.new ops).1
    (∀ h, Ranges.mem (rawRanges t .sampled) h → Ranges.mem (rawRanges t .header) h) ∧
    (∀ h, Ranges.mem (rawRanges t .pruned) h → ¬ Ranges.mem (rawRanges t .header) h) := by
  obtain ⟨_, r, hi, _⟩ := redb_runS_sim v ops hw _ _ rr_init absInv_init (absVer_init v)
  refine ⟨fun h hs => ?_, fun h hp hh => ?_⟩
  · rw [r.memH]; exact hi.sampled h ((r.memS h).1 hs)
  · have := hi.pruned h ((r.memP h).1 hp)
    rw [(r.memH h).1 hh] at this; cases this

/-! ### the open finding: an unvalidated header accepted by `insert`

A single header is internally verified (`From<ExtendedHeader>`), an empty store accepts any valid
range: both stores take it.  The redb store then cannot read it back (decoding validates), cannot
remove it, and refuses the honest chain below it; the in-memory store behaves like the abstract
store throughout. -/

def cexV : Hdr → Hdr → Bool := fun a b => decide (b.id = a.id + 1)
/-- header 3 does not pass `validate` (e.g. a copy of a header claiming another height) -/
def cexOps : List Op :=
  [ .insert [⟨3, 5, 100, false⟩], .getByHeight 5, .hasAt 5, .remove 5,
    .insert [⟨0, 1, 100, true⟩, ⟨1, 2, 101, true⟩, ⟨2, 3, 102, true⟩] ]

/-- COUNTEREXAMPLE to the full statement: the two store models (transcriptions of the real
    stores, confirmed by `corpus/C19/unvalidated-header-in-redb.ops` against the real code)
    answer this 5-call history differently -/
theorem stores_disagree_counterexample :
    AllWf cexOps ∧
    (runOps (MemStore.step cexV) MemStore.new cexOps).2 =
      [.ok .unit, .ok (.hdr ⟨3, 5, 100, false⟩), .ok (.bool true), .ok .unit, .ok .unit] ∧
    (runOps (RedbStore.step cexV) RedbStore.new cexOps).2 =
      [.ok .unit, .err .storedDataError, .ok (.bool true), .err .storedDataError,
       .err (.constraintsNotMet .noAdjacent)] := by
  refine ⟨by unfold AllWf; decide, by decide, by decide⟩

/-- the strict abstract store predicts exactly these answers of the redb store (non-vacuity of
    `redb_conforms_strict` on a history with an unvalidated header) -/
example : (runOps (stepS cexV) init cexOps).2 =
    [.ok .unit, .err .storedDataError, .ok (.bool true), .err .storedDataError,
     .err (.constraintsNotMet .noAdjacent)] := by decide

theorem stores_agree_full_false : ¬ StoresAgreeFull := by
  intro h
  have := h cexV cexOps stores_disagree_counterexample.1
  rw [stores_disagree_counterexample.2.1, stores_disagree_counterexample.2.2] at this
  exact absurd this (by decide)

theorem redb_conforms_full_false : ¬ RedbConformsFull := by
  intro h
  have h1 := h cexV cexOps stores_disagree_counterexample.1
  have h2 := mem_conforms cexV cexOps stores_disagree_counterexample.1
  rw [← h2, stores_disagree_counterexample.2.1, stores_disagree_counterexample.2.2] at h1
  exact absurd h1 (by decide)

/-! ### non-vacuity: a concrete history with a fork, a gap fill, rejected batches of every kind,
    a removal, a re-insertion, sampling marks and metadata -/

def exV : Hdr → Hdr → Bool := fun a b => decide (b.id = a.id + 1) || decide (a.id = 2 ∧ b.id = 10)
def hd (i height hash : Nat) : Hdr := ⟨i, height, hash, true⟩
def exOps : List Op :=
  [ .insert [hd 1 1 101, hd 2 2 102],            -- ok
    .insert [hd 4 4 104],                         -- ok: new head with a gap
    .insert [hd 10 3 110],                        -- fork header: verifies below, not above → Neighbors…
    .insert [hd 3 3 103],                         -- ok: gap fill
    .insert [hd 2 2 102],                         -- Overlap
    .insert [hd 5 5 105, hd 7 7 107],             -- HeadersVerificationFailed
    .insert [hd 5 5 105, hd 6 6 101],             -- HashExists
    .insert [⟨9, 0, 109, true⟩],                  -- Invalid
    .mark 2, .updMeta 2 [7, 7, 8], .updMeta 2 [8, 9], .getMeta 2,
    .remove 1, .remove 1, .insert [hd 1 1 101], .prunedRanges, .sampledRanges, .storedRanges,
    .head, .getByHash 103, .getRange (.included 2) .unbounded, .mark 9 ]

example : AllWf exOps := by unfold AllWf; decide
example : AllValidated exOps := by unfold AllValidated; decide
example : (runOps (MemStore.step exV) MemStore.new exOps).2 =
    [ .ok .unit, .ok .unit, .err .neighborsVerificationFailed, .ok .unit,
      .err (.constraintsNotMet .overlap), .err .headersVerificationFailed, .err (.hashExists 101),
      .err (.constraintsNotMet .invalid),
      .ok .unit, .ok .unit, .ok .unit, .ok (.md (some [7, 7, 8, 9])),
      .ok .unit, .err .notFound, .ok .unit, .ok (.ranges []), .ok (.ranges [(2, 2)]), .ok (.ranges [(1, 4)]),
      .ok (.hdr (hd 4 4 104)), .ok (.hdr (hd 3 3 103)), .ok (.hdrs [hd 2 2 102, hd 3 3 103, hd 4 4 104]),
      .err .notFound ] := by decide
example : (runOps (RedbStore.step exV) RedbStore.new exOps).2 =
    (runOps (AbsStore.step exV) init exOps).2 := by decide

end Lumina.Props.C19

/-
  C33 — Data sampling marks a block sampled only after full success.

  Property theorems over the worker model `Lumina.Model.Daser` (transcription of
  `/repo/node/src/daser.rs`), for ALL states reachable by ANY history of stimuli (network answers —
  success or timeout — to any pending request in any order, store inserts and removals, peer-count
  changes, pruner commands) and ANY raw draws of the random number generator.  The property is the
  monitor `Lumina.Spec.C33`; `view33` is what the monitor sees of a state.
  Lemmas: `Lumina/Proofs/Daser.lean`, `Lumina/Proofs/DaserIndexes.lean`.
-/
import Lumina.Gen.C33
import Lumina.Proofs.Daser
import Lumina.Proofs.DaserSampled
import Lumina.Proofs.SampledShares

namespace Lumina.Props.C33
open Lumina.Model.Daser Lumina.Proofs.Daser Lumina.Proofs.DaserIndexes
open Lumina.Spec.C33

/-- at most 16 shares are sampled per block, the number the property states -/
theorem max_samples_is_16 : Lumina.Gen.C33.MAX_SAMPLES_NEEDED = 16 := by decide

/-- (used by the shared invariant; the number itself is C34's subject) -/
theorem pruner_threshold_is_512 : Lumina.Gen.C33.PRUNER_THRESHOLD = 512 := by decide

/-- a freshly created worker (any limits, any header chain) satisfies the invariant -/
theorem init_ok (limit extra : Nat) (hdr : Nat → Hdr) :
    StateOK (init { limit := limit, extra := extra, maxSamples := Lumina.Gen.C33.MAX_SAMPLES_NEEDED,
                    prunerThreshold := Lumina.Gen.C33.PRUNER_THRESHOLD } hdr) :=
  ⟨inv_init _ _, pruner_threshold_is_512, max_samples_is_16⟩

/-! ### `random_indexes`, every width -/

/-- whatever the generator draws: if `random_indexes(w, 16)` returns, the indexes are pairwise distinct,
    inside the `w × w` square, and there are exactly `min (w², 16)` of them -/
theorem random_indexes_ok (w : Nat) (draws : List (Nat × Nat)) (out : List Share)
    (h : randomIndexes w Lumina.Gen.C33.MAX_SAMPLES_NEEDED draws = some out) :
    out.Nodup ∧ (∀ p ∈ out, p.1 < w ∧ p.2 < w) ∧ out.length = min (w * w) 16 :=
  randomIndexes_spec w 16 draws out h

/-- squares with at most 16 cells are sampled completely, without randomness -/
theorem random_indexes_whole_square (w : Nat) (draws : List (Nat × Nat)) (h : w * w ≤ 16) :
    randomIndexes w Lumina.Gen.C33.MAX_SAMPLES_NEEDED draws = some (fullGrid w) ∧
    ∀ p, p ∈ fullGrid w ↔ p.1 < w ∧ p.2 < w :=
  ⟨randomIndexes_small w 16 draws h, mem_fullGrid w⟩

/-- the `while indexes.len() < 16` loop can always exit: for every wider square there are draws on which
    it terminates (the size argument: `w² > 16` distinct cells exist, each iteration adds at most one) -/
theorem random_indexes_can_exit (w : Nat) (h : 16 < w * w) :
    ∃ draws, (randomIndexes w Lumina.Gen.C33.MAX_SAMPLES_NEEDED draws).isSome = true :=
  randomIndexes_can_exit w 16 h

/-! ### the worker -/

/-- **one stimulus.**  From any state satisfying the invariant, for any stimulus with `u64` arguments and
    any raw draws: the invariant holds afterwards and the C33 monitor accepts every action of the worker:
    every `mark_as_sampled` directly follows a `SamplingResult` without timeout of a block with nothing
    pending; every request is for a share already recorded in the block's sampling metadata; the chosen
    shares are distinct, in-square and `min (w², 16)` many. -/
theorem step_accepted (s : State) (ev : Ev) (rnd : List (List (Nat × Nat))) (hs : StateOK s) (hwf : EvWF ev) :
    specOK (view33 s) ev (step s ev rnd).2 = true ∧ StateOK (step s ev rnd).1 :=
  ⟨(step_ok hs ev hwf rnd).2.2, (step_ok hs ev hwf rnd).1⟩

/-- **every history**, in whatever order the network answers and whatever else happens meanwhile -/
theorem history_accepted (limit extra : Nat) (hdr : Nat → Hdr)
    (evs : List (Ev × List (List (Nat × Nat)))) (hwf : ∀ e ∈ evs, EvWF e.1) :
    accepts33 (init { limit := limit, extra := extra, maxSamples := Lumina.Gen.C33.MAX_SAMPLES_NEEDED,
                      prunerThreshold := Lumina.Gen.C33.PRUNER_THRESHOLD } hdr) evs = true :=
  (run_ok evs _ (init_ok limit extra hdr) hwf).2.1

/-- **answers that are neither a sample nor a timeout** (a P2p error, bytes that are not a `Block`, a block for a
    different CID, a container that does not decode to the requested sample): what the worker does.  If the request
    was pending, the worker stops with `FatalDaserError` — nothing else is observable, in particular no
    `mark_as_sampled` — and is dead afterwards with no sampling in progress; otherwise nothing happens. -/
theorem bad_answer_stops_worker (s : State) (h : Nat) (p : Share) (hs : StateOK s) :
    (onBadAnswer s h p = (s, []) ∨
     (onBadAnswer s h p).2 = [Tok.fatal] ∧ (onBadAnswer s h p).1.w.dead = true ∧ (onBadAnswer s h p).1.w.futs = [] ∧
       (onBadAnswer s h p).1.store = s.store) ∧
    (∀ x, Tok.mark x ∉ (onBadAnswer s h p).2) ∧
    specBadAnswer (view33 s) (onBadAnswer s h p).2 = true ∧ StateOK (onBadAnswer s h p).1 := by
  obtain ⟨h1, _, h3, h4⟩ := onBadAnswer_ok hs h p
  refine ⟨?_, ?_, h3, h1⟩
  · rcases h4 with h4 | h4
    · exact Or.inl h4
    · right; rw [h4]; exact ⟨rfl, rfl, rfl, rfl⟩
  · intro x
    rcases h4 with h4 | h4 <;> rw [h4] <;> simp

/-- once dead the worker marks nothing, whatever happens -/
theorem dead_worker_marks_nothing (s : State) (st : Stim) (hd : s.w.dead = true) (x : Nat) :
    Tok.mark x ∉ (stepX s st).2 := by
  cases st with
  | ev e rnd =>
    simp only [stepX, step, hd, if_true]
    cases e <;> simp only [stepDead] <;> (try split) <;> simp
  | badAnswer h p => simp [stepX, onBadAnswer, hd]

/-- **every history, including such answers**: the C33 monitor accepts everything -/
theorem history_with_bad_answers_accepted (limit extra : Nat) (hdr : Nat → Hdr) (sts : List Stim)
    (hwf : ∀ st ∈ sts, StimWF st) :
    acceptsX33 (init { limit := limit, extra := extra, maxSamples := Lumina.Gen.C33.MAX_SAMPLES_NEEDED,
                       prunerThreshold := Lumina.Gen.C33.PRUNER_THRESHOLD } hdr) sts = true :=
  (runX_ok sts _ (init_ok limit extra hdr) hwf).2.1

/-! ### what acceptance by the monitor means, action by action -/

/-- `sharesOK`, spelled out -/
theorem sharesOK_spelled_out (w : Nat) (shares : List Share) (h : sharesOK w shares = true) :
    shares.Nodup ∧ (∀ p ∈ shares, p.1 < w ∧ p.2 < w) ∧ shares.length = min (w * w) 16 := by
  simp only [sharesOK, Bool.and_eq_true, decide_eq_true_eq, List.all_eq_true, beq_iff_eq] at h
  exact ⟨h.1.1, h.1.2, h.2⟩

/-- an accepted `mark_as_sampled(h)`: block `h` is the one that has just finished with every share retrieved -/
theorem accepted_mark (v : View) (h : Nat) (ts : List Tok) (hacc : (walk v (Tok.mark h :: ts)).isSome = true) :
    v.justOk = some h := by
  simp only [walk, onTok] at hacc
  by_cases hj : v.justOk = some h
  · exact hj
  · have : (v.justOk == some h) = false := by simpa using hj
    simp [this] at hacc

/-- an accepted `SamplingResult(h, timed_out)`: nothing of block `h` is pending, and `timed_out` says
    whether some share timed out; only a result without timeout arms `mark_as_sampled` -/
theorem accepted_result (v : View) (h : Nat) (to : Bool) (ts : List Tok)
    (hacc : (walk v (Tok.result h to :: ts)).isSome = true) :
    ∃ b, findBlk v h = some b ∧ b.pending = [] ∧ b.anyTimeout = to := by
  simp only [walk, onTok] at hacc
  cases hb : findBlk v h with
  | none => rw [hb] at hacc; simp at hacc
  | some b =>
    rw [hb] at hacc
    refine ⟨b, rfl, ?_⟩
    by_cases hc : (b.pending.isEmpty && to == b.anyTimeout) = true
    · simp only [Bool.and_eq_true, List.isEmpty_iff, beq_iff_eq] at hc
      exact ⟨hc.1, hc.2.symm⟩
    · simp [hc] at hacc

/-- accepted requests of block `h`: exactly the chosen shares, each already recorded in `h`'s sampling metadata -/
theorem accepted_requests (v : View) (h : Nat) (shares : List Share) (ts : List Tok)
    (hacc : (walk v (Tok.req h shares :: ts)).isSome = true) :
    ∃ b, findBlk v h = some b ∧ sameSet shares b.chosen = true ∧ shares.Nodup ∧ ∀ p ∈ shares, p ∈ v.recorded h := by
  simp only [walk, onTok] at hacc
  cases hb : findBlk v h with
  | none => rw [hb] at hacc; simp at hacc
  | some b =>
    rw [hb] at hacc
    refine ⟨b, rfl, ?_⟩
    dsimp only at hacc
    split at hacc
    · simp at hacc
    · rename_i v' heq
      split at heq
      · rename_i hc
        simp only [Bool.and_eq_true, decide_eq_true_eq, List.all_eq_true, List.contains_iff_mem] at hc
        exact ⟨hc.1.1, hc.1.2, hc.2⟩
      · simp at heq

/-- an accepted `update_sampling_metadata(h, cids)`: the chosen shares are distinct, inside the square of
    `h`'s header and `min (w², 16)` many, and `h` is not already being sampled -/
theorem accepted_choice (v : View) (h : Nat) (cids : List Share) (ts : List Tok)
    (hacc : (walk v (Tok.metaUpd h cids :: ts)).isSome = true) :
    sharesOK (v.width h) cids = true ∧ findBlk v h = none := by
  simp only [walk, onTok] at hacc
  by_cases hc : (sharesOK (v.width h) cids && (findBlk v h).isNone) = true
  · simp only [Bool.and_eq_true, Option.isNone_iff_eq_none] at hc
    exact hc
  · simp [hc] at hacc

/-! ### non-vacuity: concrete histories -/

def cfg0 : Cfg := { limit := 2, extra := 0, maxSamples := Lumina.Gen.C33.MAX_SAMPLES_NEEDED,
                    prunerThreshold := Lumina.Gen.C33.PRUNER_THRESHOLD }
/-- heights 1, 2: width 2 (whole square sampled); height 3: width 5 (16 of 25 cells) -/
def hdr0 : Nat → Hdr := fun h => { width := if h = 3 then 5 else 2, fresh := true }
def s0 : State := init cfg0 hdr0
def g2 : List Share := [(0,0),(0,1),(1,0),(1,1)]
/-- raw draws for the 5 × 5 block: a repeated cell and out-of-range values are reduced mod 5 and deduplicated -/
def draws3 : List (Nat × Nat) :=
  [(0,0),(5,5),(0,1),(0,2),(0,3),(0,4),(1,0),(1,1),(1,2),(1,3),(1,4),(2,0),(2,1),(2,2),(2,3),(7,4),(3,0),(9,9)]
def sel3 : List Share :=
  [(0,0),(0,1),(0,2),(0,3),(0,4),(1,0),(1,1),(1,2),(1,3),(1,4),(2,0),(2,1),(2,2),(2,3),(2,4),(3,0)]

example : randomIndexes 5 16 draws3 = some sel3 := by decide

/-- blocks 3 and 2 are started; 2 is answered completely and successfully → marked; one share of 3 times out,
    the other 15 succeed → `SamplingResult(3, timed_out)` and no mark -/
def h1 : List (Ev × List (List (Nat × Nat))) :=
  [(.insert 1 3, []), (.peers 1, [draws3, []]),
   (.answer 2 (0,0) false, []), (.answer 2 (1,1) false, []), (.answer 2 (0,1) false, []), (.answer 2 (1,0) false, [[]])] ++
  (sel3.map (fun p => (Ev.answer 3 p (p == (1,3)), ([[]] : List (List (Nat × Nat))))))

set_option maxRecDepth 100000 in
example : (run s0 h1).2.take 6 =
    [[], [Tok.scan, Tok.metaUpd 3 sel3, Tok.metaUpd 2 g2, Tok.started 3 5 sel3, Tok.started 2 2 g2, Tok.req 3 sel3, Tok.req 2 g2],
     [Tok.share 2 (0,0) false], [Tok.share 2 (1,1) false], [Tok.share 2 (0,1) false],
     [Tok.share 2 (1,0) false, Tok.result 2 false, Tok.mark 2, Tok.metaUpd 1 g2, Tok.started 1 2 g2, Tok.req 1 g2]] := by decide

set_option maxRecDepth 100000 in
example : ((run s0 h1).2.getLast?) = some [Tok.share 3 (3,0) false, Tok.result 3 true] := by decide

set_option maxRecDepth 100000 in
example : accepts33 s0 h1 = true := by decide

set_option maxRecDepth 100000 in
/-- a bad answer for the LAST pending share of block 2 (the other three succeeded): the worker dies, block 2 is not marked -/
example : (onBadAnswer (run s0 (h1.take 5)).1 2 (1,0)).2 = [Tok.fatal] ∧
    (onBadAnswer (run s0 (h1.take 5)).1 2 (1,0)).1.w.dead = true := by decide

/-- the monitor is not trivially accepting: a mark without a preceding successful result, a request for an
    unrecorded share, and a choice with a repeated share are all rejected -/
example : specOK (view33 (run s0 (h1.take 3)).1) (.answer 2 (1,1) false) [Tok.share 2 (1,1) false, Tok.mark 2] = false := by decide
example : specOK (view33 (run s0 (h1.take 2)).1) (.peers 1) [Tok.req 2 [(0,0),(0,1),(1,0),(4,4)]] = false := by decide
example : specOK (view33 s0) (.peers 1) [Tok.metaUpd 2 [(0,0),(0,0),(1,0),(1,1)]] = false := by decide
example : specOK (view33 s0) (.peers 1) [Tok.metaUpd 3 g2] = false := by decide

/-! ### ADDITIONAL (strengthening): the history form of "marked only after full success", and its composition with C10

`mark_all_retrieved` needs no assumption: it is a ghost-history invariant of the worker model
(`Proofs/DaserSampled.lean`), the temporal reading of what the monitor checks step by step (`accepted_mark`,
`accepted_result`, `accepted_choice`).  `sampled_shares_checked` combines it with C10's `mh_sample_sound` under ONE
explicit assumption about third-party code, `BeetswapContract`. -/

open Lumina.Proofs.DaserSampled in
/-- **every history, whole-history form.**  Whenever the worker calls `mark_as_sampled(h)` — in reaction to stimulus `ev`
    after ANY history `pre` (answers in any order, timeouts, store changes, reconnections, any draws) — there is a set
    of shares of block `h`, pairwise distinct, inside the square of `h`'s header, `min (w², 16)` many, EACH of which was
    answered successfully (`Ok(sample)`, not a timeout) by the network while its request was outstanding, at some
    point of the history up to and including `ev` (`hits`). -/
theorem mark_all_retrieved (limit extra : Nat) (hdr : Nat → Hdr)
    (pre : List (Ev × List (List (Nat × Nat)))) (ev : Ev) (rnd : List (List (Nat × Nat))) (h : Nat)
    (hm : Tok.mark h ∈ (step (run (init { limit := limit, extra := extra, maxSamples := Lumina.Gen.C33.MAX_SAMPLES_NEEDED, prunerThreshold := Lumina.Gen.C33.PRUNER_THRESHOLD } hdr) pre).1
        ev rnd).2) :
    ∃ shares : List Share, shares.Nodup ∧ (∀ p ∈ shares, p.1 < (hdr h).width ∧ p.2 < (hdr h).width) ∧
      shares.length = min ((hdr h).width * (hdr h).width) 16 ∧
      ∀ p ∈ shares, (h, p) ∈ hits (init { limit := limit, extra := extra, maxSamples := Lumina.Gen.C33.MAX_SAMPLES_NEEDED, prunerThreshold := Lumina.Gen.C33.PRUNER_THRESHOLD } hdr)
        (pre ++ [(ev, rnd)]) := by
  generalize hs0 : init _ hdr = s0 at hm ⊢
  have h16 : s0.cfg.maxSamples = 16 := by rw [← hs0]; exact max_samples_is_16
  have hhdr : s0.hdr = hdr := by rw [← hs0]; rfl
  have h0 : FutsOK s0 [] := by
    intro f hf; rw [← hs0] at hf; simp [init, Worker.init] at hf
  obtain ⟨h1, h2, h3⟩ := run_futsOK pre s0 [] h16 h0
  obtain ⟨_, _, _, h4⟩ := step_futsOK (run s0 pre).1 ev rnd _ (by rw [h3]; exact h16) h1
  obtain ⟨shares, hok, hall⟩ := h4 h hm
  rw [h2, hhdr] at hok
  obtain ⟨k1, k2, k3⟩ := sharesOK_spelled_out _ _ hok
  refine ⟨shares, k1, k2, k3, fun p hp => ?_⟩
  rw [hits_append]
  simpa using hall p hp

open Lumina.Model.ShwapHasher Lumina.Proofs.SampledShares in
/-- **The beetswap contract** — an ASSUMPTION about third-party code (beetswap's bitswap client), not proved here: a
    sample request is answered successfully only with a block for which the registered multihasher
    (`ShwapMultihasher`, the subject of C10) yielded exactly the multihash of the REQUESTED CID
    (`sample_cid(row, col, height)`), run against a header store each of whose headers commits to the square `sq` of
    its height.  (beetswap hashes every received block with the multihasher registered for the block's multihash
    code, rebuilds the CID from the result and resolves a query only if that CID is on its wantlist.) -/
def BeetswapContract (H : Lumina.Model.Nmt.HashFn) (P : Params) (sq : Nat → Lumina.Model.Eds.Eds) (kk : Nat → Nat)
    (answered : List (Nat × Share)) : Prop :=
  ∀ hp ∈ answered, ∃ store blk, StoreCommits H sq kk store ∧
    multihash H P store Lumina.Gen.C15.SAMPLE_ID_MULTIHASH_CODE blk = .ok (mhBytes (sampleCid hp.1 hp.2))

open Lumina.Model.ShwapHasher Lumina.Proofs.SampledShares Lumina.Proofs.DaserSampled in
/-- **A block marked sampled really had its shares checked** (C33 × C10), modest form.  Under the idealised hash and
    the beetswap contract for the successful answers of the history; heights are `u64` and square widths `u16` values
    (the Rust types): whenever the worker marks height `h` as sampled there are `min (w², 16)` pairwise distinct
    in-square coordinates of `h`'s square for each of which a block was delivered whose decoded sample carries exactly
    the COMMITTED share at that coordinate (the share of the square that the stored header's DAH commits to).
    What is NOT claimed: anything about beetswap itself, or that the store consulted by the multihasher and the
    header chain `hdr` the worker reads describe the same headers (both are parameters). -/
theorem sampled_shares_checked {H : Lumina.Model.Nmt.HashFn} (hk : Lumina.Proofs.Nmt.HashOK H) (P : Params)
    (sq : Nat → Lumina.Model.Eds.Eds) (kk : Nat → Nat) (limit extra : Nat) (hdr : Nat → Hdr)
    (hwid : ∀ x, (hdr x).width ≤ 65536)
    (pre : List (Ev × List (List (Nat × Nat)))) (ev : Ev) (rnd : List (List (Nat × Nat))) (h : Nat) (hh : h < 2 ^ 64)
    (hbs : BeetswapContract H P sq kk (hits (init { limit := limit, extra := extra, maxSamples := Lumina.Gen.C33.MAX_SAMPLES_NEEDED, prunerThreshold := Lumina.Gen.C33.PRUNER_THRESHOLD } hdr)
        (pre ++ [(ev, rnd)])))
    (hm : Tok.mark h ∈ (step (run (init { limit := limit, extra := extra, maxSamples := Lumina.Gen.C33.MAX_SAMPLES_NEEDED, prunerThreshold := Lumina.Gen.C33.PRUNER_THRESHOLD } hdr) pre).1
        ev rnd).2) :
    ∃ shares : List Share, shares.Nodup ∧ (∀ p ∈ shares, p.1 < (hdr h).width ∧ p.2 < (hdr h).width) ∧
      shares.length = min ((hdr h).width * (hdr h).width) 16 ∧
      ∀ p ∈ shares, ∃ blk, CarriesCommittedShare P sq h p blk := by
  obtain ⟨shares, k1, k2, k3, k4⟩ := mark_all_retrieved limit extra hdr pre ev rnd h hm
  refine ⟨shares, k1, k2, k3, fun p hp => ?_⟩
  obtain ⟨store, blk, hst, hok⟩ := hbs (h, p) (k4 p hp)
  have hw := hwid h
  have hp12 := k2 p hp
  exact ⟨blk, accepted_block_is_committed_share hk P hst hh (by omega) (by omega) hok⟩

/-! non-vacuity of the two additional theorems: in the concrete history `h1` block 2 IS marked (so the premise `hm` is
    met), with the four hits of its 2 × 2 square; and the beetswap contract is satisfiable (toy hash and the concrete
    accepted sample block of `Props/C10`; `HashOK` itself is the idealisation, met by no computable hash) -/

set_option maxRecDepth 100000 in
example : Tok.mark 2 ∈ (step (run s0 (h1.take 5)).1 (.answer 2 (1,0) false) [[]]).2 ∧
    Lumina.Proofs.DaserSampled.hits s0 (h1.take 6) = [(2,(0,0)), (2,(1,1)), (2,(0,1)), (2,(1,0))] := by decide

set_option maxRecDepth 100000 in
open Lumina.Props.C10 Lumina.Props.C04 in
example : BeetswapContract toyH32 okP (fun _ => okEds) (fun _ => 1) [(1, (0, 0))] := by
  intro hp hmem
  simp only [List.mem_singleton] at hmem
  subst hmem
  refine ⟨okStore, [2], ?_, ?_⟩
  · intro h d hs
    have hd : d = okDah := by
      by_cases h1 : h = 1
      · simp [okStore, h1] at hs; exact hs.symm
      · simp [okStore, h1] at hs
    subst hd
    exact ⟨rfl, rfl, Lumina.Props.C06.nonvacuity_okEds_shape.size⟩
  · have hy : yields (Lumina.Model.ShwapHasher.multihash toyH32 okP okStore Lumina.Gen.C15.SAMPLE_ID_MULTIHASH_CODE [2])
        okSampleId.toCid = true := by decide +kernel
    unfold yields at hy
    split at hy
    · rename_i hsh heq
      rw [heq]
      have : hsh = Lumina.Model.ShwapHasher.mhBytes okSampleId.toCid := by simpa using hy
      rw [this]; rfl
    · cases hy

end Lumina.Props.C33

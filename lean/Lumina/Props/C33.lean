import Lumina.Gen.C33
import Lumina.Model.DaserView

namespace Lumina.Props.C33

/-- at most 16 shares are sampled per block, the number the property states -/
theorem max_samples_is_16 : Lumina.Gen.C33.MAX_SAMPLES_NEEDED = 16 := by decide

end Lumina.Props.C33

/-
  C33 — Data sampling marks a block sampled only after full success.

  Property theorems over the worker model `Lumina.Model.Daser` (transcription of
  `/repo/node/src/daser.rs`), for ALL states reachable by ANY history of stimuli (network answers —
  success or timeout — to any pending request in any order, store inserts and removals, peer-count
  changes, pruner commands) and ANY raw draws of the random number generator.  The property is the
  monitor `Lumina.Spec.C33`; `view33` is what the monitor sees of a state.
  Lemmas: `Lumina/Proofs/Daser.lean`, `Lumina/Proofs/DaserIndexes.lean`.
-/
import Lumina.Gen.C33
import Lumina.Proofs.Daser
import Lumina.Proofs.DaserSampled
import Lumina.Proofs.SampledShares

namespace Lumina.Props.C33
open Lumina.Model.Daser Lumina.Proofs.Daser Lumina.Proofs.DaserIndexes
open Lumina.Spec.C33

/-- at most 16 shares are sampled per block, the number the property states -/
theorem max_samples_is_16 : Lumina.Gen.C33.MAX_SAMPLES_NEEDED = 16 := by decide

/-- (used by the shared invariant; the number itself is C34's subject) -/
theorem pruner_threshold_is_512 : Lumina.Gen.C33.PRUNER_THRESHOLD = 512 := by decide

/-- a freshly created worker (any limits, any header chain) satisfies the invariant -/
theorem init_ok (limit extra : Nat) (hdr : Nat → Hdr) :
    StateOK (init { limit := limit, extra := extra, maxSamples := Lumina.Gen.C33.MAX_SAMPLES_NEEDED,
                    prunerThreshold := Lumina.Gen.C33.PRUNER_THRESHOLD } hdr) :=
  ⟨inv_init _ _, pruner_threshold_is_512, max_samples_is_16⟩

/-! ### `random_indexes`, every width -/

/-- whatever the generator draws: if `random_indexes(w, 16)` returns, the indexes are pairwise distinct,
    inside the `w × w` square, and there are exactly `min (w², 16)` of them -/
theorem random_indexes_ok (w : Nat) (draws : List (Nat × Nat)) (out : List Share)
    (h : randomIndexes w Lumina.Gen.C33.MAX_SAMPLES_NEEDED draws = some out) :
    out.Nodup ∧ (∀ p ∈ out, p.1 < w ∧ p.2 < w) ∧ out.length = min (w * w) 16 :=
  randomIndexes_spec w 16 draws out h

/-- squares with at most 16 cells are sampled completely, without randomness -/
theorem random_indexes_whole_square (w : Nat) (draws : List (Nat × Nat)) (h : w * w ≤ 16) :
    randomIndexes w Lumina.Gen.C33.MAX_SAMPLES_NEEDED draws = some (fullGrid w) ∧
    ∀ p, p ∈ fullGrid w ↔ p.1 < w ∧ p.2 < w :=
  ⟨randomIndexes_small w 16 draws h, mem_fullGrid w⟩

/-- the `while indexes.len() < 16` loop can always exit: for every wider square there are draws on which
    it terminates (the size argument: `w² > 16` distinct cells exist, each iteration adds at most one) -/
theorem random_indexes_can_exit (w : Nat) (h : 16 < w * w) :
    ∃ draws, (randomIndexes w Lumina.Gen.C33.MAX_SAMPLES_NEEDED draws).isSome = true :=
  randomIndexes_can_exit w 16 h

/-! ### the worker -/

/-- **one stimulus.**  From any state satisfying the invariant, for any stimulus with `u64` arguments and
    any raw draws: the invariant holds afterwards and the C33 monitor accepts every action of the worker:
    every `mark_as_sampled` directly follows a `SamplingResult` without timeout of a block with nothing
    pending; every request is for a share already recorded in the block's sampling metadata; the chosen
    shares are distinct, in-square and `min (w², 16)` many. -/
theorem step_accepted (s : State) (ev : Ev) (rnd : List (List (Nat × Nat))) (hs : StateOK s) (hwf : EvWF ev) :
    specOK (view33 s) ev (step s ev rnd).2 = true ∧ StateOK (step s ev rnd).1 :=
  ⟨(step_ok hs ev hwf rnd).2.2, (step_ok hs ev hwf rnd).1⟩

/-- **every history**, in whatever order the network answers and whatever else happens meanwhile -/
theorem history_accepted (limit extra : Nat) (hdr : Nat → Hdr)
    (evs : List (Ev × List (List (Nat × Nat)))) (hwf : ∀ e ∈ evs, EvWF e.1) :
    accepts33 (init { limit := limit, extra := extra, maxSamples := Lumina.Gen.C33.MAX_SAMPLES_NEEDED,
                      prunerThreshold := Lumina.Gen.C33.PRUNER_THRESHOLD } hdr) evs = true :=
  (run_ok evs _ (init_ok limit extra hdr) hwf).2.1

/-- **answers that are neither a sample nor a timeout** (a P2p error, bytes that are not a `Block`, a block for a
    different CID, a container that does not decode to the requested sample): what the worker does.  If the request
    was pending, the worker stops with `FatalDaserError` — nothing else is observable, in particular no
    `mark_as_sampled` — and is dead afterwards with no sampling in progress; otherwise nothing happens. -/
theorem bad_answer_stops_worker (s : State) (h : Nat) (p : Share) (hs : StateOK s) :
    (onBadAnswer s h p = (s, []) ∨
     (onBadAnswer s h p).2 = [Tok.fatal] ∧ (onBadAnswer s h p).1.w.dead = true ∧ (onBadAnswer s h p).1.w.futs = [] ∧
       (onBadAnswer s h p).1.store = s.store) ∧
    (∀ x, Tok.mark x ∉ (onBadAnswer s h p).2) ∧
    specBadAnswer (view33 s) (onBadAnswer s h p).2 = true ∧ StateOK (onBadAnswer s h p).1 := by
  obtain ⟨h1, _, h3, h4⟩ := onBadAnswer_ok hs h p
  refine ⟨?_, ?_, h3, h1⟩
  · rcases h4 with h4 | h4
    · exact Or.inl h4
    · right; rw [h4]; exact ⟨rfl, rfl, rfl, rfl⟩
  · intro x
    rcases h4 with h4 | h4 <;> rw [h4] <;> simp

/-- once dead the worker marks nothing, whatever happens -/
theorem dead_worker_marks_nothing (s : State) (st : Stim) (hd : s.w.dead = true) (x : Nat) :
    Tok.mark x ∉ (stepX s st).2 := by
  cases st with
  | ev e rnd =>
    simp only [stepX, step, hd, if_true]
    cases e <;> simp only [stepDead] <;> (try split) <;> simp
  | badAnswer h p => simp [stepX, onBadAnswer, hd]

/-- **every history, including such answers**: the C33 monitor accepts everything -/
theorem history_with_bad_answers_accepted (limit extra : Nat) (hdr : Nat → Hdr) (sts : List Stim)
    (hwf : ∀ st ∈ sts, StimWF st) :
    acceptsX33 (init { limit := limit, extra := extra, maxSamples := Lumina.Gen.C33.MAX_SAMPLES_NEEDED,
                       prunerThreshold := Lumina.Gen.C33.PRUNER_THRESHOLD } hdr) sts = true :=
  (runX_ok sts _ (init_ok limit extra hdr) hwf).2.1

/-! ### what acceptance by the monitor means, action by action -/

/-- `sharesOK`, spelled out -/
theorem sharesOK_spelled_out (w : Nat) (shares : List Share) (h : sharesOK w shares = true) :
    shares.Nodup ∧ (∀ p ∈ shares, p.1 < w ∧ p.2 < w) ∧ shares.length = min (w * w) 16 := by
  simp only [sharesOK, Bool.and_eq_true, decide_eq_true_eq, List.all_eq_true, beq_iff_eq] at h
  exact ⟨h.1.1, h.1.2, h.2⟩

/-- an accepted `mark_as_sampled(h)`: block `h` is the one that has just finished with every share retrieved -/
theorem accepted_mark (v : View) (h : Nat) (ts : List Tok) (hacc : (walk v (Tok.mark h :: ts)).isSome = true) :
    v.justOk = some h := by
  simp only [walk, onTok] at hacc
  by_cases hj : v.justOk = some h
  · exact hj
  · have : (v.justOk == some h) = false := by simpa using hj
    simp [this] at hacc

/-- an accepted `SamplingResult(h, timed_out)`: nothing of block `h` is pending, and `timed_out` says
    whether some share timed out; only a result without timeout arms `mark_as_sampled` -/
theorem accepted_result (v : View) (h : Nat) (to : Bool) (ts : List Tok)
    (hacc : (walk v (Tok.result h to :: ts)).isSome = true) :
    ∃ b, findBlk v h = some b ∧ b.pending = [] ∧ b.anyTimeout = to := by
  simp only [walk, onTok] at hacc
  cases hb : findBlk v h with
  | none => rw [hb] at hacc; simp at hacc
  | some b =>
    rw [hb] at hacc
    refine ⟨b, rfl, ?_⟩
    by_cases hc : (b.pending.isEmpty && to == b.anyTimeout) = true
    · simp only [Bool.and_eq_true, List.isEmpty_iff, beq_iff_eq] at hc
      exact ⟨hc.1, hc.2.symm⟩
    · simp [hc] at hacc

/-- accepted requests of block `h`: exactly the chosen shares, each already recorded in `h`'s sampling metadata -/
theorem accepted_requests (v : View) (h : Nat) (shares : List Share) (ts : List Tok)
    (hacc : (walk v (Tok.req h shares :: ts)).isSome = true) :
    ∃ b, findBlk v h = some b ∧ sameSet shares b.chosen = true ∧ shares.Nodup ∧ ∀ p ∈ shares, p ∈ v.recorded h := by
  simp only [walk, onTok] at hacc
  cases hb : findBlk v h with
  | none => rw [hb] at hacc; simp at hacc
  | some b =>
    rw [hb] at hacc
    refine ⟨b, rfl, ?_⟩
    dsimp only at hacc
    split at hacc
    · simp at hacc
    · rename_i v' heq
      split at heq
      · rename_i hc
        simp only [Bool.and_eq_true, decide_eq_true_eq, List.all_eq_true, List.contains_iff_mem] at hc
        exact ⟨hc.1.1, hc.1.2, hc.2⟩
      · simp at heq

/-- an accepted `update_sampling_metadata(h, cids)`: the chosen shares are distinct, inside the square of
    `h`'s header and `min (w², 16)` many, and `h` is not already being sampled -/
theorem accepted_choice (v : View) (h : Nat) (cids : List Share) (ts : List Tok)
    (hacc : (walk v (Tok.metaUpd h cids :: ts)).isSome = true) :
    sharesOK (v.width h) cids = true ∧ findBlk v h = none := by
  simp only [walk, onTok] at hacc
  by_cases hc : (sharesOK (v.width h) cids && (findBlk v h).isNone) = true
  · simp only [Bool.and_eq_true, Option.isNone_iff_eq_none] at hc
    exact hc
  · simp [hc] at hacc

/-! ### non-vacuity: concrete histories -/

def cfg0 : Cfg := { limit := 2, extra := 0, maxSamples := Lumina.Gen.C33.MAX_SAMPLES_NEEDED,
                    prunerThreshold := Lumina.Gen.C33.PRUNER_THRESHOLD }
/-- heights 1, 2: width 2 (whole square sampled); height 3: width 5 (16 of 25 cells) -/
def hdr0 : Nat → Hdr := fun h => { width := if h = 3 then 5 else 2, fresh := true }
def s0 : State := init cfg0 hdr0
def g2 : List Share := [(0,0),(0,1),(1,0),(1,1)]
/-- raw draws for the 5 × 5 block: a repeated cell and out-of-range values are reduced mod 5 and deduplicated -/
def draws3 : List (Nat × Nat) :=
  [(0,0),(5,5),(0,1),(0,2),(0,3),(0,4),(1,0),(1,1),(1,2),(1,3),(1,4),(2,0),(2,1),(2,2),(2,3),(7,4),(3,0),(9,9)]
def sel3 : List Share :=
  [(0,0),(0,1),(0,2),(0,3),(0,4),(1,0),(1,1),(1,2),(1,3),(1,4),(2,0),(2,1),(2,2),(2,3),(2,4),(3,0)]

example : randomIndexes 5 16 draws3 = some sel3 := by decide

/-- blocks 3 and 2 are started; 2 is answered completely and successfully → marked; one share of 3 times out,
    the other 15 succeed → `SamplingResult(3, timed_out)` and no mark -/
def h1 : List (Ev × List (List (Nat × Nat))) :=
  [(.insert 1 3, []), (.peers 1, [draws3, []]),
   (.answer 2 (0,0) false, []), (.answer 2 (1,1) false, []), (.answer 2 (0,1) false, []), (.answer 2 (1,0) false, [[]])] ++
  (sel3.map (fun p => (Ev.answer 3 p (p == (1,3)), ([[]] : List (List (Nat × Nat))))))

set_option maxRecDepth 100000 in
example : (run s0 h1).2.take 6 =
    [[], [Tok.scan, Tok.metaUpd 3 sel3, Tok.metaUpd 2 g2, Tok.started 3 5 sel3, Tok.started 2 2 g2, Tok.req 3 sel3, Tok.req 2 g2],
     [Tok.share 2 (0,0) false], [Tok.share 2 (1,1) false], [Tok.share 2 (0,1) false],
     [Tok.share 2 (1,0) false, Tok.result 2 false, Tok.mark 2, Tok.metaUpd 1 g2, Tok.started 1 2 g2, Tok.req 1 g2]] := by decide

set_option maxRecDepth 100000 in
example : ((run s0 h1).2.getLast?) = some [Tok.share 3 (3,0) false, Tok.result 3 true] := by decide

set_option maxRecDepth 100000 in
example : accepts33 s0 h1 = true := by decide

set_option maxRecDepth 100000 in
/-- a bad answer for the LAST pending share of block 2 (the other three succeeded): the worker dies, block 2 is not marked -/
example : (onBadAnswer (run s0 (h1.take 5)).1 2 (1,0)).2 = [Tok.fatal] ∧
    (onBadAnswer (run s0 (h1.take 5)).1 2 (1,0)).1.w.dead = true := by decide

/-- the monitor is not trivially accepting: a mark without a preceding successful result, a request for an
    unrecorded share, and a choice with a repeated share are all rejected -/
example : specOK (view33 (run s0 (h1.take 3)).1) (.answer 2 (1,1) false) [Tok.share 2 (1,1) false, Tok.mark 2] = false := by decide
example : specOK (view33 (run s0 (h1.take 2)).1) (.peers 1) [Tok.req 2 [(0,0),(0,1),(1,0),(4,4)]] = false := by decide
example : specOK (view33 s0) (.peers 1) [Tok.metaUpd 2 [(0,0),(0,0),(1,0),(1,1)]] = false := by decide
example : specOK (view33 s0) (.peers 1) [Tok.metaUpd 3 g2] = false := by decide

/-! ### ADDITIONAL (strengthening): the history form of "marked only after full success", and its composition with C10

`mark_all_retrieved` needs no assumption: it is a ghost-history invariant of the worker model
(`Proofs/DaserSampled.lean`), the temporal reading of what the monitor checks step by step (`accepted_mark`,
`accepted_result`, `accepted_choice`).  `sampled_shares_checked` combines it with C10's `mh_sample_sound` under ONE
explicit assumption about third-party code, `BeetswapContract`, and collision-freeness of the hash relative to the inputs
actually hashed (`HashOKOn H S`). -/

open Lumina.Proofs.DaserSampled in
/-- **every history, whole-history form.**  Whenever the worker calls `mark_as_sampled(h)` — in reaction to stimulus `ev`
    after ANY history `pre` (answers in any order, timeouts, store changes, reconnections, any draws) — there is a set
    of shares of block `h`, pairwise distinct, inside the square of `h`'s header, `min (w², 16)` many, EACH of which was
    answered successfully (`Ok(sample)`, not a timeout) by the network while its request was outstanding, at some
    point of the history up to and including `ev` (`hits`). -/
theorem mark_all_retrieved (limit extra : Nat) (hdr : Nat → Hdr)
    (pre : List (Ev × List (List (Nat × Nat)))) (ev : Ev) (rnd : List (List (Nat × Nat))) (h : Nat)
    (hm : Tok.mark h ∈ (step (run (init { limit := limit, extra := extra, maxSamples := Lumina.Gen.C33.MAX_SAMPLES_NEEDED, prunerThreshold := Lumina.Gen.C33.PRUNER_THRESHOLD } hdr) pre).1
        ev rnd).2) :
    ∃ shares : List Share, shares.Nodup ∧ (∀ p ∈ shares, p.1 < (hdr h).width ∧ p.2 < (hdr h).width) ∧
      shares.length = min ((hdr h).width * (hdr h).width) 16 ∧
      ∀ p ∈ shares, (h, p) ∈ hits (init { limit := limit, extra := extra, maxSamples := Lumina.Gen.C33.MAX_SAMPLES_NEEDED, prunerThreshold := Lumina.Gen.C33.PRUNER_THRESHOLD } hdr)
        (pre ++ [(ev, rnd)]) := by
  generalize hs0 : init _ hdr = s0 at hm ⊢
  have h16 : s0.cfg.maxSamples = 16 := by rw [← hs0]; exact max_samples_is_16
  have hhdr : s0.hdr = hdr := by rw [← hs0]; rfl
  have h0 : FutsOK s0 [] := by
    intro f hf; rw [← hs0] at hf; simp [init, Worker.init] at hf
  obtain ⟨h1, h2, h3⟩ := run_futsOK pre s0 [] h16 h0
  obtain ⟨_, _, _, h4⟩ := step_futsOK (run s0 pre).1 ev rnd _ (by rw [h3]; exact h16) h1
  obtain ⟨shares, hok, hall⟩ := h4 h hm
  rw [h2, hhdr] at hok
  obtain ⟨k1, k2, k3⟩ := sharesOK_spelled_out _ _ hok
  refine ⟨shares, k1, k2, k3, fun p hp => ?_⟩
  rw [hits_append]
  simpa using hall p hp

open Lumina.Model.ShwapHasher Lumina.Proofs.SampledShares in
/-- **The beetswap contract** — an ASSUMPTION about third-party code (beetswap's bitswap client), not proved here: a
    sample request is answered successfully only with a block for which the registered multihasher
    (`ShwapMultihasher`, the subject of C10) yielded exactly the multihash of the REQUESTED CID
    (`sample_cid(row, col, height)`), run against a header store each of whose headers commits to the square `sq` of
    its height.  (beetswap hashes every received block with the multihasher registered for the block's multihash
    code, rebuilds the CID from the result and resolves a query only if that CID is on its wantlist.)
    `S` is the set of byte strings the hash is assumed collision-free on (audit repair X1): the contract also says that
    what was hashed for those stores' squares (`StoreCommits`) and by the verification of the delivered block
    (`sampleBlockInputs`) lies in `S` — i.e. `S` ⊇ the union, over the successful answers of the history, of the inputs
    actually hashed. -/
def BeetswapContract (H : Lumina.Model.Nmt.HashFn) (S : Lumina.Util.Bytes → Prop) (P : Params)
    (sq : Nat → Lumina.Model.Eds.Eds) (kk : Nat → Nat) (answered : List (Nat × Share)) : Prop :=
  ∀ hp ∈ answered, ∃ store blk, StoreCommits H S sq kk store ∧
    multihash H P store Lumina.Gen.C15.SAMPLE_ID_MULTIHASH_CODE blk = .ok (mhBytes (sampleCid hp.1 hp.2)) ∧
    ∀ y ∈ sampleBlockInputs H P blk, S y

open Lumina.Model.ShwapHasher Lumina.Proofs.SampledShares Lumina.Proofs.DaserSampled in
/-- **A block marked sampled really had its shares checked** (C33 × C10), modest form.  Hypotheses: the hash has
    32-byte output and NO COLLISION AMONG the byte strings of `S` (`HashOKOn H S` — satisfiable, see the instance below;
    the former `HashOK H`, injectivity on all byte strings, was contradictory); the beetswap contract for the
    successful answers of the history, which ties `S` to what was actually hashed; heights are `u64` and square widths
    `u16` values (the Rust types).  Then whenever the worker marks height `h` as sampled there are `min (w², 16)`
    pairwise distinct in-square coordinates of `h`'s square for each of which a block was delivered whose decoded sample
    carries exactly the COMMITTED share at that coordinate (the share of the square that the stored header's DAH commits
    to).  What is NOT claimed: anything about beetswap itself, or that the store consulted by the multihasher and the
    header chain `hdr` the worker reads describe the same headers (both are parameters). -/
theorem sampled_shares_checked {H : Lumina.Model.Nmt.HashFn} {S : Lumina.Util.Bytes → Prop}
    (hk : Lumina.Proofs.Nmt.HashOKOn H S) (P : Params)
    (sq : Nat → Lumina.Model.Eds.Eds) (kk : Nat → Nat) (limit extra : Nat) (hdr : Nat → Hdr)
    (hwid : ∀ x, (hdr x).width ≤ 65536)
    (pre : List (Ev × List (List (Nat × Nat)))) (ev : Ev) (rnd : List (List (Nat × Nat))) (h : Nat) (hh : h < 2 ^ 64)
    (hbs : BeetswapContract H S P sq kk (hits (init { limit := limit, extra := extra, maxSamples := Lumina.Gen.C33.MAX_SAMPLES_NEEDED, prunerThreshold := Lumina.Gen.C33.PRUNER_THRESHOLD } hdr)
        (pre ++ [(ev, rnd)])))
    (hm : Tok.mark h ∈ (step (run (init { limit := limit, extra := extra, maxSamples := Lumina.Gen.C33.MAX_SAMPLES_NEEDED, prunerThreshold := Lumina.Gen.C33.PRUNER_THRESHOLD } hdr) pre).1
        ev rnd).2) :
    ∃ shares : List Share, shares.Nodup ∧ (∀ p ∈ shares, p.1 < (hdr h).width ∧ p.2 < (hdr h).width) ∧
      shares.length = min ((hdr h).width * (hdr h).width) 16 ∧
      ∀ p ∈ shares, ∃ blk, CarriesCommittedShare P sq h p blk := by
  obtain ⟨shares, k1, k2, k3, k4⟩ := mark_all_retrieved limit extra hdr pre ev rnd h hm
  refine ⟨shares, k1, k2, k3, fun p hp => ?_⟩
  obtain ⟨store, blk, hst, hok, hV⟩ := hbs (h, p) (k4 p hp)
  have hw := hwid h
  have hp12 := k2 p hp
  exact ⟨blk, accepted_block_is_committed_share hk P hst hh (by omega) (by omega) hok hV⟩

/-! ### non-vacuity of the two additional theorems

In the concrete history `h1` block 2 IS marked (premise `hm`), with the four hits of its 2 × 2 square.  For
`sampled_shares_checked` a complete concrete instance: the toy hash `toySum` (group D; it has collisions, but none among the
inputs below — `decide`), the 2 × 2 square `okEds` committed at height 2, four honest SAMPLE blocks (one per cell, built by
`Sample::new`), toy protobuf parameters.  Every hypothesis holds — relative collision-freeness on the 21 hashed inputs, the
beetswap contract for the four hits — and the theorem, applied, yields four distinct coordinates with their committed
shares. -/

set_option maxRecDepth 100000 in
theorem nonvacuity_marked : Tok.mark 2 ∈ (step (run s0 (h1.take 5)).1 (.answer 2 (1,0) false) [[]]).2 ∧
    Lumina.Proofs.DaserSampled.hits s0 (h1.take 5 ++ [(.answer 2 (1,0) false, [[]])]) =
      [(2,(0,0)), (2,(1,1)), (2,(0,1)), (2,(1,0))] := by decide

open Lumina.Model.Decoders Lumina.Model.ShwapId in
/-- the honest SAMPLE block for cell `(k / 2, k % 2)` of `okEds` at height 2, as `shwap.Sample` -/
def cellRaw (k : Nat) : RawSample :=
  match Lumina.Model.Sample.new Lumina.Proofs.Sample.toySum Lumina.Props.C04.okEds (k / 2) (k % 2) .row with
  | .ok s => ⟨some s.share.data,
      some ⟨s.proof.start, s.proof.end_, s.proof.siblings.map Lumina.Model.Nmt.NsHash.toBytes, [], s.proof.ignoreMaxNs⟩, 0⟩
  | .error _ => ⟨none, none, 0⟩

open Lumina.Model.ShwapHasher Lumina.Model.ShwapId in
/-- block `[k]` carries the sample of cell `k` -/
def cellP : Params where
  decodeBlock := fun b => match b with
    | [k] => some ((SampleId.mk ⟨⟨2⟩, k.toNat / 2⟩ (k.toNat % 2)).toCid.toBytes, [k])
    | _ => none
  decodeSample := fun c => match c with
    | [k] => some (cellRaw k.toNat)
    | _ => none
  decodeRow := fun _ => none
  decodeRnd := fun _ => none
  codec := ⟨fun s _ => s, fun s _ => s⟩

def cellStore : Nat → Option Lumina.Model.Eds.Dah := fun h => if h = 2 then some Lumina.Props.C10.okSumDah else none

/-- everything hashed for the committed square and by the verification of the four blocks -/
def cellHashed : List Lumina.Util.Bytes :=
  Lumina.Proofs.Eds.edsInputs Lumina.Proofs.Sample.toySum Lumina.Props.C04.okEds ++
    ([0, 1, 2, 3] : List UInt8).flatMap (fun k =>
      Lumina.Proofs.SampledShares.sampleBlockInputs Lumina.Proofs.Sample.toySum cellP [k])

set_option maxRecDepth 100000 in
theorem nonvacuity_cellHashed :
    Lumina.Proofs.Nmt.NoCollOn Lumina.Proofs.Sample.toySum (fun y => y ∈ cellHashed) ∧ cellHashed.length = 21 :=
  ⟨Lumina.Proofs.Sample.noCollOn_of_list (by decide +kernel), by decide +kernel⟩

set_option maxRecDepth 100000 in
open Lumina.Model.ShwapHasher Lumina.Proofs.SampledShares Lumina.Props.C10 in
theorem nonvacuity_cells_accepted : ∀ k ∈ ([0, 1, 2, 3] : List UInt8),
    yields (multihash Lumina.Proofs.Sample.toySum cellP cellStore Lumina.Gen.C15.SAMPLE_ID_MULTIHASH_CODE [k])
      (sampleCid 2 (k.toNat / 2, k.toNat % 2)) = true := by
  decide +kernel

open Lumina.Model.ShwapHasher Lumina.Proofs.SampledShares Lumina.Props.C10 Lumina.Proofs.Sample Lumina.Props.C04 in
/-- the beetswap contract holds of the four hits of the concrete history -/
theorem nonvacuity_contract :
    BeetswapContract toySum (fun y => y ∈ cellHashed) cellP (fun _ => okEds) (fun _ => 1)
      [(2,(0,0)), (2,(1,1)), (2,(0,1)), (2,(1,0))] := by
  have hstore : StoreCommits toySum (fun y => y ∈ cellHashed) (fun _ => okEds) (fun _ => 1) cellStore := by
    intro h d hs
    have hd : d = okSumDah := by
      by_cases h1 : h = 2
      · simp [cellStore, h1] at hs; exact hs.symm
      · simp [cellStore, h1] at hs
    subst hd
    exact ⟨rfl, rfl, Lumina.Props.C06.nonvacuity_okEds_shape.size, fun y hy => List.mem_append_left _ hy⟩
  have cell : ∀ k ∈ ([0, 1, 2, 3] : List UInt8), ∃ store blk,
      StoreCommits toySum (fun y => y ∈ cellHashed) (fun _ => okEds) (fun _ => 1) store ∧
      multihash toySum cellP store Lumina.Gen.C15.SAMPLE_ID_MULTIHASH_CODE blk =
        .ok (mhBytes (sampleCid 2 (k.toNat / 2, k.toNat % 2))) ∧
      ∀ y ∈ sampleBlockInputs toySum cellP blk, y ∈ cellHashed := by
    intro k hk
    refine ⟨cellStore, [k], hstore, yields_ok (nonvacuity_cells_accepted k hk), fun y hy => ?_⟩
    exact List.mem_append_right _ (List.mem_flatMap.mpr ⟨k, hk, hy⟩)
  intro hp hmem
  simp only [List.mem_cons, List.not_mem_nil, or_false] at hmem
  rcases hmem with rfl | rfl | rfl | rfl
  · exact cell 0 (by decide)
  · exact cell 3 (by decide)
  · exact cell 1 (by decide)
  · exact cell 2 (by decide)

open Lumina.Proofs.SampledShares Lumina.Proofs.Sample Lumina.Props.C04 in
/-- **`sampled_shares_checked` applied**: block 2 of the concrete history is marked, and the theorem gives four distinct
    cells of the committed square, each with a delivered block that carries the committed share -/
example : ∃ shares : List Share, shares.Nodup ∧ shares.length = 4 ∧
    ∀ p ∈ shares, ∃ blk, CarriesCommittedShare cellP (fun _ => okEds) 2 p blk := by
  have hbs : BeetswapContract toySum (fun y => y ∈ cellHashed) cellP (fun _ => okEds) (fun _ => 1)
      (Lumina.Proofs.DaserSampled.hits s0 (h1.take 5 ++ [(.answer 2 (1,0) false, [[]])])) := by
    rw [nonvacuity_marked.2]; exact nonvacuity_contract
  obtain ⟨shares, k1, _, k3, k4⟩ :=
    sampled_shares_checked ⟨nonvacuity_cellHashed.1, toySum_len⟩ cellP (fun _ => okEds) (fun _ => 1) 2 0 hdr0
      (fun x => by simp only [hdr0]; split <;> omega) (h1.take 5) (.answer 2 (1,0) false) [[]] 2 (by decide) hbs
      nonvacuity_marked.1
  exact ⟨shares, k1, by rw [k3]; decide, k4⟩

end Lumina.Props.C33
